//go:build verif

package reverseproxy

// C05 — fingerprint headers cannot be supplied or spoofed by the client.
// The real rewriteFunc runs on a ProxyRequest whose Out is a clone of In (what
// httputil.ReverseProxy hands to Rewrite, minus hop-by-hop and forwarding headers).

import (
	"errors"
	"net/http"
	"net/http/httputil"
	"net/textproto"
	"net/url"
)

type symInjector struct {
	name    string
	outcome int // 0 value, 1 empty value, 2 error
	val     string
}

var errInjector = errors.New("injector failed")

func (s *symInjector) GetHeaderName() string { return s.name }
func (s *symInjector) GetHeaderValue(*http.Request) (string, error) {
	switch s.outcome {
	case 0:
		return s.val, nil
	case 1:
		return "", nil
	}
	return "garbage", errInjector
}

var c05Names = []string{"X-JA3-Fingerprint", "X-JA4-Fingerprint", "X-HTTP2-Fingerprint", "x-custom-fp"}

func c05Rewrite(K int) {
	k := vRange("ninjectors", 1, K)
	var injs []HeaderInjector
	var mine []*symInjector
	in := &http.Request{Method: "GET", URL: &url.URL{Path: "/p"}, Header: http.Header{}, Host: "front.example", RemoteAddr: "10.0.0.7:4711"}
	for i := 0; i < k; i++ {
		nameIx := i
		if i == K-1 || vBool(vName("custom", i)) {
			nameIx = 3
		}
		s := &symInjector{name: c05Names[nameIx], outcome: vRange(vName("outcome", i), 0, 2)}
		s.val = "fp" + vString(vName("fpval", i), 1)
		vAssume(s.val[2] != 0)
		injs = append(injs, s)
		mine = append(mine, s)
		// the client's own copies of the header, under the canonical key net/http delivers
		nspoof := vRange(vName("nspoof", i), 0, 2)
		key := textproto.CanonicalMIMEHeaderKey(s.name)
		for j := 0; j < nspoof; j++ {
			// any client value, including the empty string (a bare "Name:" line)
			in.Header[key] = append(in.Header[key], vString(vName("spoof", i, j), vRange(vName("spooflen", i, j), 0, 1)))
		}
	}
	in.Header["Accept"] = []string{"*/*"}
	h := newHandler(injs)
	h.PreserveHost = vBool("preserveHost")
	out := in.Clone(in.Context())
	pr := &httputil.ProxyRequest{In: in, Out: out}
	h.rewriteFunc(pr)
	seen := map[string]bool{}
	for i := len(mine) - 1; i >= 0; i-- { // the last injector for a name decides its value
		s := mine[i]
		key := textproto.CanonicalMIMEHeaderKey(s.name)
		if seen[key] {
			continue
		}
		seen[key] = true
		vals := out.Header[key]
		clientSent := len(in.Header[key]) > 0
		switch s.outcome {
		case 0:
			vReach("value-injected")
			ok := len(vals) == 1
			if ok {
				ok = vals[0] == s.val
			}
			vAssert(ok, "exactly-the-proxy-value")
		default:
			if clientSent {
				vReach("client-sent-and-no-fingerprint")
			}
			// an earlier injector with the same name may legitimately have set a proxy value
			var earlier *symInjector
			for j := i - 1; j >= 0; j-- {
				if textproto.CanonicalMIMEHeaderKey(mine[j].name) == key && mine[j].outcome == 0 {
					earlier = mine[j]
					break
				}
			}
			if earlier != nil {
				// either reading of "the proxy's value" is accepted: the earlier injector's value, or none
				ok := len(vals) == 0
				if len(vals) == 1 {
					ok = vals[0] == earlier.val
				}
				vAssert(ok, "exactly-the-proxy-value")
			} else {
				vAssert(len(vals) == 0, "no-client-value-reaches-backend")
			}
		}
		// no other spelling of the name survives either
		for hk := range out.Header {
			if hk != key && textproto.CanonicalMIMEHeaderKey(hk) == key {
				vFail("non-canonical-duplicate")
			}
		}
	}
	vAssert(len(out.Header["Accept"]) == 1 && out.Header["Accept"][0] == "*/*", "other-headers-untouched")
}

func VerifC05_rewrite_quick()    { c05Rewrite(2) }
func VerifC05_rewrite_thorough() { c05Rewrite(3) }
