//go:build verif

package reverseproxy

// C08 (reduced scope) — rewriteFunc changes nothing of the request but what the property lists:
// the URL is pointed at the backend keeping path and query, Host follows PreserveHost, forwarding
// and fingerprint headers are set, every other header, the method, the body and the content
// length are left as the client sent them.

import (
	"io"
	"net/http"
	"net/http/httputil"
	"net/url"
	"strings"
)

func VerifC08_rewrite_passthrough() {
	methods := []string{"GET", "POST", "DELETE", "PATCH"}
	method := methods[vRange("method", 0, 3)]
	path := "/" + vString("path", vRange("pathLen", 0, 2))
	for i := 1; i < len(path); i++ {
		vAssume(vAnd(path[i] != '?', vAnd(path[i] != '#', vAnd(path[i] != '%', path[i] > ' '))))
		vAssume(path[i] < 0x7f)
	}
	query := "a=" + vString("query", 1)
	vAssume(vAnd(query[2] > ' ', vAnd(query[2] < 0x7f, vAnd(query[2] != '#', query[2] != '&'))))
	body := io.NopCloser(strings.NewReader("payload"))
	in := &http.Request{Method: method, URL: &url.URL{Path: path, RawQuery: query}, Header: http.Header{}, Host: "front.example",
		RemoteAddr: "10.1.2.3:99", Body: body, ContentLength: 7}
	in.Header["Accept"] = []string{"a", "b"}
	in.Header["X-Custom"] = []string{vString("custom", 1)}
	in.Header["Cookie"] = []string{""}
	out := in.Clone(in.Context())
	h := newHandler([]HeaderInjector{&symInjector{name: "X-JA3-Fingerprint", outcome: 0, val: "fp"}})
	h.To = &url.URL{Scheme: "http", Host: "backend:8080"}
	h.PreserveHost = vBool("preserveHost")
	h.rewriteFunc(&httputil.ProxyRequest{In: in, Out: out})
	vReach("rewritten")
	vAssert(out.Method == method, "method-unchanged")
	vAssert(out.Body == body && out.ContentLength == 7, "body-unchanged")
	vAssert(out.URL.Scheme == "http" && out.URL.Host == "backend:8080", "url-points-at-backend")
	vAssert(out.URL.Path == path && out.URL.RawQuery == query, "path-and-query-unchanged")
	if h.PreserveHost {
		vAssert(out.Host == "front.example", "host-preserved")
	} else {
		vAssert(out.Host == "", "host-is-backend")
	}
	vAssert(len(out.Header["Accept"]) == 2 && out.Header["Accept"][0] == "a" && out.Header["Accept"][1] == "b", "repeated-header-unchanged")
	vAssert(len(out.Header["X-Custom"]) == 1 && out.Header["X-Custom"][0] == in.Header["X-Custom"][0], "custom-header-unchanged")
	vAssert(len(out.Header["Cookie"]) == 1 && out.Header["Cookie"][0] == "", "empty-header-unchanged")
	for k := range out.Header {
		known := k == "Accept" || k == "X-Custom" || k == "Cookie" || k == "X-Forwarded-For" || k == "X-Forwarded-Host" || k == "X-Forwarded-Proto" || k == "X-Ja3-Fingerprint"
		vAssert(known, "no-unexpected-header-added")
	}
	vAssert(in.Method == method && in.URL.Path == path && in.Host == "front.example", "inbound-request-not-modified")
}
