//go:build verif

package reverseproxy

// C09 (part 1) — X-Forwarded-For / -Host / -Proto as produced by the real rewriteFunc
// (SetXForwarded is executed from its stdlib SSA).

import (
	"crypto/tls"
	"net/http"
	"net/http/httputil"
	"net/url"
	"strings"
)

func c09XFF(L int) {
	n := vRange("iplen", 1, L)
	ip := vString("ip", n)
	for i := 0; i < n; i++ {
		c := ip[i]
		vAssume(vAnd(vAnd(c != ':', c != '['), vAnd(c != ']', c != 0)))
	}
	remote := ip + ":4711"
	if vBool("ipv6") {
		remote = "[" + ip + "]:4711"
	}
	in := &http.Request{Method: "GET", URL: &url.URL{Path: "/"}, Header: http.Header{}, RemoteAddr: remote}
	in.Host = "h" + vString("host", 1)
	nx := vRange("nxff", 0, 2)
	var prior []string
	for i := 0; i < nx; i++ {
		v := "c" + vString(vName("xff", i), 1)
		prior = append(prior, v)
		in.Header["X-Forwarded-For"] = append(in.Header["X-Forwarded-For"], v)
	}
	hasTLS := vBool("tls")
	if hasTLS {
		in.TLS = &tls.ConnectionState{}
	}
	// what ReverseProxy passes to Rewrite: a clone without Forwarded / X-Forwarded-* headers
	if vBool("clientForwardedHeaders") {
		in.Header["Forwarded"] = []string{"for=evil"}
		in.Header["X-Forwarded-Host"] = []string{"evil.example"}
		in.Header["X-Forwarded-Proto"] = []string{"gopher"}
	}
	out := in.Clone(in.Context())
	out.Header.Del("Forwarded")
	out.Header.Del("X-Forwarded-For")
	out.Header.Del("X-Forwarded-Host")
	out.Header.Del("X-Forwarded-Proto")
	h := newHandler(nil)
	h.PreserveHost = vBool("preserveHost")
	h.rewriteFunc(&httputil.ProxyRequest{In: in, Out: out})

	vReach("xff")
	want := strings.Join(append(prior, ip), ", ")
	got := out.Header["X-Forwarded-For"]
	ok := len(got) == 1
	if ok {
		ok = got[0] == want
	}
	vAssert(ok, "xff-appends-peer-ip-last")
	gh := out.Header["X-Forwarded-Host"]
	ok = len(gh) == 1
	if ok {
		ok = gh[0] == in.Host
	}
	vAssert(ok, "xfh-is-client-host")
	gp := out.Header["X-Forwarded-Proto"]
	wantProto := "http"
	if hasTLS {
		wantProto = "https"
	}
	vAssert(len(gp) == 1 && gp[0] == wantProto, "xfp-follows-request-tls")
	vAssert(len(out.Header["Forwarded"]) == 0, "client-forwarded-dropped")
	if h.PreserveHost {
		vAssert(out.Host == in.Host, "host-preserved")
	} else {
		vAssert(out.Host == "", "host-is-backend")
	}
	vAssert(out.URL.Host == "backend:80" && out.URL.Scheme == "http" && out.URL.Path == "/", "url-rewritten-to-backend")
}

func VerifC09_xff_quick()    { c09XFF(3) }
func VerifC09_xff_thorough() { c09XFF(6) }
