//go:build verif

package reverseproxy

import (
	"errors"
	"net/http"
	"net/http/httputil"
	"net/url"
)

// recorder shared by the harnesses of this package
var rp struct {
	forwarded      int
	wTouchedAtFwd  bool
	fwdSameRequest bool
	w              *recWriter
	req            *http.Request
}

type recWriter struct {
	hdr     http.Header
	status  int
	body    []byte
	touched bool
}

func (w *recWriter) Header() http.Header {
	if w.hdr == nil {
		w.hdr = http.Header{}
	}
	return w.hdr
}
func (w *recWriter) WriteHeader(code int) { w.touched = true; w.status = code }
func (w *recWriter) Write(b []byte) (int, error) {
	w.touched = true
	if w.status == 0 {
		w.status = 200
	}
	w.body = append(w.body, b...)
	return len(b), nil
}

var errNoBackend = errors.New("harness: no backend")

// Natively the real ReverseProxy runs and reaches this transport; in the engine
// (*ReverseProxy).ServeHTTP itself is replaced by the stub below. Both record the same facts.
type recTransport struct{}

func (recTransport) RoundTrip(r *http.Request) (*http.Response, error) {
	rp.forwarded++
	rp.wTouchedAtFwd = rp.w.touched
	return nil, errNoBackend
}

//verif:replace (*net/http/httputil.ReverseProxy).ServeHTTP
func stubReverseProxyServeHTTP(p *httputil.ReverseProxy, w http.ResponseWriter, r *http.Request) {
	rp.forwarded++
	rp.wTouchedAtFwd = rp.w.touched
	rp.fwdSameRequest = r == rp.req && w == http.ResponseWriter(rp.w)
}

func newHandler(injectors []HeaderInjector) *HTTPHandler {
	to := &url.URL{Scheme: "http", Host: "backend:80"}
	rp.forwarded, rp.wTouchedAtFwd, rp.fwdSameRequest = 0, false, true
	return NewHTTPHandler(to, &httputil.ReverseProxy{Transport: recTransport{}, ErrorHandler: func(http.ResponseWriter, *http.Request, error) {}}, injectors)
}
