//go:build verif

package reverseproxy

// C15 — probe requests are answered locally; everything else is forwarded.

import (
	"net/http"
	"net/url"
)

func c15Probe(B int) {
	h := newHandler(nil)
	enabled := vBool("probeEnabled")
	if enabled {
		h.IsProbeRequest = IsKubernetesProbeRequest
	}
	req := &http.Request{Method: "GET", URL: &url.URL{Path: "/"}, Header: http.Header{}, Host: "example", RemoteAddr: "1.2.3.4:5"}
	var ua string
	lines := vRange("uaLines", 0, 2)
	if lines >= 1 {
		ua = vString("ua", vRange("uaLen", 0, B))
		req.Header["User-Agent"] = []string{ua}
	}
	if lines == 2 {
		req.Header["User-Agent"] = append(req.Header["User-Agent"], "kube-probe/1.27")
	}
	if vBool("decoy") {
		req.Header["X-Other"] = []string{"kube-probe/1.27"}
		req.Header["Referer"] = []string{"kube-probe/"}
	}
	w := &recWriter{}
	rp.w, rp.req = w, req
	h.ServeHTTP(w, req)

	const prefix = "kube-probe/"
	isProbe := false
	if enabled && lines >= 1 && len(ua) >= len(prefix) {
		isProbe = ua[:len(prefix)] == prefix
	}
	if isProbe {
		vReach("probe-answered-locally")
		vAssert(rp.forwarded == 0, "probe-not-forwarded")
		vAssert(w.status == 200 && string(w.body) == "OK", "probe-200-OK")
	} else {
		vReach("forwarded")
		vAssert(rp.forwarded == 1, "non-probe-forwarded-once")
		vAssert(!rp.wTouchedAtFwd, "non-probe-not-answered-locally")
		vAssert(rp.fwdSameRequest, "forwarded-same-request")
	}
}

func VerifC15_probe_quick()    { c15Probe(13) }
func VerifC15_probe_thorough() { c15Probe(24) }
