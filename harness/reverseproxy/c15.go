//go:build verif

package reverseproxy

// C15 — probe requests are answered locally; everything else is forwarded.

import (
	"net/http"
	"net/url"
)

func c15Probe(B int, caseVariants bool) {
	h := newHandler(nil)
	enabled := vBool("probeEnabled")
	if enabled {
		h.IsProbeRequest = IsKubernetesProbeRequest
	}
	method := []string{"GET", "HEAD", "POST"}[vRange("method", 0, 2)]
	req := &http.Request{Method: method, URL: &url.URL{Path: "/"}, Header: http.Header{}, Host: "example", RemoteAddr: "1.2.3.4:5"}
	var ua string
	lines := vRange("uaLines", 0, 2)
	if lines >= 1 {
		if caseVariants {
			// every upper/lower-case spelling of the probe prefix, then one free ASCII byte
			const pfx = "kube-probe/"
			b := make([]byte, 0, len(pfx)+1)
			for i := 0; i < len(pfx); i++ {
				c := pfx[i]
				if c >= 'a' && c <= 'z' {
					c = vIteU8(vBool(vName("upper", i)), c-32, c)
				}
				b = append(b, c)
			}
			last := vU8("suffix")
			vAssume(last < 0x80)
			b = append(b, last)
			ua = string(b)
		} else {
			ua = vString("ua", vRange("uaLen", 0, B))
		}
		req.Header["User-Agent"] = []string{ua}
	}
	if lines == 2 {
		req.Header["User-Agent"] = append(req.Header["User-Agent"], "kube-probe/1.27")
	}
	if vBool("decoy") {
		req.Header["X-Other"] = []string{"kube-probe/1.27"}
		req.Header["Referer"] = []string{"kube-probe/"}
	}
	w := &recWriter{}
	rp.w, rp.req = w, req
	h.ServeHTTP(w, req)

	const prefix = "kube-probe/"
	isProbe := false
	if enabled && lines >= 1 && len(ua) >= len(prefix) {
		isProbe = ua[:len(prefix)] == prefix
	}
	if isProbe {
		vReach("probe-answered-locally")
		vAssert(rp.forwarded == 0, "probe-not-forwarded")
		vAssert(w.status == 200 && string(w.body) == "OK", "probe-200-OK")
	} else {
		vReach("forwarded")
		vAssert(rp.forwarded == 1, "non-probe-forwarded-once")
		vAssert(!rp.wTouchedAtFwd, "non-probe-not-answered-locally")
		vAssert(rp.fwdSameRequest, "forwarded-same-request")
	}
}

func VerifC15_probe_quick()    { c15Probe(13, false) }
func VerifC15_probe_thorough() { c15Probe(24, false) }

// Same obligation over all case variants of the probe prefix (2^10 spellings, symbolic).
func VerifC15_probe_casevariants() { c15Probe(12, true) }
