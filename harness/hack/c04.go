//go:build verif

package hack

// C04 — ClientHello capture is exact, transparent and segmentation-independent.
//
// Encoded (real code): every function of hajack_clienthello_conn.go, bytes.Buffer.
// Environment: the net.Conn below is vConn, which delivers the symbolic stream S in reads of
// symbolic sizes (each 1..min(len(b), remaining)) and may interleave error reads (0, err).
// Assumption (net.Conn contract of the TCP conns the proxy wraps): a read returns either
// (n>0, nil) or (0, err); (n>0, err!=nil) is outside the claim.

import (
	"errors"
	"net"
	"time"
)

type vConn struct {
	s     []byte
	pos   int
	nread int
	lastN int
	lastE error
	next  int // size of the next successful read chosen by the harness; 0 = error read
}

var errVConn = errors.New("vconn: injected read error")

func (c *vConn) Read(b []byte) (int, error) {
	c.nread++
	m := c.next
	if m > len(b) {
		m = len(b)
	}
	if m <= 0 {
		c.lastN, c.lastE = 0, errVConn
		return 0, errVConn
	}
	copy(b, c.s[c.pos:c.pos+m])
	c.pos += m
	c.lastN, c.lastE = m, nil
	return m, nil
}
func (c *vConn) Write(b []byte) (int, error)        { return len(b), nil }
func (c *vConn) Close() error                       { return nil }
func (c *vConn) LocalAddr() net.Addr                { return nil }
func (c *vConn) RemoteAddr() net.Addr               { return nil }
func (c *vConn) SetDeadline(t time.Time) error      { return nil }
func (c *vConn) SetReadDeadline(t time.Time) error  { return nil }
func (c *vConn) SetWriteDeadline(t time.Time) error { return nil }

func c04Run(B, K int, verbose bool) {
	n := vRange("n", 0, B)
	S := vBytes("S", n)
	under := &vConn{s: S}
	c := NewHijackClientHelloConn(under)
	if verbose {
		c.VerboseLogFunc = func(string, ...any) {}
	}
	k := vRange("reads", 0, K)
	for r := 0; r < k; r++ {
		rem := n - under.pos
		// each read: an error read (0), or a data read of 1..rem bytes into a buffer that is
		// either exactly that large or larger than anything the conn can deliver
		m := vRange(vName("m", r), 0, rem)
		under.next = m
		bl := B + 1
		if m > 0 && vBool(vName("tight", r)) {
			bl = m
		}
		b := make([]byte, bl)
		before := under.pos
		got, err := c.Read(b)
		// transparency: the caller sees exactly what the conn below returned
		vAssert(got == under.lastN, "transparent-n")
		vAssert((err == nil) == (under.lastE == nil), "transparent-err")
		if err == nil {
			vAssert(got == m, "transparent-n")
			vAssert(string(b[:got]) == string(S[before:before+got]), "transparent-bytes")
		}
	}
	delivered := under.pos
	rec, err := c.GetClientHello()
	var decl int
	hdrOK := false
	if delivered >= 5 {
		decl = int(S[3])<<8 | int(S[4])
		vers := int(S[1])<<8 | int(S[2])
		hdrOK = vAnd(S[0] == 0x16, vAnd(vers >= 0x0300, vers <= 0x0304))
	}
	if err == nil {
		vReach("capture-complete")
		L := len(rec)
		if delivered < 5 || L > delivered {
			vFail("exact-overlong")
		} else {
			vAssert(hdrOK, "exact-header")
			vAssert(L == 5+decl, "exact-length")
			vAssert(string(rec) == string(S[:L]), "exact-bytes")
		}
		rec2, err2 := c.GetClientHello()
		vAssert(err2 == nil && len(rec2) == L, "stable")
	} else {
		vReach("capture-none")
		vAssert(rec == nil, "nopartial")
		if delivered >= 5 {
			// completeness: a valid header and enough bytes must yield a capture
			vAssert(vNot(vAnd(hdrOK, 5+decl <= delivered)), "complete")
		}
	}
}

func VerifC04_stream_quick()    { c04Run(10, 3, false) }
func VerifC04_stream_thorough() { c04Run(12, 4, true) }

func VerifC04_tiny() { c04Run(5, 2, false) }

// C10 (B) — the capture conn never panics, whatever the client sends and however it is cut.
func VerifC10_capture_nopanic() {
	n := vRange("n", 0, 8)
	S := vBytes("S", n)
	under := &vConn{s: S}
	c := NewHijackClientHelloConn(under)
	k := vRange("reads", 0, 3)
	p := vCatch(func() {
		for r := 0; r < k; r++ {
			under.next = vRange(vName("m", r), 0, n-under.pos)
			c.Read(make([]byte, 9))
		}
		c.GetClientHello()
	})
	vReach("capture-ran")
	vAssert(!p, "capture-no-panic")
}

// C06 — two capture conns never share a buffer: each returns the bytes of its own stream, also
// when both are read alternately.
func VerifC06_capture_disjoint() {
	sa := []byte{0x16, 3, 1, 0, 1, vU8("a")}
	sb := []byte{0x16, 3, 1, 0, 1, vU8("b")}
	ua, ub := &vConn{s: sa}, &vConn{s: sb}
	ca, cb := NewHijackClientHelloConn(ua), NewHijackClientHelloConn(ub)
	buf := make([]byte, 8) // the caller reuses one read buffer for both connections
	ua.next, ub.next = 3, 6
	ca.Read(buf)
	cb.Read(buf)
	ua.next = 3
	ca.Read(buf)
	ra, ea := ca.GetClientHello()
	rb, eb := cb.GetClientHello()
	vReach("two-captures")
	vAssert(ea == nil && eb == nil, "both-captured")
	vAssert(string(ra) == string(sa) && string(rb) == string(sb), "each-capture-is-its-own-stream")
	vAssert(!vSameSlice(ra, rb), "capture-buffers-disjoint")
	buf[0] = 0xff
	vAssert(ra[0] == 0x16 && rb[0] == 0x16, "capture-does-not-alias-the-callers-buffer")
}

// C06 — a connection's captured record stays its own after the capture conn is done and a LATER
// connection (which may be handed recycled buffers) reads its own stream.
func VerifC06_capture_later_connection() {
	sa := []byte{0x16, 3, 1, 0, 1, vU8("a")}
	sb := []byte{0x16, 3, 2, 0, 2, vU8("b"), vU8("b2")}
	ua := &vConn{s: sa}
	ca := NewHijackClientHelloConn(ua)
	ua.next = 6
	ca.Read(make([]byte, 16))
	ra, ea := ca.GetClientHello() // connection A is established and keeps its record (keep-alive, h2)
	ub := &vConn{s: sb}
	cb := NewHijackClientHelloConn(ub)
	ub.next = 7
	cb.Read(make([]byte, 16))
	rb, eb := cb.GetClientHello()
	vReach("later-connection")
	vAssert(ea == nil && eb == nil, "both-captured")
	vAssert(string(rb) == string(sb), "each-capture-is-its-own-stream")
	vAssert(string(ra) == string(sa), "earlier-record-not-overwritten-by-later-connection")
	vAssert(!vSameSlice(ra, rb), "capture-buffers-disjoint")
}
