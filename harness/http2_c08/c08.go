//go:build verif

package http2

// C08 (reduced scope) — the repository-owned transformations on the body path are byte-exact:
// dataBuffer (chunked FIFO), pipe (body hand-off to the handler), so that what a client sends as
// DATA is what the handler reads, in order, once. (DATA framing is C19, the split of response
// DATA into pieces is C12/C20, rewriteFunc's part is in package reverseproxy.)

import (
	"errors"
	"io"
)

var c08Sizes = []int{0, 1, 2, 1023, 1024, 1025}

func c08Payload(tag, n int) []byte {
	p := make([]byte, n)
	for i := range p {
		p[i] = byte((tag*31 + i*7) % 251)
	}
	// symbolic bytes where off-by-one errors bite: both ends of the slice
	if n > 0 {
		p[0] = vU8(vName("first", tag))
		p[n-1] = vU8(vName("last", tag))
	}
	return p
}

func c08DataBuffer(K int) {
	b := &dataBuffer{expected: []int64{0, 3, 1500}[vRange("expected", 0, 2)]}
	var written, read []byte
	for i := 0; i < K; i++ {
		if vBool(vName("isWrite", i)) {
			p := c08Payload(i, c08Sizes[vRange(vName("writeSize", i), 0, len(c08Sizes)-1)])
			n, err := b.Write(p)
			vAssert(n == len(p) && err == nil, "write-accepts-everything")
			written = append(written, p...)
		} else {
			m := c08Sizes[vRange(vName("readSize", i), 1, len(c08Sizes)-1)]
			buf := make([]byte, m)
			avail := len(written) - len(read)
			var n int
			var err error
			if vCatch(func() { n, err = b.Read(buf) }) {
				vFail("databuffer-no-panic")
				return
			}
			if avail == 0 {
				vAssert(n == 0 && err == errReadEmpty, "read-from-empty")
			} else {
				want := m
				if avail < want {
					want = avail
				}
				vAssert(n == want && err == nil, "read-returns-what-is-buffered")
				read = append(read, buf[:n]...)
			}
		}
		vAssert(b.Len() == len(written)-len(read), "len-is-written-minus-read")
	}
	vReach("fifo-history-done")
	vAssert(string(read) == string(written[:len(read)]), "bytes-read-are-the-bytes-written-in-order")
	// drain: the rest comes out too
	rest := make([]byte, len(written)-len(read)+1)
	n, _ := b.Read(rest)
	vAssert(string(rest[:n]) == string(written[len(read):]), "nothing-lost-nothing-duplicated")
}

func VerifC08_databuffer_quick()    { c08DataBuffer(3) }
func VerifC08_databuffer_thorough() { c08DataBuffer(4) }

var errC08 = errors.New("c08: stream closed by peer")

// pipe: Write then Read returns the same bytes; after CloseWithError buffered bytes are still
// delivered before the error; after BreakWithError none are and Len reports them.
func VerifC08_pipe() {
	p := &pipe{b: &dataBuffer{}}
	a := c08Payload(1, vRange("aLen", 1, 3))
	bb := c08Payload(2, vRange("bLen", 0, 2))
	p.Write(a)
	p.Write(bb)
	all := append(append([]byte{}, a...), bb...)
	mode := vRange("end", 0, 2) // 0 open, 1 closed with error (END_STREAM / reset after data), 2 broken by the handler
	switch mode {
	case 1:
		p.CloseWithError(io.EOF)
	case 2:
		p.BreakWithError(errC08)
	}
	buf := make([]byte, vRange("readLen", 1, 6))
	n, err := p.Read(buf)
	vReach("pipe-read")
	if mode == 2 {
		vAssert(n == 0 && err == errC08, "broken-pipe-delivers-nothing")
		vAssert(p.Len() == len(all), "broken-pipe-reports-unread-bytes")
		_, werr := p.Write([]byte{1})
		vAssert(werr == errClosedPipeWrite, "write-after-break-refused")
		return
	}
	want := len(buf)
	if len(all) < want {
		want = len(all)
	}
	vAssert(n == want && err == nil && string(buf[:n]) == string(all[:n]), "pipe-delivers-written-bytes-in-order")
	rest := make([]byte, 8)
	n2, err2 := p.Read(rest)
	if n < len(all) {
		vAssert(err2 == nil && string(rest[:n2]) == string(all[n:]), "pipe-delivers-the-rest")
		if mode == 1 {
			_, err3 := p.Read(rest)
			vAssert(err3 == io.EOF, "error-only-after-all-data")
		}
	} else if mode == 1 {
		vAssert(n2 == 0 && err2 == io.EOF, "error-only-after-all-data")
	}
}
