//go:build verif

package http2

// C08 — the response the handler (the reverse proxy copying the backend's answer) produces
// reaches the frame writer unchanged: status, every header incl. Content-Length (also on 304,
// where it is legitimate), the body bytes once and in order, END_STREAM exactly at the end.

import (
	"net/http"
)

var c08r struct {
	headers []*writeResHeaders
	data    [][]byte
	dataEnd []bool
}

//verif:replace (*serverConn).writeHeaders
func c08writeHeaders(sc *serverConn, st *stream, hd *writeResHeaders) error {
	c08r.headers = append(c08r.headers, hd)
	return nil
}

//verif:replace (*serverConn).writeDataFromHandler
func c08writeDataFromHandler(sc *serverConn, st *stream, data []byte, endStream bool) error {
	c08r.data = append(c08r.data, append([]byte{}, data...))
	c08r.dataEnd = append(c08r.dataEnd, endStream)
	return nil
}

func VerifC08_response_passthrough() {
	DebugGoroutines = false
	c08r.headers, c08r.data, c08r.dataEnd = nil, nil, nil
	sc := &serverConn{srv: &Server{}, hs: &http.Server{}}
	st := &stream{sc: sc, id: 1, state: stateHalfClosedRemote}
	method := []string{"GET", "HEAD"}[vRange("method", 0, 1)]
	rws := &responseWriterState{stream: st, conn: sc, req: &http.Request{Method: method}}
	status := []int{200, 204, 304, 404, 500}[vRange("status", 0, 4)]
	body := vBytes("body", vRange("bodyLen", 0, 2))
	rws.handlerHeader = http.Header{"Date": {"Thu, 01 Jan 1970 00:00:00 GMT"}, "X-Backend": {"a", "b"}, "Content-Type": {"text/plain"}}
	declared := vBool("contentLengthDeclared")
	if declared {
		rws.handlerHeader["Content-Length"] = []string{[]string{"0", "1", "2"}[len(body)]}
		if status == 304 {
			rws.handlerHeader["Content-Length"] = []string{"1234"} // length of the representation the 304 refers to
		}
	}
	rws.writeHeader(status)
	if len(body) > 0 {
		if _, err := rws.writeChunk(body); err != nil {
			vFail("response-write-no-error")
			return
		}
	}
	rws.handlerDone = true
	if _, err := rws.writeChunk(nil); err != nil {
		vFail("response-write-no-error")
		return
	}
	vReach("response-written")
	if len(c08r.headers) != 1 {
		vFail("exactly-one-header-block")
		return
	}
	h := c08r.headers[0]
	vAssert(h.httpResCode == status && h.streamID == 1, "status-unchanged")
	xb := h.h["X-Backend"]
	vAssert(len(xb) == 2 && xb[0] == "a" && xb[1] == "b", "end-to-end-header-unchanged")
	if declared {
		vReach("content-length-declared")
		want := rws.handlerHeader["Content-Length"][0]
		got := h.contentLength
		if got == "" && len(h.h["Content-Length"]) == 1 {
			got = h.h["Content-Length"][0]
		}
		vAssert(got == want, "content-length-reaches-the-client")
	}
	// body: what was written, once, in order; nothing for HEAD
	var sent []byte
	for _, d := range c08r.data {
		sent = append(sent, d...)
	}
	if method == "HEAD" {
		vAssert(len(sent) == 0 && h.endStream, "head-response-has-no-body")
	} else {
		vAssert(string(sent) == string(body), "body-bytes-unchanged")
		ended := h.endStream
		for _, e := range c08r.dataEnd {
			ended = ended || e
		}
		vAssert(ended, "response-ends-the-stream")
		for i, e := range c08r.dataEnd {
			if e {
				vAssert(i == len(c08r.dataEnd)-1, "end-stream-only-on-the-last-frame")
			}
		}
	}
}
