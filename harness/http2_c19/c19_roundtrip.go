//go:build verif

package http2

// C19 (round trips) — every frame the framer writes is read back as the same frame: type,
// flags, stream id (reserved bit cleared), every field, payload and padding; Write* refuses
// exactly the documented illegal parameters.

import (
	"bytes"
)

var c19PadChoices = []uint8{0, 1, 2, 255}

func c19RoundTrip(B int) {
	var buf bytes.Buffer
	fr := NewFramer(&buf, &buf)
	fr.logReads, fr.logWrites = false, false
	sid := vU32("streamID")
	validSID := vAnd(sid != 0, sid&(1<<31) == 0)
	kind := vRange("kind", 0, 10)
	var werr error
	var check func(f Frame)
	wantType := FrameType(0)
	wantFlags := Flags(0)
	wantSID := sid
	mustFail := false // Write* must refuse (symbolic)
	switch kind {
	case 0: // DATA, optionally padded
		wantType = FrameData
		data := vBytes("data", vRange("datalen", 0, B))
		end := vBool("endStream")
		padded := vBool("padded")
		var pad []byte
		if padded {
			pad = make([]byte, int(c19PadChoices[vRange("padix", 0, 3)]))
			werr = fr.WriteDataPadded(sid, end, data, pad)
			wantFlags |= FlagDataPadded
		} else {
			werr = fr.WriteData(sid, end, data)
		}
		if end {
			wantFlags |= FlagDataEndStream
		}
		mustFail = vNot(validSID)
		check = func(f Frame) {
			df, ok := f.(*DataFrame)
			vAssert(ok && string(df.Data()) == string(data), "data-payload")
			vAssert(ok && df.StreamEnded() == end, "data-endstream")
			extra := 0
			if padded {
				extra = 1 + len(pad)
			}
			vAssert(int(f.Header().Length) == len(data)+extra, "data-length-includes-padding")
		}
	case 1: // HEADERS
		wantType = FrameHeaders
		frag := vBytes("frag", vRange("fraglen", 0, B))
		p := HeadersFrameParam{StreamID: sid, BlockFragment: frag, EndStream: vBool("endStream"), EndHeaders: vBool("endHeaders"),
			PadLength: c19PadChoices[vRange("padix", 0, 3)],
			Priority:  PriorityParam{StreamDep: vU32("dep"), Exclusive: vBool("excl"), Weight: vU8("weight")}}
		werr = fr.WriteHeaders(p)
		hasPrio := vNot(vAnd(vAnd(p.Priority.StreamDep == 0, !p.Priority.Exclusive), p.Priority.Weight == 0))
		mustFail = vOr(vNot(validSID), vAnd(hasPrio, p.Priority.StreamDep&(1<<31) != 0))
		check = func(f Frame) {
			hf, ok := f.(*HeadersFrame)
			if !ok {
				vFail("headers-type")
				return
			}
			vAssert(string(hf.HeaderBlockFragment()) == string(frag), "headers-fragment")
			vAssert(hf.StreamEnded() == p.EndStream && hf.HeadersEnded() == p.EndHeaders, "headers-end-flags")
			vAssert(hf.HasPriority() == hasPrio, "headers-priority-flag")
			vAssert(vImplies(hasPrio, vAnd(vAnd(hf.Priority.StreamDep == p.Priority.StreamDep, hf.Priority.Exclusive == p.Priority.Exclusive), hf.Priority.Weight == p.Priority.Weight)), "headers-priority-fields")
			vAssert(hf.Flags.Has(FlagHeadersPadded) == (p.PadLength != 0), "headers-padded-flag")
		}
		wantFlags = 0xff // checked field-wise above
	case 2: // PRIORITY
		wantType = FramePriority
		pp := PriorityParam{StreamDep: vU32("dep"), Exclusive: vBool("excl"), Weight: vU8("weight")}
		werr = fr.WritePriority(sid, pp)
		mustFail = vOr(vNot(validSID), pp.StreamDep&(1<<31) != 0)
		check = func(f Frame) {
			pf, ok := f.(*PriorityFrame)
			vAssert(ok && vAnd(vAnd(pf.StreamDep == pp.StreamDep, pf.Exclusive == pp.Exclusive), pf.Weight == pp.Weight), "priority-fields")
		}
	case 3: // RST_STREAM
		wantType = FrameRSTStream
		code := ErrCode(vU32("code"))
		werr = fr.WriteRSTStream(sid, code)
		mustFail = vNot(validSID)
		check = func(f Frame) {
			rf, ok := f.(*RSTStreamFrame)
			vAssert(ok && rf.ErrCode == code, "rst-code")
		}
	case 4: // SETTINGS / ACK
		wantType = FrameSettings
		wantSID = 0
		if vBool("ack") {
			werr = fr.WriteSettingsAck()
			wantFlags = FlagSettingsAck
			check = func(f Frame) {
				sf, ok := f.(*SettingsFrame)
				vAssert(ok && sf.IsAck() && sf.NumSettings() == 0, "settings-ack")
			}
		} else {
			n := vRange("nsettings", 0, 3)
			var ss []Setting
			for i := 0; i < n; i++ {
				ss = append(ss, Setting{ID: SettingID(vU16(vName("sid", i))), Val: vU32(vName("sval", i))})
			}
			// the reader refuses SETTINGS_INITIAL_WINDOW_SIZE above 2^31-1 (legal to write, illegal to receive)
			for _, s := range ss {
				vAssume(vNot(vAnd(s.ID == SettingInitialWindowSize, s.Val > 1<<31-1)))
			}
			werr = fr.WriteSettings(ss...)
			check = func(f Frame) {
				sf, ok := f.(*SettingsFrame)
				if !ok || sf.NumSettings() != n {
					vFail("settings-count")
					return
				}
				for i := 0; i < n; i++ {
					g := sf.Setting(i)
					vAssert(vAnd(g.ID == ss[i].ID, g.Val == ss[i].Val), "settings-pairs-in-order")
				}
			}
		}
	case 5: // PUSH_PROMISE
		wantType = FramePushPromise
		frag := vBytes("frag", vRange("fraglen", 0, B))
		p := PushPromiseParam{StreamID: sid, PromiseID: vU32("promise"), BlockFragment: frag, EndHeaders: vBool("endHeaders"), PadLength: c19PadChoices[vRange("padix", 0, 3)]}
		werr = fr.WritePushPromise(p)
		mustFail = vOr(vNot(validSID), vNot(vAnd(p.PromiseID != 0, p.PromiseID&(1<<31) == 0)))
		check = func(f Frame) {
			pf, ok := f.(*PushPromiseFrame)
			vAssert(ok && pf.PromiseID == p.PromiseID && string(pf.HeaderBlockFragment()) == string(frag), "pushpromise-fields")
			vAssert(ok && pf.HeadersEnded() == p.EndHeaders, "pushpromise-end-headers")
		}
		wantFlags = 0xff
	case 6: // PING
		wantType = FramePing
		wantSID = 0
		var d [8]byte
		copy(d[:], vBytes("ping", 8))
		ack := vBool("ack")
		werr = fr.WritePing(ack, d)
		if ack {
			wantFlags = FlagPingAck
		}
		check = func(f Frame) {
			pf, ok := f.(*PingFrame)
			vAssert(ok && pf.Data == d && pf.IsAck() == ack, "ping-data")
		}
	case 7: // GOAWAY
		wantType = FrameGoAway
		wantSID = 0
		lastID, code := vU32("last"), ErrCode(vU32("code"))
		dbg := vBytes("debug", vRange("debuglen", 0, B))
		werr = fr.WriteGoAway(lastID, code, dbg)
		check = func(f Frame) {
			gf, ok := f.(*GoAwayFrame)
			vAssert(ok && gf.LastStreamID == lastID&0x7fffffff && gf.ErrCode == code && string(gf.DebugData()) == string(dbg), "goaway-fields")
		}
	case 8: // WINDOW_UPDATE
		wantType = FrameWindowUpdate
		incr := vU32("incr")
		werr = fr.WriteWindowUpdate(sid, incr)
		mustFail = vOr(incr == 0, incr > 1<<31-1)
		check = func(f Frame) {
			wf, ok := f.(*WindowUpdateFrame)
			vAssert(ok && wf.Increment == incr, "window-update-increment")
		}
	case 9: // HEADERS without END_HEADERS followed by CONTINUATION
		wantType = FrameContinuation
		vAssume(validSID)
		if fr.WriteHeaders(HeadersFrameParam{StreamID: sid, BlockFragment: []byte{0x82}}) != nil {
			vFail("write-accepts-legal")
			return
		}
		if _, err := fr.ReadFrame(); err != nil {
			vFail("read-accepts-written")
			return
		}
		frag := vBytes("frag", vRange("fraglen", 0, B))
		end := vBool("endHeaders")
		werr = fr.WriteContinuation(sid, end, frag)
		if end {
			wantFlags = FlagContinuationEndHeaders
		}
		check = func(f Frame) {
			cf, ok := f.(*ContinuationFrame)
			vAssert(ok && string(cf.HeaderBlockFragment()) == string(frag) && cf.HeadersEnded() == end, "continuation-fields")
		}
	case 10: // raw frame of an unknown type
		t := FrameType(vU8("rawtype"))
		vAssume(t > 9)
		wantType = t
		flags := Flags(vU8("rawflags"))
		wantFlags = flags
		payload := vBytes("raw", vRange("rawlen", 0, B))
		werr = fr.WriteRawFrame(t, flags, sid, payload)
		check = func(f Frame) {
			uf, ok := f.(*UnknownFrame)
			vAssert(ok && string(uf.Payload()) == string(payload), "unknown-payload")
		}
	}
	if werr != nil {
		vReach("write-refused")
		vAssert(mustFail, "write-refuses-only-illegal")
		vAssert(buf.Len() == 0, "refused-write-emits-nothing")
		return
	}
	vAssert(vNot(mustFail), "write-refuses-illegal")
	vReach("written")
	var f Frame
	var rerr error
	if vCatch(func() { f, rerr = fr.ReadFrame() }) {
		vFail("reader-no-panic")
		return
	}
	if rerr != nil || f == nil {
		vFail("read-accepts-written")
		return
	}
	vReach("read-back")
	h := f.Header()
	vAssert(h.Type == wantType, "roundtrip-type")
	vAssert(h.StreamID == wantSID&0x7fffffff, "roundtrip-stream-id")
	if wantFlags != 0xff {
		vAssert(h.Flags == wantFlags, "roundtrip-flags")
	}
	check(f)
	vAssert(buf.Len() == 0, "exactly-one-frame-written")
}

func VerifC19_roundtrip_quick()    { c19RoundTrip(3) }
func VerifC19_roundtrip_thorough() { c19RoundTrip(8) }
