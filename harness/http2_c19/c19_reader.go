//go:build verif

package http2

// C19 (reader) — ReadFrame on arbitrary bytes: no panic, no frame beyond the read limit, and
// malformed frames / illegal HEADERS-CONTINUATION interleavings are rejected with the error RFC
// 7540 assigns. Where the RFC prescribes a stream error, a connection error with the same code is
// accepted too (RFC 7540 section 5.4.2 lets an endpoint escalate).

import (
	"io"
)

type c19Reader struct {
	b   []byte
	pos int
}

func (r *c19Reader) Read(p []byte) (int, error) {
	if r.pos >= len(r.b) {
		return 0, io.EOF
	}
	n := copy(p, r.b[r.pos:])
	r.pos += n
	return n, nil
}

type c19Rule struct {
	cond   bool // symbolic: the defect is present
	code   ErrCode
	stream bool // RFC says stream error (connection error with the same code accepted too)
}

func c19Framer(raw []byte, mrs uint32, last uint32) *Framer {
	fr := NewFramer(nil, &c19Reader{b: raw})
	fr.logReads = false
	fr.SetMaxReadFrameSize(mrs)
	fr.lastHeaderStream = last
	if last != 0 {
		fr.lastFrame = &HeadersFrame{FrameHeader: FrameHeader{valid: true, Type: FrameHeaders, StreamID: last}}
	}
	return fr
}

// Every frame type, payload of exactly the declared length L, all bytes symbolic.
func c19ReaderTotal(B int) {
	L := vRange("payloadLen", 0, B)
	raw := vBytes("frame", 9+L)
	length := uint32(raw[0])<<16 | uint32(raw[1])<<8 | uint32(raw[2])
	vAssume(length == uint32(L))
	typ := FrameType(raw[3])
	vAssume(typ <= 10) // 0..9 are the RFC 7540 types, 10 stands for every unknown type
	flags := Flags(raw[4])
	sid := (uint32(raw[5])<<24 | uint32(raw[6])<<16 | uint32(raw[7])<<8 | uint32(raw[8])) & 0x7fffffff
	last := vU32("lastHeaderStream") & 0x7fffffff
	fr := c19Framer(raw, uint32(B)+1, last)

	var f Frame
	var err error
	if vCatch(func() { f, err = fr.ReadFrame() }) {
		vFail("reader-no-panic")
		return
	}
	p := raw[9:]
	pb := func(i int) uint8 { // payload byte or 0 beyond the end (only used under a length guard)
		if i < L {
			return p[i]
		}
		return 0
	}
	var rules []c19Rule
	add := func(cond bool, code ErrCode, stream bool) { rules = append(rules, c19Rule{cond, code, stream}) }
	short := false // too short for a mandatory field (known finding K2 when the stream id is valid)
	shortName := ""
	is := func(t FrameType) bool { return typ == t }
	padded := flags&0x8 != 0

	// DATA
	add(vAnd(is(FrameData), sid == 0), ErrCodeProtocol, false)
	if L == 0 {
		short = vOr(short, vAnd(is(FrameData), padded))
	} else {
		add(vAnd(vAnd(is(FrameData), padded), int(pb(0)) > L-1), ErrCodeProtocol, false)
	}
	// HEADERS
	add(vAnd(is(FrameHeaders), sid == 0), ErrCodeProtocol, false)
	hprio := flags&FlagHeadersPriority != 0
	{
		restNoPad, restPad := L, L-1
		// padded and empty / priority fields missing
		if L == 0 {
			short = vOr(short, vAnd(is(FrameHeaders), vOr(padded, hprio)))
		} else {
			short = vOr(short, vAnd(is(FrameHeaders), vAnd(hprio, vOr(vAnd(padded, restPad < 5), vAnd(vNot(padded), restNoPad < 5)))))
			// pad length larger than what remains for the fragment
			remPad := restPad
			remPadPrio := restPad - 5
			tooBig := vOr(vAnd(vNot(hprio), int(pb(0)) > remPad), vAnd(hprio, vAnd(remPadPrio >= 0, int(pb(0)) > remPadPrio)))
			add(vAnd(vAnd(is(FrameHeaders), padded), tooBig), ErrCodeProtocol, true)
		}
	}
	// PRIORITY
	add(vAnd(is(FramePriority), sid == 0), ErrCodeProtocol, false)
	add(vAnd(is(FramePriority), L != 5), ErrCodeFrameSize, true)
	// RST_STREAM
	add(vAnd(is(FrameRSTStream), L != 4), ErrCodeFrameSize, false)
	add(vAnd(is(FrameRSTStream), sid == 0), ErrCodeProtocol, false)
	// SETTINGS
	add(vAnd(is(FrameSettings), vAnd(flags&FlagSettingsAck != 0, L > 0)), ErrCodeFrameSize, false)
	add(vAnd(is(FrameSettings), sid != 0), ErrCodeProtocol, false)
	add(vAnd(is(FrameSettings), L%6 != 0), ErrCodeFrameSize, false)
	if L%6 == 0 {
		// the first SETTINGS_INITIAL_WINDOW_SIZE entry decides
		seen := false
		for i := 0; i+6 <= L; i += 6 {
			isIWS := vAnd(p[i] == 0, p[i+1] == uint8(SettingInitialWindowSize))
			add(vAnd(is(FrameSettings), vAnd(vAnd(isIWS, vNot(seen)), p[i+2]&0x80 != 0)), ErrCodeFlowControl, false)
			seen = vOr(seen, isIWS)
		}
	}
	// PUSH_PROMISE
	add(vAnd(is(FramePushPromise), sid == 0), ErrCodeProtocol, false)
	{
		if L == 0 {
			short = vOr(short, is(FramePushPromise))
		} else {
			short = vOr(short, vAnd(is(FramePushPromise), vOr(vAnd(padded, L-1 < 4), vAnd(vNot(padded), L < 4))))
			if L-1 >= 4 {
				add(vAnd(vAnd(is(FramePushPromise), padded), int(pb(0)) > L-1-4), ErrCodeProtocol, false)
			}
		}
	}
	// PING
	add(vAnd(is(FramePing), L != 8), ErrCodeFrameSize, false)
	add(vAnd(is(FramePing), sid != 0), ErrCodeProtocol, false)
	// GOAWAY
	add(vAnd(is(FrameGoAway), sid != 0), ErrCodeProtocol, false)
	add(vAnd(is(FrameGoAway), L < 8), ErrCodeFrameSize, false)
	// WINDOW_UPDATE
	add(vAnd(is(FrameWindowUpdate), L != 4), ErrCodeFrameSize, false)
	if L == 4 {
		zero := vAnd(vAnd(p[0]&0x7f == 0, p[1] == 0), vAnd(p[2] == 0, p[3] == 0))
		add(vAnd(is(FrameWindowUpdate), vAnd(zero, sid == 0)), ErrCodeProtocol, false)
		add(vAnd(is(FrameWindowUpdate), vAnd(zero, sid != 0)), ErrCodeProtocol, true)
	}
	// CONTINUATION and the header-block interleaving rule
	add(vAnd(is(FrameContinuation), sid == 0), ErrCodeProtocol, false)
	add(vAnd(is(FrameContinuation), last == 0), ErrCodeProtocol, false)
	add(vAnd(is(FrameContinuation), vAnd(last != 0, sid != last)), ErrCodeProtocol, false)
	add(vAnd(vNot(is(FrameContinuation)), last != 0), ErrCodeProtocol, false)

	// a frame too short for its mandatory fields: FRAME_SIZE_ERROR (RFC 7540 section 4.2), for the
	// stream or for the connection
	add(short, ErrCodeFrameSize, true)

	anyDefect := false
	for _, r := range rules {
		anyDefect = vOr(anyDefect, r.cond)
	}
	_ = shortName
	if err == nil {
		vReach("frame-returned")
		vAssert(f != nil, "frame-or-error")
		vAssert(vNot(anyDefect), "malformed-frame-rejected")
		if f != nil {
			h := f.Header()
			vAssert(vAnd(vAnd(h.Type == typ, h.Flags == flags), vAnd(h.StreamID == sid, h.Length == length)), "header-fields-preserved")
		}
		return
	}
	vReach("frame-rejected")
	vAssert(f == nil, "frame-or-error")
	ce, isCE := err.(ConnectionError)
	se, isSE := err.(StreamError)
	match := false
	for _, r := range rules {
		m := (isCE && ErrCode(ce) == r.code) || (isSE && r.stream && se.Code == r.code)
		if m {
			match = vOr(match, r.cond)
		}
	}
	if !isCE && !isSE {
		// neither a stream nor a connection error
		if err == io.ErrUnexpectedEOF {
			// what the reader answered before fix 9049507 (then known finding K2): a bare
			// io.ErrUnexpectedEOF for a frame that arrived completely
			switch typ {
			case FrameData:
				vFail("k2-short-frame-data")
			case FrameHeaders:
				vFail("k2-short-frame-headers")
			case FramePushPromise:
				vFail("k2-short-frame-pushpromise")
			default:
				vFail("k2-short-frame-other")
			}
			return
		}
		vFail("error-is-stream-or-connection-error")
		return
	}
	if short {
		vReach("short-mandatory-field")
	}
	vAssert(anyDefect, "legal-frame-accepted")
	vAssert(match, "rfc-error-code")
}

// Read limit and truncation: a declared length above the limit is refused before anything is
// read; a stream that ends inside the frame is an unexpected EOF, never a frame.
func c19ReaderLimits(B int) {
	P := vRange("available", 0, B)
	raw := vBytes("frame", 9+P)
	length := uint32(raw[0])<<16 | uint32(raw[1])<<8 | uint32(raw[2])
	vAssume(length <= uint32(B)+2)
	raw[3] = byte(FrameData) // DATA on stream 1, unpadded: well formed whenever complete
	raw[4] = 0
	raw[5], raw[6], raw[7], raw[8] = 0, 0, 0, 1
	mrs := vU32("maxReadSize")
	vAssume(mrs <= uint32(B)+3)
	fr := c19Framer(raw, mrs, 0)
	var f Frame
	var err error
	if vCatch(func() { f, err = fr.ReadFrame() }) {
		vFail("reader-no-panic")
		return
	}
	if length > mrs {
		vReach("frame-too-large")
		vAssert(f == nil && err == ErrFrameTooLarge, "over-limit-frame-rejected")
		return
	}
	if length > uint32(P) {
		vReach("truncated-stream")
		vAssert(f == nil && (err == io.ErrUnexpectedEOF || err == io.EOF), "truncated-stream-is-eof")
		return
	}
	vReach("complete-frame")
	vAssert(err == nil && f != nil, "legal-frame-accepted")
	if f != nil {
		vAssert(f.Header().Length <= mrs, "no-frame-beyond-read-limit")
		df, ok := f.(*DataFrame)
		vAssert(ok && string(df.Data()) == string(raw[9:9+int(vConcrete(int(length)))]), "data-payload-preserved")
	}
}

func VerifC19_reader_quick()    { c19ReaderTotal(8) }
func VerifC19_reader_thorough() { c19ReaderTotal(13) }
func VerifC19_limits_quick()    { c19ReaderLimits(4) }
func VerifC19_limits_thorough() { c19ReaderLimits(8) }

// C10 (B) — reading arbitrary client bytes never panics (the frame reader runs on a goroutine
// without recover: a panic there ends the process).
func VerifC10_frames_nopanic() {
	L := vRange("payloadLen", 0, 9)
	raw := vBytes("frame", 9+L)
	length := uint32(raw[0])<<16 | uint32(raw[1])<<8 | uint32(raw[2])
	vAssume(length == uint32(L))
	vAssume(raw[3] <= 10)
	fr := c19Framer(raw, 16, vU32("lastHeaderStream")&0x7fffffff)
	vReach("frame-read")
	vAssert(!vCatch(func() { fr.ReadFrame() }), "frame-reader-no-panic")
}
