//go:build verif

package http2

// C19 (header blocks) — a header block split over HEADERS + CONTINUATION frames at arbitrary
// cut points is reassembled: the decoded fields are those of the whole block, in order, once;
// END_STREAM and priority come from the HEADERS frame; a foreign frame inside the block is a
// connection error PROTOCOL_ERROR. The x/net HPACK decoder the framer is given runs from its
// real SSA (its own correctness is C18's subject for the in-tree copy).

import (
	"bytes"

	"golang.org/x/net/http2/hpack"
)

func c19Meta() {
	var buf bytes.Buffer
	fr := NewFramer(&buf, &buf)
	fr.logReads, fr.logWrites = false, false
	fr.ReadMetaHeaders = hpack.NewDecoder(4096, nil)
	v := vU8("authority-byte")
	vAssume(vAnd(v >= 'a', v <= 'z'))
	// :method GET, :scheme https, :path /, :authority <v>, accept-encoding gzip, deflate (static 16)
	block := []byte{0x82, 0x87, 0x84, 0x41, 0x01, v, 0x90}
	n := len(block)
	nconts := vRange("continuations", 0, 2)
	c1, c2 := n, n
	if nconts >= 1 {
		c1 = vRange("cut1", 0, n)
	}
	if nconts == 2 {
		c2 = vRange("cut2", c1, n)
	}
	sid := uint32(1 + 2*vRange("stream", 0, 1))
	end := vBool("endStream")
	prio := PriorityParam{}
	if vBool("priority") {
		prio = PriorityParam{StreamDep: 0, Exclusive: true, Weight: vU8("weight")}
	}
	if fr.WriteHeaders(HeadersFrameParam{StreamID: sid, BlockFragment: block[:c1], EndStream: end, EndHeaders: nconts == 0, Priority: prio}) != nil {
		vFail("write-accepts-legal")
		return
	}
	intruder := 0
	if nconts >= 1 {
		intruder = vRange("intruder", 0, 2) // 0 none, 1 PING between the frames, 2 CONTINUATION of another stream
		switch intruder {
		case 1:
			fr.WritePing(false, [8]byte{})
		case 2:
			fr.WriteContinuation(sid+2, false, []byte{0x82})
		}
		fr.WriteContinuation(sid, nconts == 1, block[c1:c2])
	}
	if nconts == 2 {
		fr.WriteContinuation(sid, true, block[c2:])
	}
	var f Frame
	var err error
	if vCatch(func() { f, err = fr.ReadFrame() }) {
		vFail("reader-no-panic")
		return
	}
	if intruder != 0 {
		vReach("interleaving-violation")
		ce, ok := err.(ConnectionError)
		vAssert(f == nil && ok && ErrCode(ce) == ErrCodeProtocol, "interleaving-is-connection-protocol-error")
		return
	}
	mh, ok := f.(*MetaHeadersFrame)
	if err != nil || !ok {
		vFail("block-reassembled")
		return
	}
	vReach("block-reassembled")
	want := []hpack.HeaderField{{Name: ":method", Value: "GET"}, {Name: ":scheme", Value: "https"}, {Name: ":path", Value: "/"},
		{Name: ":authority", Value: string([]byte{v})}, {Name: "accept-encoding", Value: "gzip, deflate"}}
	if len(mh.Fields) != len(want) {
		vFail("fields-count")
		return
	}
	for i := range want {
		vAssert(vAnd(mh.Fields[i].Name == want[i].Name, mh.Fields[i].Value == want[i].Value), "fields-in-order-once")
	}
	vAssert(mh.StreamID == sid && mh.StreamEnded() == end, "end-stream-from-headers-frame")
	vAssert(mh.HasPriority() == !prio.IsZero(), "priority-from-headers-frame")
	if !prio.IsZero() {
		vAssert(mh.Priority.Weight == prio.Weight && mh.Priority.Exclusive, "priority-fields")
	}
	vAssert(!mh.Truncated, "not-truncated")
	vAssert(buf.Len() == 0, "all-frames-consumed")
}

func VerifC19_meta() { c19Meta() }
