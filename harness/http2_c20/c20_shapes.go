//go:build verif

package http2

// C20 from constructed states, for what the exhaustive operation histories (4-6 operations) cannot
// reach: a stream queue that went back to the pool half drained and is handed to the next stream,
// and priority trees of four streams with symbolic weights on two levels.

// A stream is closed while frames are still queued on it (some already popped); the next stream to
// be opened gets the recycled queue: everything pushed on the new stream comes out, exactly once, in
// order, and nothing of the old stream does.
func c20Recycled(kind int) {
	var cfg *PriorityWriteSchedulerConfig
	if kind == 2 {
		cfg = &PriorityWriteSchedulerConfig{MaxClosedNodesInTree: 1, MaxIdleNodesInTree: 1, ThrottleOutOfOrderWrites: vBool("throttle")}
	}
	e := c20New(kind, cfg)
	vAssume(vAnd(e.sc.flow.n >= 8, e.sc.maxFrameSize >= 8))
	e.openNext() // stream 1
	vAssume(e.ref.streams[1].flow.n >= 8)
	n := vRange("queuedOnFirst", 1, 3)
	for i := 0; i < n; i++ {
		if vBool(vName("firstIsData", i)) {
			e.pushData(1, 2, false)
		} else {
			e.pushStreamFrame(1)
		}
	}
	k := vRange("poppedBeforeClose", 0, n)
	for i := 0; i < k; i++ {
		e.pop()
	}
	e.close(1)
	vReach("closed-with-frames-queued")
	e.openNext() // stream 3: takes the recycled queue
	m := vRange("queuedOnSecond", 1, 2)
	for i := 0; i < m; i++ {
		if vBool(vName("secondIsData", i)) {
			e.pushData(3, 2, i == m-1)
		} else {
			e.pushStreamFrame(3)
		}
	}
	e.drain()
	vAssert(len(e.popped) >= m, "frames-of-the-new-stream-delivered")
}

func VerifC20_recycled_queue_roundrobin() { c20Recycled(0) }
func VerifC20_recycled_queue_random()     { c20Recycled(1) }
func VerifC20_recycled_queue_priority()   { c20Recycled(2) }

// Priority trees of nStreams open streams: every parent assignment (stream k depends on 0 or on any
// earlier stream), every weight one of a few values (the sibling comparator works in float64, which
// the engine does not encode, so weights are concrete on every path), one re-prioritisation
// optionally exclusive; each stream has nothing queued, a frame ready, or (thorough) DATA blocked by
// a zero stream window. Pop until the
// scheduler gives up: every ready frame was delivered exactly once, the scheduler gives up only
// when nothing is sendable (checked by pop against the reference), blocked DATA stays queued and
// comes out once the windows open.
func c20PriorityShapes(nStreams int, thorough bool) {
	withExclusive := thorough
	weights := []uint8{10, 200}
	queueStates := 1
	// (a third queue state - DATA blocked by a zero window - on all four streams did not finish in 15
	// minutes on one core; the thorough tier varies it on the last stream only)
	lastBlocked := thorough
	cfg := &PriorityWriteSchedulerConfig{MaxClosedNodesInTree: 2, MaxIdleNodesInTree: 2, ThrottleOutOfOrderWrites: vBool("throttle")}
	e := c20New(2, cfg)
	vAssume(vAnd(e.sc.flow.n >= 8, e.sc.maxFrameSize >= 8))
	ids := []uint32{0}
	for i := 0; i < nStreams; i++ {
		e.openNext()
		id := e.nextID - 2
		dep := ids[vRange(vName("parent", i), 0, len(ids)-1)]
		excl := false
		if withExclusive && i == nStreams-1 {
			excl = vBool("lastExclusive")
		}
		pp := PriorityParam{StreamDep: dep, Exclusive: excl, Weight: weights[vRange(vName("weight", i), 0, len(weights)-1)]}
		if vCatch(func() { e.ws.AdjustStream(id, pp) }) {
			vFail("adjust-no-panic")
			return
		}
		ids = append(ids, id)
	}
	e.checkPriority()
	ready := 0
	for _, id := range ids[1:] {
		qs := queueStates
		if lastBlocked && id == ids[len(ids)-1] {
			qs = 2
		}
		switch vRange(vName("queued", int(id)), 0, qs) {
		case 0:
			vAssume(e.ref.streams[id].flow.n >= 8)
		case 1:
			vAssume(e.ref.streams[id].flow.n >= 8)
			e.pushStreamFrame(id)
			ready++
		case 2:
			vAssume(e.ref.streams[id].flow.n == 0)
			e.pushData(id, 2, false)
		}
	}
	vReach("tree-built")
	got := 0
	for i := 0; i < nStreams+1; i++ {
		if !e.pop() {
			break
		}
		got++
	}
	vAssert(got == ready, "every-ready-frame-delivered-before-giving-up")
	e.checkPriority()
	e.drain()
}

func VerifC20_priority_shapes_quick()    { c20PriorityShapes(4, false) }
func VerifC20_priority_shapes_thorough() { c20PriorityShapes(4, true) }
