//go:build verif

package http2

// Priority scheduler: the dependency structure stays a tree rooted at stream 0 under any
// sequence of Open / Close / Adjust (self-, circular and exclusive dependencies on open, idle
// and closed streams), for the default configuration and with closed/idle node retention off.

func (e *c20Env) checkPriority() {
	ws := e.ws.(*priorityWriteScheduler)
	vAssert(ws.nodes[0] == &ws.root && ws.root.parent == nil, "root-is-stream-0")
	n := len(ws.nodes)
	for id, node := range ws.nodes {
		vAssert(node.id == id, "node-id-matches-key")
		// following parent reaches the root in at most n steps
		x := node
		steps := 0
		for x != &ws.root && x != nil && steps <= n {
			x = x.parent
			steps++
		}
		vAssert(x == &ws.root, "every-node-reaches-the-root")
		// sibling list of the parent contains the node, links consistent
		if node != &ws.root {
			if node.parent == nil {
				vFail("every-node-reaches-the-root")
				continue
			}
			found := false
			var prev *priorityNode
			cnt := 0
			for k := node.parent.kids; k != nil && cnt <= n; k = k.next {
				vAssert(k.prev == prev && k.parent == node.parent, "sibling-links-consistent")
				if k == node {
					found = true
				}
				prev = k
				cnt++
			}
			vAssert(found, "node-is-among-its-parents-kids")
		}
		// kids all registered
		cnt := 0
		for k := node.kids; k != nil && cnt <= n; k = k.next {
			vAssert(ws.nodes[k.id] == k, "no-detached-subtree")
			cnt++
		}
	}
	for id := range e.ref.open {
		nd := ws.nodes[id]
		vAssert(nd != nil && nd.state == priorityNodeOpen, "open-streams-have-open-nodes")
	}
	vAssert(len(ws.closedNodes) <= ws.maxClosedNodesInTree && len(ws.idleNodes) <= ws.maxIdleNodesInTree, "retention-limits")
}

func c20PriorityTree(K int, retain bool, fullWeights bool) {
	var cfg *PriorityWriteSchedulerConfig
	if !retain {
		cfg = &PriorityWriteSchedulerConfig{MaxClosedNodesInTree: 0, MaxIdleNodesInTree: 0}
	} else {
		cfg = &PriorityWriteSchedulerConfig{MaxClosedNodesInTree: 1, MaxIdleNodesInTree: 1, ThrottleOutOfOrderWrites: vBool("throttle")}
	}
	e := c20New(2, cfg)
	maxID := uint32(0)
	for i := 0; i < K; i++ {
		switch vRange(vName("op", i), 0, 3) {
		case 0:
			if e.nextID > 5 {
				vAssume(false)
			}
			e.openNext()
		case 1:
			open := e.openIDs()
			if len(open) == 0 {
				vAssume(false)
			}
			e.close(open[vRange(vName("closeWhich", i), 0, len(open)-1)])
		case 2:
			// PRIORITY for any stream id (open, closed, idle, never seen), any dependency incl. itself
			id := []uint32{1, 3, 7}[vRange(vName("adjWhich", i), 0, 2)]
			dep := []uint32{0, 1, 3, 7}[vRange(vName("adjDep", i), 0, 3)]
			excl := vBool(vName("adjExcl", i))
			weight := uint8(15)
			if fullWeights {
				weight = []uint8{0, 15, 255}[vRange(vName("adjWeight", i), 0, 2)]
			} else if excl {
				weight = 200
			}
			pp := PriorityParam{StreamDep: dep, Exclusive: excl, Weight: weight}
			if vCatch(func() { e.ws.AdjustStream(id, pp) }) {
				vFail("adjust-no-panic")
				return
			}
		case 3:
			open := e.openIDs()
			if len(open) == 0 {
				vAssume(false)
			}
			e.pushData(open[vRange(vName("dataWhich", i), 0, len(open)-1)], 2, false)
			e.pop()
		}
		e.checkPriority()
		ws := e.ws.(*priorityWriteScheduler)
		vAssert(ws.maxID >= maxID, "maxid-monotone")
		maxID = ws.maxID
	}
	vReach("tree-history-done")
	e.drain()
}

func VerifC20_priority_tree_quick()      { c20PriorityTree(3, true, false) }
func VerifC20_priority_tree_noretain()   { c20PriorityTree(3, false, false) }
func VerifC20_priority_tree_thorough()   { c20PriorityTree(4, true, false) }
func VerifC20_priority_tree_weights()    { c20PriorityTree(3, true, true) }
func VerifC20_priority_frames_quick()    { c20History(2, 4) }
func VerifC20_priority_frames_thorough() { c20History(2, 5) }
