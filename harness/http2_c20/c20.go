//go:build verif

package http2

// C20 — write schedulers: bounded operation histories from the empty scheduler against a
// list-based reference. After every operation: control frames first, per-stream order, nothing
// lost or duplicated (unless the stream was closed), DATA released only within stream window,
// connection window and max frame size (pieces concatenate), Pop gives up only when nothing is
// sendable; plus the structural invariants of each scheduler. Windows and max frame size are
// symbolic; frame payloads are concrete tagged bytes so that pieces can be told apart.

type c20Frame struct{ tag int }

func (c20Frame) writeFrame(writeContext) error { return nil }
func (c20Frame) staysWithinBuffer(int) bool    { return true }

type c20Item struct {
	tag  int
	data []byte // nil for non-DATA
	end  bool
}

type c20Ref struct {
	control []c20Item
	open    map[uint32]bool
	closed  map[uint32]bool
	q       map[uint32][]c20Item
	streams map[uint32]*stream
}

type c20Env struct {
	ws      WriteScheduler
	ref     c20Ref
	sc      *serverConn
	nextTag int
	nextID  uint32
	popped  map[int]int
	kind    int // 0 round robin, 1 random, 2 priority
}

func c20New(kind int, cfg *PriorityWriteSchedulerConfig) *c20Env {
	e := &c20Env{kind: kind, nextID: 1, popped: map[int]int{}}
	switch kind {
	case 0:
		e.ws = newRoundRobinWriteScheduler()
	case 1:
		e.ws = NewRandomWriteScheduler()
	default:
		e.ws = NewPriorityWriteScheduler(cfg)
	}
	e.sc = &serverConn{maxFrameSize: vI32("maxFrameSize")}
	vAssume(e.sc.maxFrameSize >= 1) // SETTINGS_MAX_FRAME_SIZE is at least 16384 on the wire; 1 keeps splits interesting
	e.sc.flow.n = vI32("connWindow")
	e.ref = c20Ref{open: map[uint32]bool{}, closed: map[uint32]bool{}, q: map[uint32][]c20Item{}, streams: map[uint32]*stream{}}
	return e
}

func (e *c20Env) tag() int { e.nextTag++; return e.nextTag }

func (e *c20Env) openNext() {
	id := e.nextID
	e.nextID += 2
	st := &stream{sc: e.sc, id: id}
	st.flow.n = vI32(vName("streamWindow", int(id)))
	st.flow.setConnFlow(&e.sc.flow)
	e.ref.open[id] = true
	e.ref.streams[id] = st
	e.ws.OpenStream(id, OpenStreamOptions{})
}

func (e *c20Env) close(id uint32) {
	e.ws.CloseStream(id)
	delete(e.ref.open, id)
	e.ref.closed[id] = true
	delete(e.ref.q, id)
}

func (e *c20Env) pushControl() {
	t := e.tag()
	e.ref.control = append(e.ref.control, c20Item{tag: t})
	e.ws.Push(FrameWriteRequest{write: c20Frame{t}})
}

func (e *c20Env) pushRST(id uint32) { // RST_STREAM for a stream that is no longer open: served like a control frame
	t := e.tag()
	e.ref.control = append(e.ref.control, c20Item{tag: -int(id)})
	_ = t
	e.ws.Push(FrameWriteRequest{write: StreamError{StreamID: id, Code: ErrCodeCancel}})
}

func (e *c20Env) pushStreamFrame(id uint32) {
	t := e.tag()
	e.ref.q[id] = append(e.ref.q[id], c20Item{tag: t})
	e.ws.Push(FrameWriteRequest{write: c20Frame{t}, stream: e.ref.streams[id]})
}

func (e *c20Env) pushData(id uint32, n int, end bool) {
	t := e.tag()
	p := make([]byte, n)
	for i := range p {
		p[i] = byte(t*16 + i)
	}
	e.ref.q[id] = append(e.ref.q[id], c20Item{tag: t, data: p, end: end})
	e.ws.Push(FrameWriteRequest{write: &writeData{streamID: id, p: p, endStream: end}, stream: e.ref.streams[id], done: make(chan error, 1)})
}

func c20min3(a, b, c int32) int32 {
	m := vIteI32(a < b, a, b)
	return vIteI32(c < m, c, m)
}

// pop checks one Pop against the reference.
func (e *c20Env) pop() bool {
	type win struct{ s, c int32 }
	pre := map[uint32]win{}
	for id, st := range e.ref.streams {
		pre[id] = win{st.flow.n, e.sc.flow.n}
	}
	var wr FrameWriteRequest
	var ok bool
	if vCatch(func() { wr, ok = e.ws.Pop() }) {
		vFail("pop-no-panic")
		return false
	}
	if len(e.ref.control) > 0 {
		// control frames (and RST_STREAM of streams that are not open) go first, in push order
		want := e.ref.control[0]
		e.ref.control = e.ref.control[1:]
		if !ok {
			vFail("control-frame-sendable-but-pop-gave-up")
			return false
		}
		if want.tag < 0 {
			se, isSE := wr.write.(StreamError)
			vAssert(isSE && int(se.StreamID) == -want.tag, "control-frames-first-in-order")
		} else {
			cf, isCF := wr.write.(c20Frame)
			vAssert(isCF && cf.tag == want.tag && wr.stream == nil, "control-frames-first-in-order")
		}
		return true
	}
	if !ok {
		// nothing sendable: every queued head is DATA blocked by a window
		for id := range e.ref.open {
			q := e.ref.q[id]
			if len(q) == 0 {
				continue
			}
			h := q[0]
			if h.data == nil || len(h.data) == 0 {
				vFail("sendable-frame-but-pop-gave-up")
				return false
			}
			vAssert(c20min3(pre[id].s, pre[id].c, e.sc.maxFrameSize) <= 0, "pop-gives-up-only-when-nothing-sendable")
		}
		return false
	}
	// a stream frame: must be the head of an open stream's queue
	if wr.stream == nil {
		vFail("unexpected-control-frame")
		return true
	}
	id := wr.stream.id
	if !e.ref.open[id] {
		vFail("frame-of-closed-stream-popped")
		return true
	}
	q := e.ref.q[id]
	if len(q) == 0 {
		vFail("frame-popped-twice-or-invented")
		return true
	}
	h := q[0]
	if h.data == nil {
		cf, isCF := wr.write.(c20Frame)
		vAssert(isCF && cf.tag == h.tag, "per-stream-order")
		e.ref.q[id] = q[1:]
		e.popped[h.tag]++
		return true
	}
	wd, isWD := wr.write.(*writeData)
	if !isWD {
		vFail("per-stream-order")
		return true
	}
	r := len(wd.p)
	if r > len(h.data) || string(wd.p) != string(h.data[:r]) {
		vFail("data-pieces-are-prefixes-in-order")
		return true
	}
	if len(h.data) > 0 {
		allowed := c20min3(pre[id].s, pre[id].c, e.sc.maxFrameSize)
		vAssert(r > 0, "data-piece-non-empty")
		vAssert(int64(r) <= int64(allowed), "data-within-windows-and-frame-size")
		vAssert(vAnd(e.ref.streams[id].flow.n == pre[id].s-int32(r), e.sc.flow.n == pre[id].c-int32(r)), "windows-charged")
	}
	if r == len(h.data) {
		vAssert(wd.endStream == h.end, "end-stream-on-last-piece")
		vAssert(wr.done != nil, "done-channel-on-last-piece")
		e.ref.q[id] = q[1:]
		e.popped[h.tag]++
	} else {
		vAssert(!wd.endStream && wr.done == nil, "end-stream-on-last-piece")
		q[0].data = h.data[r:]
	}
	return true
}

// drain opens every window and pops until the scheduler is empty: everything still queued on
// open streams must come out, exactly once, in order.
func (e *c20Env) drain() {
	e.sc.flow.n = 1 << 20
	e.sc.maxFrameSize = 1 << 14
	for _, st := range e.ref.streams {
		st.flow.n = 1 << 20
	}
	for i := 0; i < 40; i++ {
		if !e.pop() {
			break
		}
	}
	vAssert(len(e.ref.control) == 0, "drain-no-control-frame-lost")
	for id := range e.ref.open {
		vAssert(len(e.ref.q[id]) == 0, "drain-no-stream-frame-lost")
	}
	for _, n := range e.popped {
		vAssert(n == 1, "each-frame-exactly-once")
	}
}

func (e *c20Env) openIDs() []uint32 {
	var out []uint32
	for id := uint32(1); id < e.nextID; id += 2 {
		if e.ref.open[id] {
			out = append(out, id)
		}
	}
	return out
}

func (e *c20Env) closedIDs() []uint32 {
	var out []uint32
	for id := uint32(1); id < e.nextID; id += 2 {
		if e.ref.closed[id] {
			out = append(out, id)
		}
	}
	return out
}

// step performs one operation chosen among those the scheduler interface permits.
func (e *c20Env) step(i int) {
	open := e.openIDs()
	closed := e.closedIDs()
	pick := func(name string, ids []uint32) uint32 { return ids[vRange(vName(name, i), 0, len(ids)-1)] }
	switch vRange(vName("op", i), 0, 6) {
	case 0:
		if e.nextID > 5 {
			vAssume(false)
		}
		e.openNext()
	case 1:
		if len(open) == 0 {
			vAssume(false)
		}
		e.close(pick("closeWhich", open))
	case 2:
		e.pushControl()
	case 3:
		if len(open) == 0 {
			vAssume(false)
		}
		e.pushStreamFrame(pick("pushWhich", open))
	case 4:
		if len(open) == 0 {
			vAssume(false)
		}
		e.pushData(pick("dataWhich", open), vRange(vName("dataLen", i), 0, 2)+1, vBool(vName("dataEnd", i)))
	case 5:
		// RST_STREAM is written without a stream pointer: it is a control frame whether or not the
		// stream it names is still open
		any := append(append([]uint32{}, open...), closed...)
		if len(any) == 0 {
			vAssume(false)
		}
		e.pushRST(pick("rstWhich", any))
	case 6:
		e.pop()
	}
}

func (e *c20Env) checkRoundRobin() {
	ws := e.ws.(*roundRobinWriteScheduler)
	n := len(ws.streams)
	if n == 0 {
		vAssert(ws.head == nil, "rr-head-nil-iff-empty")
		return
	}
	if ws.head == nil {
		vFail("rr-head-nil-iff-empty")
		return
	}
	// next/prev form one ring containing exactly the queues of the open streams
	seen := map[*writeQueue]bool{}
	q := ws.head
	for k := 0; k < n+1; k++ {
		if seen[q] {
			break
		}
		seen[q] = true
		vAssert(q.next != nil && q.next.prev == q, "rr-ring-links-consistent")
		q = q.next
	}
	vAssert(q == ws.head && len(seen) == n, "rr-ring-has-exactly-the-open-streams")
	for _, sq := range ws.streams {
		vAssert(seen[sq], "rr-ring-has-exactly-the-open-streams")
	}
	for _, pq := range ws.queuePool {
		vAssert(pq.empty(), "pooled-queues-are-empty")
	}
}

func (e *c20Env) checkRandom() {
	ws := e.ws.(*randomWriteScheduler)
	for _, q := range ws.sq {
		vAssert(!q.empty(), "random-map-holds-no-empty-queue")
	}
	for _, pq := range ws.queuePool {
		vAssert(pq.empty(), "pooled-queues-are-empty")
	}
}

func c20History(kind, K int) {
	e := c20New(kind, nil)
	for i := 0; i < K; i++ {
		e.step(i)
		switch kind {
		case 0:
			e.checkRoundRobin()
		case 1:
			e.checkRandom()
		case 2:
			e.checkPriority()
		}
	}
	vReach("history-done")
	e.drain()
}

func VerifC20_roundrobin_quick()    { c20History(0, 4) }
func VerifC20_roundrobin_thorough() { c20History(0, 6) }
func VerifC20_random_quick()        { c20History(1, 4) }
func VerifC20_random_thorough()     { c20History(1, 6) }
