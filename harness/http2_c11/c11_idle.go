//go:build verif

package http2

// C11 (HTTP/2 idle cut, step form) — with an idle timeout d configured, whenever the last open
// stream of a connection is closed - for whatever reason: completed, reset by the client, stream
// error, handler panic, deadline - the idle timer is re-armed with d, so a connection that goes
// quiet afterwards is cut; while streams remain open it is left alone; the timer message makes
// the server start a graceful GOAWAY.

import (
	"context"
	"errors"
	"net/http"
	"time"
)

type c11Timer struct {
	resets   int
	lastD    time.Duration
	stops    int
	armed    bool
}

func (t *c11Timer) C() <-chan time.Time { return nil }
func (t *c11Timer) Reset(d time.Duration) bool {
	t.resets++
	t.lastD = d
	t.armed = true
	return true
}
func (t *c11Timer) Stop() bool { t.stops++; t.armed = false; return true }

//verif:replace (*serverConn).writeFrame
func c11writeFrame(sc *serverConn, wr FrameWriteRequest) {}

//verif:replace (*serverConn).scheduleFrameWrite
func c11scheduleFrameWrite(sc *serverConn) {}

var errC11Other = errors.New("some other reason")

func c11Stream(sc *serverConn, id uint32) *stream {
	st := &stream{sc: sc, id: id, state: stateOpen}
	ctx, cancel := context.WithCancel(context.Background())
	st.ctx, st.cancelCtx = ctx, cancel
	st.cw.Init()
	sc.streams[id] = st
	sc.curClientStreams++
	return st
}

func VerifC11_h2_idle_rearm() {
	DebugGoroutines = false
	d := time.Duration(vI64("idleTimeout"))
	vAssume(d >= 0)
	tm := &c11Timer{}
	sc := &serverConn{srv: &Server{IdleTimeout: d}, hs: &http.Server{}, streams: map[uint32]*stream{}, writeSched: newRoundRobinWriteScheduler()}
	if d > 0 {
		sc.idleTimer = tm // what serve() does: armed iff an idle timeout is configured
	}
	st := c11Stream(sc, 1)
	others := vRange("otherOpenStreams", 0, 1)
	if others == 1 {
		c11Stream(sc, 3)
	}
	switch vRange("st.state", 0, 2) {
	case 1:
		st.state = stateHalfClosedRemote
	case 2:
		st.state = stateHalfClosedLocal
	}
	var err error
	switch vRange("reason", 0, 5) {
	case 0:
		err = errHandlerComplete
	case 1:
		err = errClientDisconnected
	case 2:
		err = streamError(1, ErrCode(vU32("code"))) // RST_STREAM from the client / stream error
	case 3:
		err = errHandlerPanicked
	case 4:
		err = errC11Other
	case 5:
		err = nil
	}
	if vCatch(func() { sc.closeStream(st, err) }) {
		vFail("closeStream-no-panic")
		return
	}
	vReach("stream-closed")
	_, still := sc.streams[1]
	vAssert(!still && st.state == stateClosed, "stream-removed")
	if others == 0 && d > 0 {
		vReach("last-stream-closed-with-idle-timeout")
		vAssert(tm.resets == 1 && tm.lastD == d && tm.armed, "idle-timer-rearmed-when-connection-goes-idle")
	} else {
		vAssert(tm.resets == 0, "idle-timer-untouched-while-busy-or-unconfigured")
	}
	// the idle timer message starts a graceful shutdown: GOAWAY(NO_ERROR)
	sc.goAway(ErrCodeNo)
	vAssert(sc.inGoAway && sc.needToSendGoAway && sc.goAwayCode == ErrCodeNo, "idle-timeout-sends-goaway")
}
