//go:build verif

package http2

// C07 — a request's HTTP/2 fingerprint equals the fingerprint of the connection's frame history
// as it stood at ONE instant between the arrival of its HEADERS frame and its forwarding.
// Two threads: the handler goroutine renders the record (Marshal, thread 0) while the serve
// loop keeps capturing later frames of the same client (processFrame, thread 1). Every load
// thread 0 makes from the shared record is a preemption point at which thread 1 may process
// its next frames (symbolic schedule) - all sequentially consistent interleavings at
// shared-access granularity. Weaker memory orders only add behaviours.

import (
	"context"

	"github.com/wi1dcard/fingerproxy/pkg/metadata"
	"golang.org/x/net/http2/hpack"
)

//verif:replace (*serverConn).processSettings
func c07processSettings(sc *serverConn, f *SettingsFrame) error { return nil }

//verif:replace (*serverConn).processHeaders
func c07processHeaders(sc *serverConn, f *MetaHeadersFrame) error { return nil }

//verif:replace (*serverConn).processWindowUpdate
func c07processWindowUpdate(sc *serverConn, f *WindowUpdateFrame) error { return nil }

//verif:replace (*serverConn).processPriority
func c07processPriority(sc *serverConn, f *PriorityFrame) error { return nil }

func c07Frames(n int) []Frame {
	var out []Frame
	for i := 0; i < n; i++ {
		switch vRange(vName("later.kind", i), 0, 3) {
		case 0:
			p := []byte{0, 4, 0, 0, byte(i + 1), vU8(vName("later.setting", i))}
			out = append(out, &SettingsFrame{FrameHeader: FrameHeader{valid: true, Type: FrameSettings, Length: 6}, p: p})
		case 1:
			out = append(out, &PriorityFrame{FrameHeader: FrameHeader{valid: true, Type: FramePriority, Length: 5, StreamID: uint32(3 + 2*i)},
				PriorityParam: PriorityParam{StreamDep: 0, Weight: vU8(vName("later.weight", i))}})
		case 2:
			out = append(out, &WindowUpdateFrame{FrameHeader: FrameHeader{valid: true, Type: FrameWindowUpdate, Length: 4}, Increment: uint32(vU8(vName("later.incr", i))) + 1})
		case 3:
			out = append(out, &MetaHeadersFrame{HeadersFrame: &HeadersFrame{FrameHeader: FrameHeader{valid: true, Type: FrameHeaders, Flags: FlagHeadersEndHeaders, StreamID: uint32(3 + 2*i)}},
				Fields: []hpack.HeaderField{{Name: ":path", Value: "/"}, {Name: ":method", Value: "GET"}}})
		}
	}
	return out
}

func c07Run(n int) {
	DebugGoroutines = false
	ctx, md := metadata.NewContext(context.Background())
	sc := &serverConn{baseCtx: ctx, sawFirstSettings: true}
	sc.inflow.avail = 1 << 20
	// the connection so far: the client's SETTINGS, one WINDOW_UPDATE or none, the request's HEADERS
	sc.processFrame(&SettingsFrame{FrameHeader: FrameHeader{valid: true, Type: FrameSettings, Length: 6}, p: []byte{0, 3, 0, 0, 0, 100}})
	if vBool("earlier.windowUpdate") {
		sc.processFrame(&WindowUpdateFrame{FrameHeader: FrameHeader{valid: true, Type: FrameWindowUpdate, Length: 4}, Increment: 15663105})
	}
	sc.processFrame(&MetaHeadersFrame{HeadersFrame: &HeadersFrame{FrameHeader: FrameHeader{valid: true, Type: FrameHeaders, Flags: FlagHeadersEndHeaders | FlagHeadersPriority, StreamID: 1}, Priority: PriorityParam{Weight: 200}},
		Fields: []hpack.HeaderField{{Name: ":method", Value: "GET"}, {Name: ":path", Value: "/"}, {Name: ":scheme", Value: "https"}}})

	later := c07Frames(n)
	// the fingerprint at every instant from "request's HEADERS captured" on (computed without concurrency)
	snaps := []string{md.HTTP2Frames.Marshal(^uint(0))}
	{
		ctx2, md2 := metadata.NewContext(context.Background())
		sc2 := &serverConn{baseCtx: ctx2, sawFirstSettings: true}
		md2.HTTP2Frames.Settings = append([]metadata.Setting{}, md.HTTP2Frames.Settings...)
		md2.HTTP2Frames.WindowUpdateIncrement = md.HTTP2Frames.WindowUpdateIncrement
		md2.HTTP2Frames.Priorities = append([]metadata.Priority{}, md.HTTP2Frames.Priorities...)
		md2.HTTP2Frames.Headers = append([]metadata.HeaderField{}, md.HTTP2Frames.Headers...)
		for _, f := range later {
			sc2.processFrame(f)
			snaps = append(snaps, md2.HTTP2Frames.Marshal(^uint(0)))
		}
	}

	// thread 1: the serve loop goes on capturing while the handler renders
	next := 0
	vWatchFields(&md.HTTP2Frames)
	vSetAccessHook(func() {
		for next < len(later) && vBool(vName("arrives.before.read", vWatchedReads(), next)) {
			sc.processFrame(later[next])
			next++
		}
	})
	// thread 0: the handler goroutine
	got := md.HTTP2Frames.Marshal(^uint(0))
	vClearAccessHook()
	vReach("rendered-concurrently")
	if next > 0 {
		vReach("frames-arrived-while-rendering")
	}
	ok := false
	for i := 0; i <= next; i++ {
		ok = vOr(ok, got == snaps[i])
	}
	vAssert(ok, "fingerprint-of-one-instant")
}

func VerifC07_snapshot_quick()    { c07Run(2) }
func VerifC07_snapshot_thorough() { c07Run(3) }

// The request's own HEADERS are captured before its handler is started (the happens-before edge
// that makes "not earlier than its own HEADERS" true) is C03's headers-captured-before-dispatch.
