//go:build verif

package http2

// C07 — a request's HTTP/2 fingerprint equals the fingerprint of the connection's frame history
// as it stood at ONE instant between the arrival of its HEADERS frame and its forwarding.
// Two threads: the handler goroutine renders the record (Marshal, thread 0) while the serve
// loop keeps capturing later frames of the same client (processFrame, thread 1). Every load
// thread 0 makes from the shared record is a preemption point at which thread 1 may process
// its next frames (symbolic schedule) - all sequentially consistent interleavings at
// shared-access granularity. Weaker memory orders only add behaviours.

import (
	"context"
	"net"
	"net/http"
	"time"

	"github.com/wi1dcard/fingerproxy/pkg/metadata"
	"golang.org/x/net/http2/hpack"
)

//verif:replace (*serverConn).processSettings
func c07processSettings(sc *serverConn, f *SettingsFrame) error { return nil }

// The real processHeaders runs (it creates the stream and the request whose context the handler
// gets); what it would write and the handler goroutine itself are stubs: the handler's work - the
// Marshal below - is thread 0 of this harness.
//
//verif:replace (*serverConn).writeFrame
func c07writeFrame(sc *serverConn, wr FrameWriteRequest) {}

//verif:replace (*serverConn).scheduleFrameWrite
func c07scheduleFrameWrite(sc *serverConn) {}

var c07Requests []*http.Request

//verif:replace (*serverConn).runHandler
func c07runHandler(sc *serverConn, rw *responseWriter, req *http.Request, handler func(http.ResponseWriter, *http.Request)) {
	c07Requests = append(c07Requests, req)
}

type c07Handler struct{}

func (c07Handler) ServeHTTP(http.ResponseWriter, *http.Request) {}

type c07Conn struct{}

func (c07Conn) Read([]byte) (int, error)         { return 0, nil }
func (c07Conn) Write(b []byte) (int, error)      { return len(b), nil }
func (c07Conn) Close() error                     { return nil }
func (c07Conn) LocalAddr() net.Addr              { return c07Addr{} }
func (c07Conn) RemoteAddr() net.Addr             { return c07Addr{} }
func (c07Conn) SetDeadline(time.Time) error      { return nil }
func (c07Conn) SetReadDeadline(time.Time) error  { return nil }
func (c07Conn) SetWriteDeadline(time.Time) error { return nil }

type c07Addr struct{}

func (c07Addr) Network() string { return "tcp" }
func (c07Addr) String() string  { return "192.0.2.7:1" }

func c07ServerConn(ctx context.Context) *serverConn {
	sc := &serverConn{
		srv: &Server{}, hs: &http.Server{}, conn: c07Conn{}, baseCtx: ctx, handler: c07Handler{},
		streams: map[uint32]*stream{}, writeSched: newRoundRobinWriteScheduler(),
		initialStreamSendWindowSize: 65535, initialStreamRecvWindowSize: 1 << 20, maxFrameSize: 16384,
		clientMaxStreams: 100, advMaxStreams: 100, pushEnabled: true, sawFirstSettings: true,
	}
	sc.hpackEncoder = hpack.NewEncoder(&sc.headerWriteBuf)
	sc.flow.n = 65535
	sc.inflow.avail = 1 << 20
	return sc
}

//verif:replace (*serverConn).processWindowUpdate
func c07processWindowUpdate(sc *serverConn, f *WindowUpdateFrame) error { return nil }

//verif:replace (*serverConn).processPriority
func c07processPriority(sc *serverConn, f *PriorityFrame) error { return nil }

func c07Frames(n int) []Frame {
	var out []Frame
	for i := 0; i < n; i++ {
		switch vRange(vName("later.kind", i), 0, 4) {
		case 0:
			p := []byte{0, 4, 0, 0, byte(i + 1), vU8(vName("later.setting", i))}
			out = append(out, &SettingsFrame{FrameHeader: FrameHeader{valid: true, Type: FrameSettings, Length: 6}, p: p})
		case 1:
			out = append(out, &PriorityFrame{FrameHeader: FrameHeader{valid: true, Type: FramePriority, Length: 5, StreamID: uint32(3 + 2*i)},
				PriorityParam: PriorityParam{StreamDep: 0, Weight: vU8(vName("later.weight", i))}})
		case 2:
			out = append(out, &WindowUpdateFrame{FrameHeader: FrameHeader{valid: true, Type: FrameWindowUpdate, Length: 4}, Increment: uint32(vU8(vName("later.incr", i))) + 1})
		case 3:
			out = append(out, &MetaHeadersFrame{HeadersFrame: &HeadersFrame{FrameHeader: FrameHeader{valid: true, Type: FrameHeaders, Flags: FlagHeadersEndHeaders | FlagHeadersEndStream, StreamID: uint32(3 + 2*i)}},
				Fields: []hpack.HeaderField{{Name: ":path", Value: "/"}, {Name: ":method", Value: "GET"}, {Name: ":scheme", Value: "https"}}})
		case 4:
			// the client resets the very request whose handler is rendering: the stream is closed under
			// the running handler (whatever the server releases or reuses then must not be what it reads)
			out = append(out, &RSTStreamFrame{FrameHeader: FrameHeader{valid: true, Type: FrameRSTStream, Length: 4, StreamID: 1}, ErrCode: ErrCodeCancel})
		}
	}
	return out
}

func c07Run(n int) {
	DebugGoroutines = false
	c07Requests = nil
	ctx, connMD := metadata.NewContext(context.Background())
	sc := c07ServerConn(ctx)
	// the connection so far: the client's SETTINGS, one WINDOW_UPDATE or none, the request's HEADERS
	sc.processFrame(&SettingsFrame{FrameHeader: FrameHeader{valid: true, Type: FrameSettings, Length: 6}, p: []byte{0, 3, 0, 0, 0, 100}})
	if vBool("earlier.windowUpdate") {
		sc.processFrame(&WindowUpdateFrame{FrameHeader: FrameHeader{valid: true, Type: FrameWindowUpdate, Length: 4}, Increment: 15663105})
	}
	sc.processFrame(&MetaHeadersFrame{HeadersFrame: &HeadersFrame{FrameHeader: FrameHeader{valid: true, Type: FrameHeaders, Flags: FlagHeadersEndHeaders | FlagHeadersEndStream | FlagHeadersPriority, StreamID: 1}, Priority: PriorityParam{Weight: 200}},
		Fields: []hpack.HeaderField{{Name: ":method", Value: "GET"}, {Name: ":path", Value: "/"}, {Name: ":scheme", Value: "https"}}})
	// the handler goroutine of that request: started by the real processHeaders with the real request;
	// like a header injector it takes the record from the request's context
	vRunSpawned("runHandler")
	if len(c07Requests) != 1 {
		vFail("request-dispatched")
		return
	}
	md, ok := metadata.FromContext(c07Requests[0].Context())
	if !ok {
		vFail("request-context-carries-metadata")
		return
	}

	later := c07Frames(n)
	// the fingerprint at every instant from "request's HEADERS captured" on (computed without concurrency)
	snaps := []string{connMD.HTTP2Frames.Marshal(^uint(0))}
	{
		ctx2, md2 := metadata.NewContext(context.Background())
		sc2 := c07ServerConn(ctx2)
		md2.HTTP2Frames.Settings = append([]metadata.Setting{}, connMD.HTTP2Frames.Settings...)
		md2.HTTP2Frames.WindowUpdateIncrement = connMD.HTTP2Frames.WindowUpdateIncrement
		md2.HTTP2Frames.Priorities = append([]metadata.Priority{}, connMD.HTTP2Frames.Priorities...)
		md2.HTTP2Frames.Headers = append([]metadata.HeaderField{}, connMD.HTTP2Frames.Headers...)
		sc2.maxClientStreamID = 1
		for _, f := range later {
			sc2.processFrame(f)
			snaps = append(snaps, md2.HTTP2Frames.Marshal(^uint(0)))
		}
	}

	// thread 1: the serve loop goes on capturing while the handler renders
	next := 0
	// "no unsynchronised concurrent access to the connection's captured data": what handlers read must
	// not be the record the serve loop keeps writing
	vAssert(md != connMD, "handler-does-not-share-the-serve-loops-record")
	vWatchFields(&md.HTTP2Frames) // what the handler reads: every load is a preemption point
	if md != connMD {
		vWatchFields(&connMD.HTTP2Frames)
	}
	vSetAccessHook(func() {
		for next < len(later) && vBool(vName("arrives.before.read", vWatchedReads(), next)) {
			sc.processFrame(later[next])
			next++
		}
	})
	// thread 0: the handler goroutine
	got := md.HTTP2Frames.Marshal(^uint(0))
	vClearAccessHook()
	vReach("rendered-concurrently")
	if next > 0 {
		vReach("frames-arrived-while-rendering")
	}
	oneInstant := false
	for i := 0; i <= next; i++ {
		oneInstant = vOr(oneInstant, got == snaps[i])
	}
	vAssert(oneInstant, "fingerprint-of-one-instant")
}

func VerifC07_snapshot_quick()    { c07Run(2) }
func VerifC07_snapshot_thorough() { c07Run(3) }

// The request's own HEADERS are captured before its handler is started (the happens-before edge
// that makes "not earlier than its own HEADERS" true) is C03's headers-captured-before-dispatch.
