//go:build verif

package http2

// C03 (part 2) — one-step capture harness on the real (*serverConn).processFrame:
// from an arbitrary captured record and an arbitrary frame, the record afterwards is what
// the property prescribes (latest non-ACK SETTINGS, first WINDOW_UPDATE, every PRIORITY and
// HEADERS priority appended in order, latest header block), and the capture for a HEADERS
// frame has happened before the frame is dispatched.
// All process* callees are replaced by recording stubs (their behaviour is C12/C13).

import (
	"context"
	"errors"

	"github.com/wi1dcard/fingerproxy/pkg/metadata"
	"golang.org/x/net/http2/hpack"
)

var c03 struct {
	md            *metadata.Metadata
	dispatched    string
	wantHeaders   []metadata.HeaderField
	wantNPrio     int
	checkDispatch bool
}

var errC03Stub = errors.New("c03 stub error")

func c03ret() error {
	if vBool("stub-returns-error") {
		return errC03Stub
	}
	return nil
}

//verif:replace (*serverConn).processSettings
func c03processSettings(sc *serverConn, f *SettingsFrame) error { c03.dispatched = "settings"; return c03ret() }

//verif:replace (*serverConn).processHeaders
func c03processHeaders(sc *serverConn, f *MetaHeadersFrame) error {
	c03.dispatched = "headers"
	if c03.checkDispatch {
		// "not earlier than its own HEADERS": the record already holds this block when the
		// request is dispatched (processHeaders is what starts the handler)
		got := c03.md.HTTP2Frames.Headers
		ok := len(got) == len(c03.wantHeaders)
		if ok {
			for i := range got {
				ok = vAnd(ok, vAnd(got[i].Name == c03.wantHeaders[i].Name, got[i].Value == c03.wantHeaders[i].Value))
			}
		}
		vAssert(ok, "headers-captured-before-dispatch")
		vAssert(len(c03.md.HTTP2Frames.Priorities) == c03.wantNPrio, "priority-captured-before-dispatch")
	}
	return c03ret()
}

//verif:replace (*serverConn).processWindowUpdate
func c03processWindowUpdate(sc *serverConn, f *WindowUpdateFrame) error { c03.dispatched = "wu"; return c03ret() }

//verif:replace (*serverConn).processPing
func c03processPing(sc *serverConn, f *PingFrame) error { c03.dispatched = "ping"; return c03ret() }

//verif:replace (*serverConn).processData
func c03processData(sc *serverConn, f *DataFrame) error { c03.dispatched = "data"; return c03ret() }

//verif:replace (*serverConn).processResetStream
func c03processResetStream(sc *serverConn, f *RSTStreamFrame) error { c03.dispatched = "rst"; return c03ret() }

//verif:replace (*serverConn).processPriority
func c03processPriority(sc *serverConn, f *PriorityFrame) error { c03.dispatched = "priority"; return c03ret() }

//verif:replace (*serverConn).processGoAway
func c03processGoAway(sc *serverConn, f *GoAwayFrame) error { c03.dispatched = "goaway"; return c03ret() }

//verif:replace (*serverConn).sendWindowUpdate
func c03sendWindowUpdate(sc *serverConn, st *stream, n int) {}

func c03eqSettings(a, b []metadata.Setting) bool {
	if len(a) != len(b) {
		return false
	}
	ok := true
	for i := range a {
		ok = vAnd(ok, vAnd(a[i].Id == b[i].Id, a[i].Val == b[i].Val))
	}
	return ok
}

func c03eqPrio(a, b []metadata.Priority) bool {
	if len(a) != len(b) {
		return false
	}
	ok := true
	for i := range a {
		ok = vAnd(ok, vAnd(vAnd(a[i].StreamId == b[i].StreamId, a[i].StreamDep == b[i].StreamDep),
			vAnd(a[i].Exclusive == b[i].Exclusive, a[i].Weight == b[i].Weight)))
	}
	return ok
}

func c03eqHeaders(a, b []metadata.HeaderField) bool {
	if len(a) != len(b) {
		return false
	}
	ok := true
	for i := range a {
		ok = vAnd(ok, vAnd(vAnd(a[i].Name == b[i].Name, a[i].Value == b[i].Value), a[i].Sensitive == b[i].Sensitive))
	}
	return ok
}

func c03Step(N int) {
	DebugGoroutines = false // the package's own tests switch it on; the harness is not the serve goroutine
	ctx, md := metadata.NewContext(context.Background())
	c03.md = md
	c03.dispatched = ""
	c03.checkDispatch = false
	// arbitrary pre-state of the captured record
	pre := &md.HTTP2Frames
	for i, n := 0, vRange("pre.nsettings", 0, N); i < n; i++ {
		pre.Settings = append(pre.Settings, metadata.Setting{Id: vU16(vName("pre.sid", i)), Val: vU32(vName("pre.sval", i))})
	}
	pre.WindowUpdateIncrement = vU32("pre.wu")
	for i, n := 0, vRange("pre.nprio", 0, N); i < n; i++ {
		pre.Priorities = append(pre.Priorities, metadata.Priority{StreamId: vU32(vName("pre.pid", i)), StreamDep: vU32(vName("pre.pdep", i)),
			Exclusive: vBool(vName("pre.pex", i)), Weight: vU8(vName("pre.pw", i))})
	}
	for i, n := 0, vRange("pre.nhdr", 0, 1); i < n; i++ {
		pre.Headers = append(pre.Headers, metadata.HeaderField{Name: vString(vName("pre.hn", i), 2), Value: "x"})
	}
	oldSettings := append([]metadata.Setting{}, pre.Settings...)
	oldWU := pre.WindowUpdateIncrement
	oldPrio := append([]metadata.Priority{}, pre.Priorities...)
	oldHeaders := append([]metadata.HeaderField{}, pre.Headers...)

	sc := &serverConn{baseCtx: ctx}
	sc.sawFirstSettings = vBool("sawFirstSettings")
	sc.inGoAway = vBool("inGoAway")
	sc.goAwayCode = ErrCode(vU32("goAwayCode"))
	sc.maxClientStreamID = vU32("maxClientStreamID")
	sc.inflow.avail = 1 << 20

	sid := vU32("streamID")
	vAssume(sid < 1<<31)
	flags := Flags(vU8("flags"))
	var f Frame
	kind := vRange("kind", 0, 9)
	isSettings := kind == 0
	var newSettings []metadata.Setting
	var newHeaders []metadata.HeaderField
	var newPrio metadata.Priority
	switch kind {
	case 0:
		k := vRange("nsettings", 0, N)
		p := vBytes("settings", 6*k)
		for i := 0; i < k; i++ {
			newSettings = append(newSettings, metadata.Setting{Id: uint16(p[6*i])<<8 | uint16(p[6*i+1]),
				Val: uint32(p[6*i+2])<<24 | uint32(p[6*i+3])<<16 | uint32(p[6*i+4])<<8 | uint32(p[6*i+5])})
		}
		f = &SettingsFrame{FrameHeader: FrameHeader{valid: true, Type: FrameSettings, Flags: flags, Length: uint32(6 * k), StreamID: sid}, p: p}
	case 1:
		k := vRange("nfields", 0, N)
		var fields []hpack.HeaderField
		for i := 0; i < k; i++ {
			hf := hpack.HeaderField{Name: vString(vName("fn", i), vRange(vName("fnlen", i), 0, 2)), Value: vString(vName("fv", i), 1), Sensitive: vBool(vName("fs", i))}
			fields = append(fields, hf)
			newHeaders = append(newHeaders, metadata.HeaderField{Name: hf.Name, Value: hf.Value, Sensitive: hf.Sensitive})
		}
		pp := PriorityParam{StreamDep: vU32("hdep"), Exclusive: vBool("hex"), Weight: vU8("hw")}
		newPrio = metadata.Priority{StreamId: sid, StreamDep: pp.StreamDep, Exclusive: pp.Exclusive, Weight: pp.Weight}
		f = &MetaHeadersFrame{HeadersFrame: &HeadersFrame{FrameHeader: FrameHeader{valid: true, Type: FrameHeaders, Flags: flags, StreamID: sid}, Priority: pp}, Fields: fields}
	case 2:
		f = &WindowUpdateFrame{FrameHeader: FrameHeader{valid: true, Type: FrameWindowUpdate, Flags: flags, Length: 4, StreamID: sid}, Increment: vU32("incr")}
	case 3:
		f = &PingFrame{FrameHeader: FrameHeader{valid: true, Type: FramePing, Flags: flags, Length: 8, StreamID: sid}}
	case 4:
		f = &DataFrame{FrameHeader: FrameHeader{valid: true, Type: FrameData, Flags: flags, Length: vU32("dlen") & 0xffff, StreamID: sid}}
	case 5:
		f = &RSTStreamFrame{FrameHeader: FrameHeader{valid: true, Type: FrameRSTStream, Flags: flags, Length: 4, StreamID: sid}, ErrCode: ErrCode(vU32("rstcode"))}
	case 6:
		pp := PriorityParam{StreamDep: vU32("pdep"), Exclusive: vBool("pex"), Weight: vU8("pw")}
		newPrio = metadata.Priority{StreamId: sid, StreamDep: pp.StreamDep, Exclusive: pp.Exclusive, Weight: pp.Weight}
		f = &PriorityFrame{FrameHeader: FrameHeader{valid: true, Type: FramePriority, Flags: flags, Length: 5, StreamID: sid}, PriorityParam: pp}
	case 7:
		f = &GoAwayFrame{FrameHeader: FrameHeader{valid: true, Type: FrameGoAway, Flags: flags, StreamID: sid}, LastStreamID: vU32("last"), ErrCode: ErrCode(vU32("gacode"))}
	case 8:
		f = &PushPromiseFrame{FrameHeader: FrameHeader{valid: true, Type: FramePushPromise, Flags: flags, StreamID: sid}, PromiseID: vU32("promise")}
	case 9:
		f = &UnknownFrame{FrameHeader: FrameHeader{valid: true, Type: FrameType(vU8("utype")), Flags: flags, StreamID: sid}}
	}

	// reference: is the frame acted on at all?
	rejectedFirst := !sc.sawFirstSettings && !isSettings
	discarded := false
	if !rejectedFirst {
		discarded = vAnd(sc.inGoAway, vOr(sc.goAwayCode != ErrCodeNo, sid > sc.maxClientStreamID))
	}
	hasPrio := flags&FlagHeadersPriority != 0
	if kind == 1 {
		c03.checkDispatch = true
		c03.wantHeaders = newHeaders
		c03.wantNPrio = len(oldPrio)
		if hasPrio {
			c03.wantNPrio++
		}
	}

	if vCatch(func() { sc.processFrame(f) }) {
		vFail("capture-no-panic")
		return
	}
	got := &md.HTTP2Frames

	wantSettings, wantWU, wantPrio, wantHeaders := oldSettings, oldWU, oldPrio, oldHeaders
	if !rejectedFirst && !discarded {
		switch kind {
		case 0:
			if flags&FlagSettingsAck == 0 {
				vReach("settings-replaced")
				wantSettings = newSettings
			} else {
				vReach("settings-ack-ignored")
			}
		case 1:
			wantHeaders = newHeaders
			if hasPrio {
				vReach("headers-with-priority")
				wantPrio = append(append([]metadata.Priority{}, oldPrio...), newPrio)
			} else {
				vReach("headers-without-priority")
			}
		case 2:
			if oldWU == 0 {
				vReach("first-window-update")
				wantWU = f.(*WindowUpdateFrame).Increment
			} else {
				vReach("later-window-update-ignored")
			}
		case 6:
			vReach("priority-appended")
			wantPrio = append(append([]metadata.Priority{}, oldPrio...), newPrio)
		}
	} else if discarded {
		vReach("discarded-after-goaway")
		vAssert(c03.dispatched == "", "discarded-frame-not-dispatched")
	} else {
		vReach("rejected-before-first-settings")
		vAssert(c03.dispatched == "", "rejected-frame-not-dispatched")
	}
	vAssert(c03eqSettings(got.Settings, wantSettings), "capture-settings")
	vAssert(got.WindowUpdateIncrement == wantWU, "capture-window-update")
	vAssert(c03eqPrio(got.Priorities, wantPrio), "capture-priorities")
	vAssert(c03eqHeaders(got.Headers, wantHeaders), "capture-headers")
}

func VerifC03_capture_quick()    { c03Step(1) }
func VerifC03_capture_thorough() { c03Step(2) }
