//go:build verif

package metadata

// C03 (part 1) — Marshal renders S|WU|P|PS exactly as specified, for every record and every limit.
// Reference implementation written from the property text; it uses the same formatting
// primitives (fmt.Sprintf %d), so what is compared is which value goes where, separators,
// order, the '00'/'0' placeholders and the priority cut.

import (
	"fmt"
	"strings"
)

func refMarshal(f *HTTP2FingerprintingFrames, max uint) string {
	var parts []string
	// S
	var s []string
	for _, x := range f.Settings {
		s = append(s, fmt.Sprintf("%d", x.Id)+":"+fmt.Sprintf("%d", x.Val))
	}
	parts = append(parts, strings.Join(s, ";"))
	// WU
	if f.WindowUpdateIncrement == 0 {
		parts = append(parts, "00")
	} else {
		parts = append(parts, fmt.Sprintf("%d", f.WindowUpdateIncrement))
	}
	// P
	n := uint(len(f.Priorities))
	if max < n {
		n = max
	}
	if n == 0 {
		parts = append(parts, "0")
	} else {
		var p []string
		for i := uint(0); i < n; i++ {
			pr := f.Priorities[i]
			e := "0"
			if pr.Exclusive {
				e = "1"
			}
			p = append(p, fmt.Sprintf("%d", pr.StreamId)+":"+e+":"+fmt.Sprintf("%d", pr.StreamDep)+":"+fmt.Sprintf("%d", int(pr.Weight)+1))
		}
		parts = append(parts, strings.Join(p, ","))
	}
	// PS
	var ps []string
	for _, h := range f.Headers {
		if len(h.Name) >= 2 && h.Name[0] == ':' {
			ps = append(ps, h.Name[1:2])
		}
	}
	parts = append(parts, strings.Join(ps, ","))
	return strings.Join(parts, "|")
}

func c03Marshal(N int) {
	f := &HTTP2FingerprintingFrames{}
	ns := vRange("nsettings", 0, N)
	for i := 0; i < ns; i++ {
		f.Settings = append(f.Settings, Setting{Id: vU16(vName("sid", i)), Val: vU32(vName("sval", i))})
	}
	f.WindowUpdateIncrement = vU32("wu")
	np := vRange("nprio", 0, N)
	for i := 0; i < np; i++ {
		f.Priorities = append(f.Priorities, Priority{StreamId: vU32(vName("pid", i)), StreamDep: vU32(vName("pdep", i)),
			Exclusive: vBool(vName("pexcl", i)), Weight: vU8(vName("pw", i))})
	}
	nh := vRange("nheaders", 0, N)
	for i := 0; i < nh; i++ {
		l := vRange(vName("hlen", i), 0, 3)
		f.Headers = append(f.Headers, HeaderField{Name: vString(vName("hname", i), l), Value: "v"})
	}
	max := vUint("max")
	var got string
	if vCatch(func() { got = f.Marshal(max) }) {
		vFail("marshal-no-panic")
		return
	}
	want := refMarshal(f, max)
	vReach("marshal-compared")
	vAssert(got == want, "marshal-equals-reference")
	if max == 0 && np > 0 {
		vReach("limit-zero")
	}
	if np > 0 && uint(np) > max && max > 0 {
		vReach("limit-cuts")
	}
}

func VerifC03_marshal_quick()    { c03Marshal(2) }
func VerifC03_marshal_thorough() { c03Marshal(3) }

// String() is Marshal with no limit.
func VerifC03_string() {
	f := &HTTP2FingerprintingFrames{WindowUpdateIncrement: vU32("wu")}
	np := vRange("nprio", 0, 3)
	for i := 0; i < np; i++ {
		f.Priorities = append(f.Priorities, Priority{StreamId: vU32(vName("pid", i)), Weight: vU8(vName("pw", i))})
	}
	vReach("string")
	vAssert(f.String() == refMarshal(f, ^uint(0)), "string-is-unlimited-marshal")
}

// C10 (B) — rendering the fingerprint never panics, for any record and any limit.
func VerifC10_marshal_nopanic() {
	f := &HTTP2FingerprintingFrames{WindowUpdateIncrement: vU32("wu")}
	for i, n := 0, vRange("nprio", 0, 3); i < n; i++ {
		f.Priorities = append(f.Priorities, Priority{StreamId: vU32(vName("pid", i))})
	}
	for i, n := 0, vRange("nheaders", 0, 2); i < n; i++ {
		f.Headers = append(f.Headers, HeaderField{Name: vString(vName("hname", i), vRange(vName("hlen", i), 0, 2))})
	}
	max := vUint("max")
	vReach("marshal-ran")
	vAssert(!vCatch(func() { f.Marshal(max) }), "marshal-no-panic")
}
