//go:build verif

package proxyserver

// Several connections at once through the REAL accept loop (thread mode): Server.Serve,
// serveConn, the ClientHello capture conn, the channel listener and the HTTP/1.1 conn wrapper run
// from SSA; crypto/tls, the HTTP/2 serve loop and net/http's accept loop are per-connection stubs
// that keep a connection "being served" until the harness releases it, in any order.
//
// C16: requests_total goes up by exactly one per connection, when that connection ends, with
// ok/protocol labels telling the truth - for any mixture of outcomes and any order of completion.
// C11: every connection is closed and every goroutine of it ends. C06: each connection's context
// carries its own ClientHello record.

import (
	"context"
	"crypto/tls"
	"errors"
	"io"
	"net"
	"net/http"
	"sync"
	"time"

	"github.com/prometheus/client_golang/prometheus"
	"github.com/wi1dcard/fingerproxy/pkg/http2"
	"github.com/wi1dcard/fingerproxy/pkg/metadata"
)

// outcomes of a connection
const (
	mHandshakeFails = iota // the TLS handshake fails after the ClientHello was read
	mGarbage               // the client sends something that is no TLS record
	mH2
	mHTTP1
	mNoALPN
	mOutcomes
)

type mConn struct {
	mu      sync.Mutex
	name    string
	in      []byte
	rpos    int
	closes  int
	outcome int
	gate    chan struct{} // closed by the harness: the connection's HTTP traffic is over
	// closing the TLS layer reports an error (close_notify could not be written: the peer reset the
	// connection) - the connection is closed all the same, as crypto/tls does it
	tlsCloseFails bool
	tls     *tls.Conn
}

func (c *mConn) Read(p []byte) (int, error) {
	c.mu.Lock()
	defer c.mu.Unlock()
	if c.rpos >= len(c.in) {
		return 0, io.EOF
	}
	n := copy(p, c.in[c.rpos:])
	c.rpos += n
	return n, nil
}
func (c *mConn) Write(p []byte) (int, error) { return len(p), nil }
func (c *mConn) Close() error {
	c.mu.Lock()
	defer c.mu.Unlock()
	c.closes++
	return nil
}
func (c *mConn) isClosed() bool {
	c.mu.Lock()
	defer c.mu.Unlock()
	return c.closes > 0
}
func (c *mConn) LocalAddr() net.Addr                { return mAddr("192.0.2.1:443") }
func (c *mConn) RemoteAddr() net.Addr               { return mAddr(c.name) }
func (c *mConn) SetDeadline(t time.Time) error      { return nil }
func (c *mConn) SetReadDeadline(t time.Time) error  { return nil }
func (c *mConn) SetWriteDeadline(t time.Time) error { return nil }

type mAddr string

func (mAddr) Network() string  { return "tcp" }
func (a mAddr) String() string { return string(a) }

type mListener struct {
	conns  chan net.Conn
	closed chan struct{}
	once   sync.Once
}

func (l *mListener) Accept() (net.Conn, error) {
	select {
	case c := <-l.conns:
		return c, nil
	case <-l.closed:
		return nil, errors.New("listener closed")
	}
}
func (l *mListener) Close() error   { l.once.Do(func() { close(l.closed) }); return nil }
func (l *mListener) Addr() net.Addr { return mAddr("192.0.2.1:443") }

var mm struct {
	mu     sync.Mutex
	under  map[*tls.Conn]net.Conn // what tls.Server was given (the capturing conn)
	raw    map[*tls.Conn]*mConn
	byName map[string]*mConn
	incs   []mInc
	seen   map[string]string // connection -> ClientHello record its context carried
}

type mInc struct{ ok, proto string }

func mRawOf(c net.Conn) *mConn {
	// the capturing conn reports the raw conn's remote address
	return mm.byName[c.RemoteAddr().String()]
}

//verif:replace crypto/tls.Server
func mTLSServer(c net.Conn, cfg *tls.Config) *tls.Conn {
	mm.mu.Lock()
	defer mm.mu.Unlock()
	tc := &tls.Conn{}
	mm.under[tc] = c
	mm.raw[tc] = mRawOf(c)
	mm.raw[tc].tls = tc
	return tc
}

var errMHandshake = errors.New("tls: handshake failure (stub)")

//verif:replace (*crypto/tls.Conn).HandshakeContext
func mHandshake(c *tls.Conn, ctx context.Context) error {
	u, raw := mm.under[c], mm.raw[c]
	var hdr [5]byte
	if _, err := io.ReadFull(u, hdr[:]); err != nil {
		return err
	}
	if hdr[0] != 0x16 {
		return tls.RecordHeaderError{Msg: "first record does not look like a TLS handshake", RecordHeader: hdr, Conn: u}
	}
	body := make([]byte, int(hdr[3])<<8|int(hdr[4]))
	if _, err := io.ReadFull(u, body); err != nil {
		return err
	}
	if raw.outcome == mHandshakeFails {
		return errMHandshake
	}
	return nil
}

//verif:replace (*crypto/tls.Conn).ConnectionState
func mConnectionState(c *tls.Conn) tls.ConnectionState {
	proto := map[int]string{mH2: "h2", mHTTP1: "http/1.1", mNoALPN: ""}[mm.raw[c].outcome]
	return tls.ConnectionState{NegotiatedProtocol: proto, HandshakeComplete: true}
}

//verif:replace (*crypto/tls.Conn).Close
func mTLSClose(c *tls.Conn) error {
	err := mm.under[c].Close()
	if mm.raw[c].tlsCloseFails {
		return errMTLSClose
	}
	return err
}

var errMTLSClose = errors.New("tls: failed to send closeNotify alert (but connection was closed anyway): write: connection reset by peer (stub)")

//verif:replace (*crypto/tls.Conn).RemoteAddr
func mTLSRemoteAddr(c *tls.Conn) net.Addr { return mm.under[c].RemoteAddr() }

// the HTTP/2 server: serves the connection until its traffic is over
//
//verif:replace (*github.com/wi1dcard/fingerproxy/pkg/http2.Server).ServeConn
func mH2ServeConn(s *http2.Server, c net.Conn, opts *http2.ServeConnOpts) {
	raw := mm.raw[c.(*tls.Conn)]
	if md, ok := metadata.FromContext(opts.Context); ok {
		mm.mu.Lock()
		mm.seen[raw.name] = string(md.ClientHelloRecord)
		mm.mu.Unlock()
	}
	<-raw.gate
}

// net/http's accept loop on the channel listener: every accepted connection gets its context from
// ConnContext, is served until its traffic is over, then closed (as net/http does)
//
//verif:replace (*net/http.Server).Serve
func mH1Serve(hs *http.Server, l net.Listener) error {
	for {
		c, err := l.Accept()
		if err != nil {
			return err
		}
		go func() {
			ctx := context.Background()
			if hs.ConnContext != nil {
				ctx = hs.ConnContext(ctx, c)
			}
			raw := mRawOf(c)
			if md, ok := metadata.FromContext(ctx); ok {
				mm.mu.Lock()
				mm.seen[raw.name] = string(md.ClientHelloRecord)
				mm.mu.Unlock()
			}
			<-raw.gate
			c.Close()
		}()
	}
}

//verif:replace (*net/http.Server).Shutdown
func mH1Shutdown(hs *http.Server, ctx context.Context) error { return nil }

type mCounter struct {
	prometheus.Counter
	ok, proto string
}

func (c mCounter) Inc() {
	mm.mu.Lock()
	defer mm.mu.Unlock()
	mm.incs = append(mm.incs, mInc{c.ok, c.proto})
}

//verif:replace (*github.com/prometheus/client_golang/prometheus.CounterVec).WithLabelValues
func mWithLabelValues(v *prometheus.CounterVec, lvs ...string) prometheus.Counter {
	if len(lvs) != 2 {
		vFail("metric-label-count")
		return mCounter{}
	}
	return mCounter{ok: lvs[0], proto: lvs[1]}
}

func mHello(tag byte) []byte {
	body := []byte{1, 0, 0, 2, 3, tag}
	return append([]byte{0x16, 3, 1, 0, byte(len(body))}, body...)
}

func mCountOf(ok, proto string) int {
	mm.mu.Lock()
	defer mm.mu.Unlock()
	n := 0
	for _, i := range mm.incs {
		if i.ok == ok && i.proto == proto {
			n++
		}
	}
	return n
}

func mTotal() int {
	mm.mu.Lock()
	defer mm.mu.Unlock()
	return len(mm.incs)
}

// mExploreK > 0: explored schedules instead of the three fixed policies - every schedule of the accept
// loop, the connection goroutines, the HTTP/1.1 server and the stubs' goroutines that differs from the
// base order at no more than mExploreK scheduling points (blocking operations and the moment before
// every channel operation / select / lock); the connection outcomes are then limited to
// {handshake fails, garbage, h2, http/1.1} with a clean TLS close and one completion order.
var mExploreK int

func mConcurrent(n int) {
	if mExploreK > 0 {
		vScheduleExplore(mExploreK, true)
		vScheduleBase(vRange("baseOrder", 0, 1))
	} else {
		vSchedulePolicy(vRange("schedulePolicy", 0, 2)) // thread mode, under each of the three scheduling policies
	}
	mm.under, mm.raw, mm.byName = map[*tls.Conn]net.Conn{}, map[*tls.Conn]*mConn{}, map[string]*mConn{}
	mm.incs, mm.seen = nil, map[string]string{}
	ctx, cancel := context.WithCancel(context.Background())
	server := NewServer(ctx, http.NotFoundHandler(), &tls.Config{})
	server.metricRequestsTotal = &prometheus.CounterVec{} // registered (the registry itself is prometheus' business)
	ln := &mListener{conns: make(chan net.Conn, 8), closed: make(chan struct{})}
	served := make(chan struct{})
	go func() {
		server.Serve(ln)
		close(served)
	}()
	var conns []*mConn
	for i := 0; i < n; i++ {
		c := &mConn{name: []string{"198.51.100.1:1", "198.51.100.2:2", "198.51.100.3:3"}[i], gate: make(chan struct{})}
		if mExploreK > 0 {
			c.outcome = vRange(vName("outcome", i), 0, mHTTP1)
		} else {
			c.outcome = vRange(vName("outcome", i), 0, mOutcomes-1)
		}
		c.in = mHello(byte(0xA0 + i))
		if mExploreK == 0 {
			c.tlsCloseFails = vBool(vName("tlsCloseFails", i))
		}
		if c.outcome == mGarbage {
			c.in = []byte("GET / HTTP/1.0\r\n\r\n")
		}
		mm.byName[c.name] = c
		conns = append(conns, c)
		ln.conns <- c
	}
	vYield()
	vReach("all-accepted")
	// failed connections have ended and are counted; the others are being served and are not
	wantFailed := 0
	for _, c := range conns {
		if c.outcome == mHandshakeFails || c.outcome == mGarbage {
			wantFailed++
			vAssert(c.isClosed(), "failed-connection-closed")
		} else {
			vAssert(!c.isClosed(), "served-connection-stays-open")
		}
	}
	vAssert(mTotal() == wantFailed && mCountOf("0", "") == wantFailed, "failures-counted-once-with-failure-labels")
	// the served connections finish in any order
	orders := 5
	if mExploreK > 0 {
		orders = 2 // {0,1,2} and {1,0,2}
	}
	order := [][]int{{0, 1, 2}, {1, 0, 2}, {0, 2, 1}, {1, 2, 0}, {2, 0, 1}, {2, 1, 0}}[vRange("completionOrder", 0, orders)]
	done := wantFailed
	for _, k := range order {
		if k >= n {
			continue
		}
		c := conns[k]
		if c.outcome == mHandshakeFails || c.outcome == mGarbage {
			continue
		}
		proto := map[int]string{mH2: "h2", mHTTP1: "http/1.1", mNoALPN: ""}[c.outcome]
		before := mCountOf("1", proto)
		close(c.gate)
		vYield()
		done++
		vReach("connection-completed")
		vAssert(mTotal() == done, "counted-exactly-once-when-it-ends")
		vAssert(mCountOf("1", proto) == before+1, "success-labels-tell-the-negotiated-protocol")
		vAssert(c.isClosed(), "completed-connection-closed")
		vAssert(mm.seen[c.name] == string(mHello(byte(0xA0+k))), "context-carries-this-connections-hello")
	}
	vAssert(mTotal() == n, "every-connection-counted")
	cancel()
	vYield()
	select {
	case <-served:
		vReach("server-stopped")
	default:
		vFail("serve-returns-after-context-cancelled")
	}
	vAssert(vLiveThreads() <= 1, "connection-goroutines-ended") // the internal HTTP/1.1 accept loop ends with its listener
}

func VerifC16_concurrent_schedules_quick() {
	mExploreK = 1
	mConcurrent(2)
}

func VerifC16_concurrent_schedules_thorough() {
	mExploreK = 1 // k = 2 did not finish in 15 minutes on one core
	mConcurrent(2)
}

func VerifC16_concurrent_quick()    { mConcurrent(2) }
func VerifC16_concurrent_thorough() { mConcurrent(3) }
