//go:build verif

package proxyserver

// C06 (reduced scope) — fingerprint data is attributed to the connection a request arrived on.
// In a memory-safe language a mix-up needs either two connections sharing an object or the
// fingerprint path reading state another connection writes. Two connections with different
// ClientHello records and protocols are served by the real serveConn in either order, or with
// the second connection served entirely in the middle of the first (between its capture and
// its request) - the three ways two per-connection step sequences can be ordered at the
// granularity of the repository's own code. Every request must see exactly the metadata of its
// own connection, and the two connections' metadata objects and record buffers are disjoint.
// Outside the claim: goroutine scheduling inside crypto/tls, net/http and the h2 serve loop
// (C07 covers the one object two goroutines share).

func VerifC06_two_conns() {
	server := psSetup(false, false)
	recA := []byte{0x16, 3, 1, 0, 1, vU8("helloA")}
	recB := []byte{0x16, 3, 1, 0, 1, vU8("helloB")}
	vAssume(recA[5] != recB[5])
	protos := []string{"h2", "http/1.1"}
	protoA, protoB := protos[vRange("protoA", 0, 1)], protos[vRange("protoB", 0, 1)]
	connA, connB := &psConn{name: "A"}, &psConn{name: "B"}
	run := func(c *psConn, rec []byte, proto string) {
		savedRec, savedProto, savedConn, savedTLS := ps.rec, ps.proto, ps.conn, ps.tlsConn
		ps.rec, ps.proto, ps.conn = rec, proto, c
		server.serveConn(c)
		ps.rec, ps.proto, ps.conn, ps.tlsConn = savedRec, savedProto, savedConn, savedTLS
	}
	switch vRange("schedule", 0, 2) {
	case 0:
		run(connA, recA, protoA)
		run(connB, recB, protoB)
	case 1:
		run(connB, recB, protoB)
		run(connA, recA, protoA)
	case 2:
		vReach("interleaved")
		ps.interleave = func() { run(connB, recB, protoB) }
		run(connA, recA, protoA)
	}
	if len(ps.seen) < 2 {
		return // a connection is still being served by net/http ("would block") or was not reached
	}
	vReach("two-connections-served")
	var mdA, mdB *psSeen
	for i := range ps.seen {
		s := &ps.seen[i]
		switch s.conn {
		case "A":
			mdA = s
			vAssert(s.rec == string(recA) && s.proto == protoA, "request-sees-its-own-connection")
		case "B":
			mdB = s
			vAssert(s.rec == string(recB) && s.proto == protoB, "request-sees-its-own-connection")
		default:
			vFail("request-without-connection")
		}
	}
	if mdA != nil && mdB != nil {
		vAssert(mdA.md != nil && mdB.md != nil && mdA.md != mdB.md, "metadata-objects-disjoint")
		vAssert(!vSameSlice(mdA.md.ClientHelloRecord, mdB.md.ClientHelloRecord), "record-buffers-disjoint")
	}
}

