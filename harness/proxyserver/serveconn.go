//go:build verif

package proxyserver

// Shared environment for the serveConn harnesses (C09 proto, C10, C11, C16).
// (*Server).serveConn and everything of this repository below it that is not listed here
// runs from its real SSA; the environment outside the repository (crypto/tls, the forked
// HTTP/2 serve loop, the HTTP/1.1 channel hand-off, prometheus) is replaced by stubs that
// choose their outcome nondeterministically: success, error, or - when ps.allowPanic - a panic
// (user callbacks run inside tls handshakes, the h2 serve loop and hooks).

import (
	"context"
	"crypto/tls"
	"errors"
	"net"
	"net/http"
	"time"

	"github.com/prometheus/client_golang/prometheus"
	"github.com/wi1dcard/fingerproxy/pkg/hack"
	"github.com/wi1dcard/fingerproxy/pkg/http2"
	"github.com/wi1dcard/fingerproxy/pkg/metadata"
)

var ps struct {
	allowPanic bool
	events     []string
	server     *Server
	conn       *psConn
	tlsConn    *tls.Conn
	hsCtx      context.Context
	proto      string
	incOK      string
	incProto   string
	incs       int
	h2served   bool
	h1sent     bool
	h1closed   bool
	h1refused  bool
	rec        []byte
	userSawTLS []bool
	reqTLSnil  bool
	interleave func() // runs another connection in the middle of serving this one
	seen       []psSeen
}

type psSeen struct {
	conn  string
	rec   string
	proto string
	md    *metadata.Metadata
}

func ev(s string) { ps.events = append(ps.events, s) }

func evIndex(s string) int {
	for i, e := range ps.events {
		if e == s {
			return i
		}
	}
	return -1
}

func evCount(s string) int {
	n := 0
	for _, e := range ps.events {
		if e == s {
			n++
		}
	}
	return n
}

// outcome picks 0 (ok), 1 (error) or 2 (panic, only when allowed) for a named fault point.
func outcome(point string, withErr bool) int {
	hi := 0
	if withErr {
		hi = 1
	}
	if ps.allowPanic {
		hi = 2
	}
	o := vRange("fault."+point, 0, hi)
	if o == 1 && !withErr {
		o = 2
	}
	return o
}

type psAddr struct{}

func (psAddr) Network() string { return "tcp" }
func (psAddr) String() string  { return "192.0.2.1:4711" }

type psConn struct {
	closed int
	name   string
}

func (c *psConn) Read(b []byte) (int, error)         { return 0, errors.New("psConn: read") }
func (c *psConn) Write(b []byte) (int, error)        { ev("conn.Write"); return len(b), nil }
func (c *psConn) Close() error                       { c.closed++; ev("conn.Close"); return nil }
func (c *psConn) LocalAddr() net.Addr                { return psAddr{} }
func (c *psConn) RemoteAddr() net.Addr               { return psAddr{} }
func (c *psConn) SetDeadline(t time.Time) error      { return nil }
func (c *psConn) SetReadDeadline(t time.Time) error  { return nil }
func (c *psConn) SetWriteDeadline(t time.Time) error { return nil }

var errHandshake = errors.New("tls: handshake failed (stub)")

//verif:replace crypto/tls.Server
func stubTLSServer(c net.Conn, cfg *tls.Config) *tls.Conn {
	ev("tls.Server")
	ps.tlsConn = &tls.Conn{}
	return ps.tlsConn
}

//verif:replace (*crypto/tls.Conn).HandshakeContext
func stubHandshakeContext(c *tls.Conn, ctx context.Context) error {
	ev("handshake")
	ps.hsCtx = ctx
	switch outcome("handshake", true) {
	case 1:
		switch vRange("handshake.errkind", 0, 2) {
		case 0:
			return errHandshake
		case 1:
			return context.DeadlineExceeded
		default:
			// plain HTTP sent to the TLS port
			var hdr [5]byte
			copy(hdr[:], "GET /")
			return tls.RecordHeaderError{Msg: "first record does not look like a TLS handshake", RecordHeader: hdr, Conn: ps.conn}
		}
	case 2:
		panic("panic in TLS callback (GetCertificate / GetConfigForClient / VerifyConnection)")
	}
	return nil
}

var errTLSClose = errors.New("tls: close_notify could not be written (stub)")

//verif:replace (*crypto/tls.Conn).Close
func stubTLSClose(c *tls.Conn) error {
	ev("tlsConn.Close")
	if vBool("tlsClose.fails") {
		return errTLSClose
	}
	return nil
}

//verif:replace (*crypto/tls.Conn).ConnectionState
func stubConnectionState(c *tls.Conn) tls.ConnectionState {
	ev("ConnectionState")
	return tls.ConnectionState{NegotiatedProtocol: ps.proto, HandshakeComplete: true}
}

var errNoHello = errors.New("incomplete client hello (stub)")

//verif:replace (*github.com/wi1dcard/fingerproxy/pkg/hack.HijackClientHelloConn).GetClientHello
func stubGetClientHello(c *hack.HijackClientHelloConn) ([]byte, error) {
	ev("GetClientHello")
	switch outcome("clienthello", true) {
	case 1:
		return nil, errNoHello
	case 2:
		panic("panic while reading the captured hello")
	}
	return ps.rec, nil
}

type psRW struct{ hdr http.Header }

func (w *psRW) Header() http.Header {
	if w.hdr == nil {
		w.hdr = http.Header{}
	}
	return w.hdr
}
func (w *psRW) Write(b []byte) (int, error) { return len(b), nil }
func (w *psRW) WriteHeader(int)             {}

//verif:replace (*github.com/wi1dcard/fingerproxy/pkg/http2.Server).ServeConn
func stubH2ServeConn(s *http2.Server, c net.Conn, opts *http2.ServeConnOpts) {
	ev("h2.ServeConn")
	ps.h2served = true
	if c != net.Conn(ps.tlsConn) {
		vFail("h2-serves-the-tls-conn")
	}
	// what the forked server does for a request: run the handler it was given with the
	// connection's base context; Request.TLS is nil when the client wrote ":scheme: http"
	md, ok := metadata.FromContext(opts.Context)
	vAssert(ok, "h2-context-carries-metadata")
	if ok {
		vAssert(string(md.ClientHelloRecord) == string(ps.rec), "h2-metadata-record")
		vAssert(md.ConnectionState.NegotiatedProtocol == "h2", "h2-metadata-proto")
	}
	h := opts.Handler
	if h == nil && opts.BaseConfig != nil {
		h = opts.BaseConfig.Handler
	}
	if h != nil {
		if f := ps.interleave; f != nil {
			ps.interleave = nil
			f()
		}
		r := (&http.Request{Method: "GET", Header: http.Header{}, RemoteAddr: ps.conn.name}).WithContext(opts.Context)
		if !ps.reqTLSnil {
			r.TLS = &tls.ConnectionState{NegotiatedProtocol: "h2"}
		}
		h.ServeHTTP(&psRW{}, r)
	}
	switch outcome("h2serve", false) {
	case 2:
		panic("panic on the HTTP/2 serve loop (ConnState hook / internal error)")
	}
	ev("h2.ServeConn.returned")
}

//verif:replace (*github.com/wi1dcard/fingerproxy/pkg/hack.ChannelListener).SendToChannel
func stubSendToChannel(ln *hack.ChannelListener, c net.Conn) bool {
	ev("h1.Send")
	ps.h1sent = true
	if outcome("h1send", false) == 2 {
		panic("panic in the HTTP/1.1 hand-off")
	}
	if vBool("h1.listenerClosed") {
		// the internal HTTP/1.1 server stopped accepting (shutdown): the connection is not handed
		// over and stays the caller's to release (D15)
		ev("h1.SendRefused")
		ps.h1refused = true
		return false
	}
	// net/http accepts the conn, derives the connection context with ConnContext, serves
	// requests (Request.TLS is set iff the conn's dynamic type is *tls.Conn) and finally
	// closes the conn. "served" false models a connection that is still open.
	hs := ps.server.HTTPServer
	ctx := context.Background()
	if hs.ConnContext != nil {
		ctx = hs.ConnContext(ctx, c)
	}
	if md, ok := metadata.FromContext(ctx); ok {
		vAssert(string(md.ClientHelloRecord) == string(ps.rec), "h1-metadata-record")
	} else {
		vFail("h1-context-carries-metadata")
	}
	if hs.Handler != nil {
		if f := ps.interleave; f != nil {
			ps.interleave = nil
			f()
		}
		r := (&http.Request{Method: "GET", Header: http.Header{}, RemoteAddr: ps.conn.name}).WithContext(ctx)
		if tc, ok := c.(*tls.Conn); ok {
			cs := tc.ConnectionState()
			r.TLS = &cs
		}
		hs.Handler.ServeHTTP(&psRW{}, r)
	}
	if vBool("h1.served") {
		ev("h1.netHTTPClosesConn")
		c.Close()
		ps.h1closed = true
	}
	return true
}

type psCounter struct {
	prometheus.Counter
}

func (psCounter) Inc() {
	ev("Inc")
	ps.incs++
}

//verif:replace (*github.com/prometheus/client_golang/prometheus.CounterVec).WithLabelValues
func stubWithLabelValues(v *prometheus.CounterVec, lvs ...string) prometheus.Counter {
	if len(lvs) == 2 {
		ps.incOK, ps.incProto = lvs[0], lvs[1]
	} else {
		vFail("metric-label-count")
	}
	return psCounter{}
}

type psUserHandler struct{}

func (psUserHandler) ServeHTTP(w http.ResponseWriter, r *http.Request) {
	ev("user.handler")
	ps.userSawTLS = append(ps.userSawTLS, r.TLS != nil)
	if md, ok := metadata.FromContext(r.Context()); ok {
		ps.seen = append(ps.seen, psSeen{conn: r.RemoteAddr, rec: string(md.ClientHelloRecord), proto: md.ConnectionState.NegotiatedProtocol, md: md})
	} else {
		ps.seen = append(ps.seen, psSeen{conn: r.RemoteAddr})
	}
}

// psSetup builds a Server the way NewServer + setupServe do and resets the recorder.
func psSetup(allowPanic bool, metrics bool) *Server {
	ps.allowPanic = allowPanic
	ps.events = nil
	ps.incs, ps.incOK, ps.incProto = 0, "", ""
	ps.h2served, ps.h1sent, ps.h1closed, ps.h1refused = false, false, false, false
	ps.userSawTLS = nil
	ps.tlsConn = nil
	ps.hsCtx = nil
	ps.reqTLSnil = false
	ps.interleave = nil
	ps.seen = nil
	ps.conn = &psConn{name: "192.0.2.1:4711"}
	ps.rec = []byte{0x16, 0x03, 0x01, 0x00, 0x01, vU8("rec5")}
	server := NewServer(context.Background(), psUserHandler{}, &tls.Config{})
	if metrics {
		server.metricRequestsTotal = &prometheus.CounterVec{}
	}
	server.setupServe()
	ps.server = server
	return server
}

func psProto() {
	switch vRange("alpn", 0, 2) {
	case 0:
		ps.proto = "h2"
	case 1:
		ps.proto = "http/1.1"
	default:
		ps.proto = ""
	}
}
