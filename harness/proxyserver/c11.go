//go:build verif

package proxyserver

// C11 — resources are released on every path of serveConn; the handshake runs under the
// configured timeout.

import (
	"context"
	"time"

	"github.com/wi1dcard/fingerproxy/pkg/hack"
)

func VerifC11_close_all_paths() {
	server := psSetup(true, true)
	psProto()
	vCatch(func() { server.serveConn(ps.conn) })
	vReach("ended")
	vAssert(ps.conn.closed >= 1, "accepted-conn-closed")
	if evIndex("tls.Server") >= 0 {
		vAssert(evCount("tlsConn.Close") >= 1, "tls-conn-closed")
	}
	if ps.h1sent && ps.h1closed {
		vReach("h1-served")
	}
	if ps.h1refused {
		vReach("h1-hand-over-refused") // D15: serveConn must not wait for a server that no longer accepts
	}
}

// The HTTP/1.1 wrapper conn: closing it fires Done (which lets serveConn finish) and closes the TLS conn.
func VerifC11_h1_wrapper_close() {
	psSetup(false, false)
	fired := 0
	c := &tlsClientHelloConnForTest
	c.Done = func() { fired++ }
	c.Conn = stubTLSServer(ps.conn, nil)
	c.Close()
	vReach("wrapper-closed")
	vAssert(fired == 1, "close-fires-done")
	vAssert(evCount("tlsConn.Close") == 1, "close-closes-tls-conn")
}

var tlsClientHelloConnForTest hack.TLSClientHelloConn

type ctxKeyProbe struct{}

// tlsHandshakeWithTimeout: T != 0 => the handshake context is derived from server.ctx and
// carries the timeout T; T == 0 => it is server.ctx itself.
func VerifC11_handshake_deadline() {
	psSetup(false, false)
	parent := context.WithValue(context.Background(), ctxKeyProbe{}, "server-ctx")
	s := NewServer(parent, psUserHandler{}, nil)
	s.setupServe()
	ps.server = s
	T := time.Duration(vI64("handshakeTimeout"))
	vAssume(T >= 0)
	s.TLSHandshakeTimeout = T
	tc := stubTLSServer(ps.conn, nil)
	s.tlsHandshakeWithTimeout(tc)
	ctx := ps.hsCtx
	vAssert(ctx != nil && ctx.Value(ctxKeyProbe{}) == "server-ctx", "handshake-ctx-derives-from-server-ctx")
	d, has := vCtxTimeout(ctx)
	if T == 0 {
		vReach("no-timeout")
		vAssert(!has, "zero-means-no-deadline")
	} else {
		vReach("timeout")
		vAssert(has, "handshake-has-deadline")
		vAssert(d == int64(T), "deadline-is-configured-timeout")
	}
	// cancelling the server context cancels a pending handshake
	s.ctxCancel()
	vAssert(ctx.Err() != nil, "server-cancel-reaches-handshake")
}
