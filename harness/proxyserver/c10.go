//go:build verif

package proxyserver

import "time"

// C10 (A) — containment: a failure or a panic raised while serving one connection - in a TLS
// callback, in the capture, on the HTTP/2 serve loop, in the HTTP/1.1 hand-off - never escapes
// the connection goroutine (an escaping panic terminates the Go process).

func VerifC10_contain() {
	server := psSetup(true, true)
	psProto()
	server.VerboseLogs = vBool("verbose")
	if vBool("handshakeTimeoutSet") {
		server.TLSHandshakeTimeout = 10 * time.Second
	}
	// goroutines the code under test starts for this connection are run when it blocks; a panic
	// escaping one of them is not stopped by any recover on the connection goroutine
	vSchedule()
	escaped := vCatch(func() { server.serveConn(ps.conn) })
	vReach("connection-goroutine-ended")
	if evIndex("h2.ServeConn") >= 0 && evIndex("h2.ServeConn.returned") < 0 {
		vReach("panic-on-h2-serve-loop")
	}
	vAssert(!escaped, "panic-confined-to-connection")
	// whatever happened, the accepted connection is closed (C11 shares this)
	vAssert(ps.conn.closed >= 1, "conn-closed-on-every-path")
}
