//go:build verif

package proxyserver

// C16 — requests_total counts every connection exactly once, with true labels, when it ends.
// Path-complete: serveConn is loop-free; every outcome of every environment call is explored.

func VerifC16_count() {
	server := psSetup(false, true)
	psProto()
	server.VerboseLogs = vBool("verbose")
	server.serveConn(ps.conn)
	// reaching this point means the connection ended (a connection still being served by
	// net/http blocks on <-ctx.Done(): that path ends as "would block", by design)
	vReach("connection-ended")
	vAssert(ps.incs == 1, "counted-exactly-once")
	failed := evIndex("h2.ServeConn") < 0 && evIndex("h1.Send") < 0
	if failed {
		vReach("counted-failure")
		vAssert(ps.incOK == "0" && ps.incProto == "", "failure-labels")
	} else {
		vReach("counted-success")
		vAssert(ps.incOK == "1" && ps.incProto == ps.proto, "success-labels")
		// counted when the connection ends, not before
		if ps.h2served {
			vAssert(evIndex("Inc") > evIndex("h2.ServeConn.returned"), "counted-after-h2-served")
		} else if ps.h1refused {
			// the HTTP/1.1 server had stopped accepting: handshake and capture succeeded, nobody served it
			vReach("h1-hand-over-refused")
			vAssert(evIndex("Inc") > evIndex("h1.SendRefused"), "counted-after-hand-over-refused")
		} else {
			vAssert(ps.h1closed && evIndex("Inc") > evIndex("h1.netHTTPClosesConn"), "counted-after-h1-served")
		}
	}
	// h2 is served directly iff h2 was negotiated
	vAssert(ps.h2served == (!failed && ps.proto == "h2"), "h2-iff-negotiated")
}

// Without a registry no metric call happens and nothing panics.
func VerifC16_nometrics() {
	server := psSetup(false, false)
	psProto()
	server.serveConn(ps.conn)
	vReach("no-registry")
	vAssert(ps.incs == 0, "no-registry-no-count")
}
