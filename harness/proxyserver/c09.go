//go:build verif

package proxyserver

// C09 (part 2) — every request handed to the user's handler through proxyserver has
// Request.TLS != nil (so that SetXForwarded says "https"), on HTTP/1.1 as on HTTP/2,
// including HTTP/2 requests whose :scheme pseudo-header says "http".
// The hand-off stubs model net/http (TLS set iff the conn is a *tls.Conn) and the forked
// HTTP/2 server (TLS nil when :scheme is http); the handler they call is whatever
// proxyserver installed, so the obligation is independent of how a repair is written.

func VerifC09_proto() {
	server := psSetup(false, false)
	psProto()
	ps.reqTLSnil = vBool("h2.schemeHTTP")
	server.serveConn(ps.conn)
	if len(ps.userSawTLS) == 0 {
		return
	}
	if ps.h2served {
		vReach("h2-request")
	} else {
		vReach("h1-request")
	}
	for _, saw := range ps.userSawTLS {
		vAssert(saw, "request-tls-state-present")
	}
}
