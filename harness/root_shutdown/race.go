//go:build verif

package fingerproxy

// C17 / C11: the cancellation arrives WHILE a connection is on its way in - anywhere between its
// accept, its TLS handshake, the hand-over to the HTTP/1.1 server or the start of the HTTP/2 serve
// loop. The canceller is a goroutine of its own and the schedule is explored (vScheduleExplore):
// every schedule that differs from lowest-numbered-first at no more than k scheduling points, the
// points being every blocking operation and the moment before every channel operation / lock.
// Whatever the order: Serve returns "server closed" within the few seconds of Shutdown's polling,
// the listener is closed, and the connection is closed and all its goroutines end (at the latest
// when the client, seeing no service, goes away).

import (
	"context"
	"crypto/tls"
	"net/http"
	"net/url"
)

func shCancelRace(k int) {
	vScheduleExplore(k, true)
	// choice 0 follows either order: under "lowest-numbered first" the cancellation takes effect before
	// the connection gets anywhere, under "most recently started first" the connection gets as far as it
	// can before the cancellation does anything; the deviations move the cancellation in between
	vScheduleBase(vRange("baseOrder", 0, 1))
	flagPreserveHost, flagEnableKubernetesProbe, flagVerboseLogs = e2eBoolp(false), e2eBoolp(false), e2eBoolp(false)
	flagTimeoutHTTPIdle, flagTimeoutHTTPRead, flagTimeoutHTTPWrite, flagTimeoutTLSHandshake = e2eStrp("3m"), e2eStrp("0"), e2eStrp("0"), e2eStrp("10s")
	flagReverseProxyFlushInterval = e2eStrp("100ms")
	flagMaxHTTP2PriorityFrames = nil
	http.DefaultTransport = &http.Transport{}
	handler := defaultReverseProxyHTTPHandler(&url.URL{Scheme: "http", Host: "backend.internal:8080"}, DefaultHeaderInjectors())
	ctx, cancel := context.WithCancel(context.Background())
	srv := defaultProxyServer(ctx, handler, &tls.Config{})
	srv.MetricsRegistry = nil
	e2eBackend.n, e2eBackend.status, e2eBackend.respBody = 0, 200, []byte("ok")
	shBackendGate = nil
	ln := newE2EListener()
	var serveErr error
	served := make(chan struct{})
	go func() {
		serveErr = srv.Serve(ln)
		close(served)
	}()
	vYield() // the server is up: accept loop and HTTP/1.1 server wait for connections
	c := newE2EConn()
	c.name = "198.51.100.1:1"
	if vBool("clientSpeaksHTTP2") {
		e2eProtoByAddr[c.name] = "h2"
		c.feed(shHello(), []byte("PRI * HTTP/2.0\r\n\r\nSM\r\n\r\n"), e2eFrame(4, 0, 0))
	} else {
		e2eProtoByAddr[c.name] = "http/1.1"
		c.feed(shHello(), []byte("GET /x HTTP/1.1\r\nHost: front.example\r\n\r\n"))
	}
	ln.conns <- c
	go cancel() // the signal: at any moment from here on
	vYield()
	shTimePasses(3)
	vReach("cancelled-while-connection-arrives")
	if len(c.written()) > 0 {
		vReach("connection-answered-before-the-cancellation-took-effect")
	} else {
		vReach("connection-dropped-by-the-cancellation")
	}
	if e2eBackend.n > 0 {
		vReach("request-forwarded-before-the-cancellation-took-effect")
	}
	select {
	case <-served:
		vAssert(serveErr == http.ErrServerClosed, "serve-returns-server-closed")
	default:
		vFail("serve-returns-once-drained")
	}
	select {
	case <-ln.closed:
	default:
		vFail("listening-socket-closed")
	}
	// the client gives up
	c.hangup()
	vYield()
	shTimePasses(2)
	vAssert(c.closed(), "connection-closed-whenever-the-cancellation-arrives")
	vAssert(vLiveThreads() == 0, "no-goroutine-left-behind-whenever-the-cancellation-arrives")
}

func VerifC17_cancel_race_quick()    { shCancelRace(2) }
func VerifC17_cancel_race_thorough() { shCancelRace(2) } // k = 3 did not finish in 15 minutes on one core
