//go:build verif

package fingerproxy

// net/http's server runs from SSA here: it needs its package state
//
//verif:init net/http

// End to end on the real stack, HTTP/1.1 client: as harness/root_e2e, but the stubbed handshake
// negotiates http/1.1, so the connection goes through the channel listener to the REAL net/http
// server (run from SSA, package initialiser included), the conn wrapper, updateConnContext and
// tlsStateHandler, and on to the same reverse proxy. Stubs: crypto/tls and the backend only.

import (
	"bytes"
	"context"
	"crypto/tls"
	"hash"
	"io"
	"net"
	"net/http"
	"time"
)

var e2eUnder = map[*tls.Conn]net.Conn{}

// the protocol each connection negotiates (chosen by the harness per client address)
var e2eProto = map[*tls.Conn]string{}
var e2eProtoByAddr = map[string]string{}

//verif:replace crypto/tls.Server
func e2eTLSServer(c net.Conn, cfg *tls.Config) *tls.Conn {
	tc := &tls.Conn{}
	e2eUnder[tc] = c
	return tc
}

// the handshake: reads one TLS record (the ClientHello) through the conn it was given - the real
// capturing conn - and succeeds
//
//verif:replace (*crypto/tls.Conn).HandshakeContext
func e2eHandshake(c *tls.Conn, ctx context.Context) (ret error) {
	u := e2eUnder[c]
	// as crypto/tls does: while the handshake runs, cancellation of its context closes the connection
	// and becomes the handshake's error
	done := make(chan struct{})
	interrupted := make(chan error, 1)
	defer func() {
		close(done)
		if err := <-interrupted; err != nil {
			ret = err
		}
	}()
	go func() {
		select {
		case <-ctx.Done():
			u.Close()
			interrupted <- ctx.Err()
		case <-done:
			interrupted <- nil
		}
	}()
	var hdr [5]byte
	if _, err := io.ReadFull(u, hdr[:]); err != nil {
		return err
	}
	body := make([]byte, int(hdr[3])<<8|int(hdr[4]))
	if _, err := io.ReadFull(u, body); err != nil {
		return err
	}
	e2eProto[c] = e2eProtoByAddr[u.RemoteAddr().String()]
	return nil
}

//verif:replace (*crypto/tls.Conn).ConnectionState
func e2eConnectionState(c *tls.Conn) tls.ConnectionState {
	return tls.ConnectionState{NegotiatedProtocol: e2eProto[c], Version: tls.VersionTLS13, CipherSuite: tls.TLS_AES_128_GCM_SHA256, HandshakeComplete: true, ServerName: "front.example"}
}

//verif:replace (*crypto/tls.Conn).Read
func e2eTLSRead(c *tls.Conn, p []byte) (int, error) { return e2eUnder[c].Read(p) }

//verif:replace (*crypto/tls.Conn).Write
func e2eTLSWrite(c *tls.Conn, p []byte) (int, error) { return e2eUnder[c].Write(p) }

//verif:replace (*crypto/tls.Conn).Close
func e2eTLSClose(c *tls.Conn) error { return e2eUnder[c].Close() }

//verif:replace (*crypto/tls.Conn).RemoteAddr
func e2eTLSRemoteAddr(c *tls.Conn) net.Addr { return e2eUnder[c].RemoteAddr() }

//verif:replace (*crypto/tls.Conn).LocalAddr
func e2eTLSLocalAddr(c *tls.Conn) net.Addr { return e2eUnder[c].LocalAddr() }

//verif:replace (*crypto/tls.Conn).SetDeadline
func e2eTLSSetDeadline(c *tls.Conn, t time.Time) error { return e2eUnder[c].SetDeadline(t) }

//verif:replace (*crypto/tls.Conn).SetReadDeadline
func e2eTLSSetReadDeadline(c *tls.Conn, t time.Time) error { return e2eUnder[c].SetReadDeadline(t) }

//verif:replace (*crypto/tls.Conn).SetWriteDeadline
func e2eTLSSetWriteDeadline(c *tls.Conn, t time.Time) error { return nil }

//verif:replace (*net/http.Transport).Clone
func e2eTransportClone(t *http.Transport) *http.Transport { return &http.Transport{} }

var e2eBackend struct {
	n        int
	method   string
	url      string
	host     string
	header   http.Header
	body     []byte
	status   int
	respBody []byte
}

// the backend
//
//verif:replace (*net/http.Transport).RoundTrip
func e2eRoundTrip(t *http.Transport, r *http.Request) (*http.Response, error) {
	if g := shBackendGate; g != nil {
		<-g // the backend takes its time: the exchange is in flight
	}
	e2eBackend.n++
	e2eBackend.method, e2eBackend.url, e2eBackend.host = r.Method, r.URL.String(), r.Host
	e2eBackend.header = r.Header.Clone()
	if r.Body != nil {
		e2eBackend.body, _ = io.ReadAll(r.Body)
	}
	h := http.Header{}
	h.Set("X-Backend", "b1")
	h.Set("Content-Type", "application/x-verif") // otherwise the h2 server sniffs the (symbolic) body
	h.Add("Set-Cookie", "a=1")
	h.Add("Set-Cookie", "b=2")
	return &http.Response{StatusCode: e2eBackend.status, ProtoMajor: 1, ProtoMinor: 1, Header: h,
		Body: io.NopCloser(bytes.NewReader(e2eBackend.respBody)), ContentLength: int64(len(e2eBackend.respBody)), Request: r}, nil
}

type e2eHash struct{ data []byte }

func (h *e2eHash) Write(p []byte) (int, error) { h.data = append(h.data, p...); return len(p), nil }
func (h *e2eHash) Sum(b []byte) []byte         { return append(b, vHash("sha256", h.data, 32)...) }
func (h *e2eHash) Reset()                      { h.data = nil }
func (h *e2eHash) Size() int                   { return 32 }
func (h *e2eHash) BlockSize() int              { return 64 }

//verif:replace crypto/sha256.New
func e2eNewSHA256() hash.Hash { return &e2eHash{} }

func e2eStrp(s string) *string { return &s }
func e2eBoolp(b bool) *bool    { return &b }
