//go:build verif

package fingerproxy

// C17 on the real stack (thread mode): the proxy as Run builds it, its accept loop, the internal
// net/http server INCLUDING its Shutdown (poll timers fired by the harness), the channel listener.
// One or two connections are brought into a state - mid-handshake, HTTP/1.1 idle after a request,
// HTTP/1.1 with an exchange in flight (the backend has not answered), HTTP/2 open and idle - then
// the server's context is cancelled (once or twice, or before Serve is even called).

import (
	"context"
	"crypto/tls"
	"net/http"
	"net/url"
	"time"
)

const (
	shNone = iota
	shMidHandshake
	shH1Idle
	shH1InFlight
	shH2Idle
	shStates
)

var shBackendGate chan struct{}

func shHello() []byte {
	hb := append([]byte{3, 3}, make([]byte, 32)...)
	hb = append(hb, 0, 0, 2, 0x13, 0x01, 1, 0)
	hs := append([]byte{1, 0, 0, byte(len(hb))}, hb...)
	return append([]byte{0x16, 3, 1, 0, byte(len(hs))}, hs...)
}

func shBring(ln *e2eListener, name string, state int) *e2eConn {
	if state == shNone {
		return nil
	}
	c := newE2EConn()
	c.name = name
	rec := shHello()
	switch state {
	case shMidHandshake:
		e2eProtoByAddr[name] = "http/1.1"
		c.feed(rec[:20])
	case shH1Idle, shH1InFlight:
		e2eProtoByAddr[name] = "http/1.1"
		c.feed(rec, []byte("GET /x HTTP/1.1\r\nHost: front.example\r\n\r\n"))
	case shH2Idle:
		e2eProtoByAddr[name] = "h2"
		c.feed(rec, []byte("PRI * HTTP/2.0\r\n\r\nSM\r\n\r\n"), e2eFrame(4, 0, 0))
	}
	ln.conns <- c
	return c
}

// a few seconds pass: every armed timer of at most 5 s expires (Shutdown's poll timer, the HTTP/2
// server's 1 s / 2 s timers) - not the minutes-long idle timers
func shTimePasses(rounds int) {
	for r := 0; r < rounds; r++ {
		for k := 0; k < vTimerCount(); k++ {
			if vTimerArmed(k) && vTimerNanos(k) <= int64(5*time.Second) {
				vTimerFire(k)
			}
		}
		vYield()
	}
}

// nothing was written to the client: no handshake completed, no protocol spoken
func (c *e2eConn) unanswered() bool {
	c.mu.Lock()
	defer c.mu.Unlock()
	return len(c.out) == 0
}

func VerifC17_shutdown() {
	vSchedulePolicy(vRange("schedulePolicy", 0, 2)) // thread mode, under each of the three scheduling policies
	flagPreserveHost, flagEnableKubernetesProbe, flagVerboseLogs = e2eBoolp(false), e2eBoolp(false), e2eBoolp(false)
	flagTimeoutHTTPIdle, flagTimeoutHTTPRead, flagTimeoutHTTPWrite, flagTimeoutTLSHandshake = e2eStrp("3m"), e2eStrp("0"), e2eStrp("0"), e2eStrp("10s")
	flagReverseProxyFlushInterval = e2eStrp("100ms")
	flagMaxHTTP2PriorityFrames = nil
	http.DefaultTransport = &http.Transport{}
	handler := defaultReverseProxyHTTPHandler(&url.URL{Scheme: "http", Host: "backend.internal:8080"}, DefaultHeaderInjectors())
	ctx, cancel := context.WithCancel(context.Background())
	srv := defaultProxyServer(ctx, handler, &tls.Config{})
	srv.MetricsRegistry = nil
	e2eBackend.n, e2eBackend.status, e2eBackend.respBody = 0, 200, []byte("ok")
	shBackendGate = nil
	ln := newE2EListener()
	var serveErr error
	served := make(chan struct{})
	returned := func() bool {
		select {
		case <-served:
			return true
		default:
			return false
		}
	}
	early := vBool("cancelBeforeServe")
	if early {
		cancel()
	}
	go func() {
		serveErr = srv.Serve(ln)
		close(served)
	}()
	s1, s2 := shNone, shNone
	var c1, c2 *e2eConn
	if !early {
		s1 = vRange("conn1", 0, shStates-1)
		s2 = vRange("conn2", 0, shStates-1)
		if s1 == shH1InFlight || s2 == shH1InFlight {
			shBackendGate = make(chan struct{})
		}
		c1 = shBring(ln, "198.51.100.1:1", s1)
		c2 = shBring(ln, "198.51.100.2:2", s2)
		vYield()
		vAssert(!returned(), "serving-until-cancelled")
		cancel()
		if vBool("cancelTwice") {
			cancel()
		}
	}
	vYield()
	shTimePasses(3)
	vReach("cancelled")
	inFlight := s1 == shH1InFlight || s2 == shH1InFlight
	// ---- a connection attempted after the cancellation is not served
	late := newE2EConn()
	late.name = "198.51.100.3:3"
	e2eProtoByAddr[late.name] = "h2"
	late.feed(shHello(), []byte("PRI * HTTP/2.0\r\n\r\nSM\r\n\r\n"), e2eFrame(4, 0, 0))
	ln.conns <- late
	vYield()
	shTimePasses(1)
	vAssert(late.unanswered(), "connection-attempted-after-cancellation-not-served")
	if inFlight {
		vReach("exchange-in-flight-at-cancellation")
		close(shBackendGate) // the backend answers: the exchange completes
		vYield()
		shTimePasses(3)
	}
	// ---- no exchange in flight (any more): Serve has returned "server closed", the listener is closed,
	// idle HTTP/1.1 connections are closed
	vReach("drained")
	vAssert(returned(), "serve-returns-once-drained")
	if returned() {
		vAssert(serveErr == http.ErrServerClosed, "serve-returns-server-closed")
	}
	select {
	case <-ln.closed:
	default:
		vFail("listening-socket-closed")
	}
	for i, st := range []int{s1, s2} {
		c := []*e2eConn{c1, c2}[i]
		if st == shH1Idle || st == shH1InFlight {
			vAssert(c.closed(), "http1-connection-closed-after-drain")
		}
	}
	if inFlight {
		vAssert(e2eBackend.n >= 1, "in-flight-exchange-was-completed-not-cut")
	}
}
