//go:build verif

package http2

// C12 on the wire, receive side: a client-side ledger of the connection window. Over a history of
// requests whose bodies (with or without padding) are read by the handler, ignored by it, or cut
// short by the client's RST_STREAM, the credit the server has not handed back - window advertised
// at the start minus window currently open to the client - stays below 4096 bytes once the
// connection is quiet: nothing leaks, however the bodies ended.

import (
	"io"
	"net/http"
	"sync/atomic"
)

var svFate [4]int // 0 handler reads the body, 1 ignores it, 2 client resets the stream and a handler that was busy drains it afterwards, 3 handler reads one byte
var svReqSeq int32

func svCreditHandler(w http.ResponseWriter, r *http.Request) {
	k := int(atomic.AddInt32(&svReqSeq, 1)) - 1
	switch svFate[k] {
	case 0:
		io.Copy(io.Discard, r.Body)
	case 3: // reads one byte and gives up
		var one [1]byte
		r.Body.Read(one[:])
	case 2:
		// busy elsewhere (a reverse proxy dialling its backend) until the request is cancelled, then
		// it drains what is there, as io.Copy / httputil.ReverseProxy do
		<-r.Context().Done()
		io.Copy(io.Discard, r.Body)
	}
	w.WriteHeader(204)
}

func svConnCredit(out []byte) (sum int64) {
	recs, _ := svParse(out)
	for _, f := range recs {
		if f.typ == FrameWindowUpdate && f.id == 0 {
			sum += int64(uint32(f.payload[0])<<24 | uint32(f.payload[1])<<16 | uint32(f.payload[2])<<8 | uint32(f.payload[3]))
		}
	}
	return
}

func svCredit(requests int, lens []int) {
	atomic.StoreInt32(&svReqSeq, 0)
	s := svStart(&Server{}, &http.Server{}, http.HandlerFunc(svCreditHandler))
	s.c.feed([]byte(ClientPreface), svFrame(FrameSettings, 0, 0))
	vYield()
	advertised := 65535 + svConnCredit(s.c.written()) // what the server let the client send at the start
	vAssert(advertised == 1<<20, "initial-connection-window-as-configured")
	sent := int64(0)
	for i := 0; i < requests; i++ {
		id := uint32(2*i + 1)
		L := lens[vRange(vName("len", i), 0, len(lens)-1)]
		fate := vRange(vName("fate", i), 0, 3)
		svFate[i] = fate
		padded := vBool(vName("padded", i))
		s.c.feed(svFrame(FrameHeaders, FlagHeadersEndHeaders, id, svReqBlock(true)...))
		payload := make([]byte, L)
		fl := FlagDataEndStream
		if fate == 2 {
			fl = 0
		}
		if padded {
			payload = append(append([]byte{7}, payload...), make([]byte, 7)...)
			fl |= FlagDataPadded
		}
		s.c.feed(svFrame(FrameData, fl, id, payload...))
		sent += int64(len(payload))
		if fate == 2 {
			s.c.feed(svFrame(FrameRSTStream, 0, id, svU32(uint32(ErrCodeCancel))...))
		}
		vYield()
	}
	vReach("history-done")
	open := 65535 + svConnCredit(s.c.written()) - sent // window currently open to the client
	unreturned := advertised - open
	vAssert(unreturned >= 0, "never-more-credit-than-advertised")
	vAssert(unreturned < 4096, "unreturned-credit-below-fixed-bound")
	r := svCollect(s.c.written(), 1)
	vAssert(!r.goaway, "legal-history-draws-no-connection-error")
	s.c.hangup()
	svFinish(s)
}

func VerifC12_serve_credit_quick()    { svCredit(2, []int{0, 1, 4096, 9000}) }
func VerifC12_serve_credit_thorough() { svCredit(3, []int{0, 1, 4095, 4096, 9000}) }
