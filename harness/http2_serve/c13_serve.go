//go:build verif

package http2

// C13 on the real HTTP/2 server loop, multi-step and on the wire: a sequence of client frames
// (every one of an alphabet of 20 frames, legal and illegal, on streams 0..3) is fed one frame at
// a time to the real server; after each frame what the server put on the wire (RST_STREAM,
// GOAWAY) and how many handlers it started is compared with a reference model of the RFC
// 7540/9113 stream states. Handlers block until the end, so streams stay in the state the
// client's frames put them in.

import (
	"net/http"
	"sync/atomic"
)

const (
	mIdle = iota
	mOpen
	mHCR // half-closed (remote)
	mClosed
)

type svModel struct {
	st      [4]int // by stream id (1 and 3 used)
	maxID   uint32
	started int
	dead    bool // a connection error was sent
	grace   bool // graceful shutdown under way
	acks    int  // SETTINGS acks the server still expects
}

type svReact struct {
	rst     map[uint32]ErrCode
	goaway  bool
	code    ErrCode
	lastID  uint32
	pingAck int
	setAck  int
}

func svReaction(out []byte, from int) (r svReact, n int) {
	recs, _ := svParse(out)
	r.rst = map[uint32]ErrCode{}
	for _, f := range recs[from:] {
		switch f.typ {
		case FrameRSTStream:
			r.rst[f.id] = ErrCode(uint32(f.payload[0])<<24 | uint32(f.payload[1])<<16 | uint32(f.payload[2])<<8 | uint32(f.payload[3]))
		case FrameGoAway:
			c := ErrCode(uint32(f.payload[4])<<24 | uint32(f.payload[5])<<16 | uint32(f.payload[6])<<8 | uint32(f.payload[7]))
			if c != ErrCodeNo || !r.goaway {
				r.goaway, r.code = true, c
				r.lastID = (uint32(f.payload[0])<<24 | uint32(f.payload[1])<<16 | uint32(f.payload[2])<<8 | uint32(f.payload[3])) & 0x7fffffff
			}
		case FramePing:
			if f.flags&FlagPingAck != 0 {
				r.pingAck++
			}
		case FrameSettings:
			if f.flags&FlagSettingsAck != 0 {
				r.setAck++
			}
		}
	}
	return r, len(recs)
}

const svLetters = 20

func svLetter(k int) (frame []byte, sid uint32) {
	req := svReqBlock(false)
	switch k {
	case 0:
		return svFrame(FrameHeaders, FlagHeadersEndHeaders|FlagHeadersEndStream, 1, req...), 1
	case 1:
		return svFrame(FrameHeaders, FlagHeadersEndHeaders, 1, svReqBlock(true)...), 1
	case 2:
		return svFrame(FrameHeaders, FlagHeadersEndHeaders|FlagHeadersEndStream, 3, req...), 3
	case 3:
		return svFrame(FrameData, 0, 1, 'x'), 1
	case 4:
		return svFrame(FrameData, FlagDataEndStream, 1, 'y'), 1
	case 5:
		return svFrame(FrameRSTStream, 0, 1, svU32(uint32(ErrCodeCancel))...), 1
	case 6:
		return svFrame(FrameWindowUpdate, 0, 1, svU32(1)...), 1
	case 7:
		return svFrame(FrameWindowUpdate, 0, 0, svU32(1)...), 0
	case 8:
		return svFrame(FramePriority, 0, 1, 0, 0, 0, 0, 9), 1
	case 9:
		return svFrame(FramePing, 0, 0, 1, 2, 3, 4, 5, 6, 7, 8), 0
	case 10: // trailers: a regular field only (literal without indexing, new name "x-t": "1"), END_STREAM
		return svFrame(FrameHeaders, FlagHeadersEndHeaders|FlagHeadersEndStream, 1, 0x00, 3, 'x', '-', 't', 1, '1'), 1
	case 11:
		return svFrame(FrameHeaders, FlagHeadersEndHeaders|FlagHeadersEndStream, 2, req...), 2
	case 12:
		return svFrame(FrameData, 0, 3, 'z'), 3
	case 13:
		return svFrame(FrameWindowUpdate, 0, 1, svU32(0)...), 1
	case 14:
		return svFrame(FrameSettings, FlagSettingsAck, 0), 0
	case 15:
		return svFrame(FrameContinuation, FlagContinuationEndHeaders, 1, req...), 1
	case 16:
		return svFrame(FramePushPromise, FlagPushPromiseEndHeaders, 1, 0, 0, 0, 2), 1
	case 17:
		return svFrame(FrameType(0x42), 0, 1, 9, 9), 1
	case 18:
		return svFrame(FrameGoAway, 0, 0, append(svU32(0), svU32(0)...)...), 0
	case 19: // a request that declares a body of 3 bytes (content-length: literal with indexed name 28)
		return svFrame(FrameHeaders, FlagHeadersEndHeaders, 1, append(svReqBlock(true), 0x0f, 0x0d, 1, '3')...), 1
	}
	return nil, 0
}

// svExpect advances the reference model by letter k and reports what the RFC allows as a reaction:
// none, a stream error with one of two codes (a connection error with the same code is accepted in
// its place), or a connection error.
func (m *svModel) expect(k int) (wantNone bool, seCodes []ErrCode, ceCodes []ErrCode, startsHandler bool, unclaimed bool) {
	_, sid := svLetter(k)
	idle := func(id uint32) bool { return m.st[id] == mIdle && id > m.maxID }
	implicitClose := func(id uint32) { // opening a higher stream closes lower idle ones
		for j := uint32(1); j < id; j += 2 {
			if m.st[j] == mIdle {
				m.st[j] = mClosed
			}
		}
	}
	proto, closed := []ErrCode{ErrCodeProtocol}, []ErrCode{ErrCodeStreamClosed}
	if m.grace && sid != 0 && sid > m.maxID {
		// RFC 9113 6.8: after GOAWAY, frames for streams above the announced last stream are discarded -
		// except what the frame reader itself rejects
		switch k {
		case 15:
			return false, nil, proto, false, false
		case 13:
			return false, proto, proto, false, true
		}
		return true, nil, nil, false, false
	}
	switch k {
	case 0, 1, 2, 10, 19: // HEADERS on an odd stream
		end := k != 1 && k != 19
		switch {
		case m.grace && idle(sid):
			return true, nil, nil, false, false // new streams after GOAWAY are ignored
		case idle(sid):
			if k == 10 { // a block without pseudo-headers is a malformed request
				m.maxID = sid
				implicitClose(sid)
				m.st[sid] = mClosed
				return false, proto, nil, false, false
			}
			m.maxID = sid
			implicitClose(sid)
			m.st[sid] = mOpen
			if end {
				m.st[sid] = mHCR
			}
			m.started++
			return true, nil, nil, true, false
		case m.st[sid] == mOpen: // trailers
			if k == 10 {
				m.st[sid] = mHCR
				return true, nil, nil, false, false
			}
			m.st[sid] = mClosed
			return false, proto, nil, false, false
		case m.st[sid] == mHCR:
			m.st[sid] = mClosed
			return false, closed, nil, false, false
		default: // closed
			return false, closed, proto, false, false
		}
	case 3, 4, 12: // DATA
		switch {
		case idle(sid):
			return false, nil, proto, false, false
		case m.st[sid] == mOpen:
			if k == 4 {
				m.st[sid] = mHCR
			}
			return true, nil, nil, false, false
		default:
			m.st[sid] = mClosed
			return false, closed, nil, false, false
		}
	case 5:
		if idle(sid) {
			return false, nil, proto, false, false
		}
		m.st[sid] = mClosed
		return true, nil, nil, false, false
	case 6:
		if idle(sid) {
			return false, nil, proto, false, false
		}
		return true, nil, nil, false, false
	case 13: // zero increment: a stream error; on an idle stream the RFC also asks for a connection error
		if idle(sid) {
			return false, proto, proto, false, true
		}
		if m.st[sid] != mClosed {
			m.st[sid] = mClosed
			return false, proto, nil, false, false
		}
		return false, proto, nil, false, true // on a closed stream: error or ignore, both seen in the RFC
	case 7, 8, 9, 17:
		return true, nil, nil, false, false
	case 14:
		if m.acks > 0 {
			m.acks--
			return true, nil, nil, false, false
		}
		return false, nil, proto, false, false
	case 11, 15, 16:
		return false, nil, proto, false, false
	case 18:
		m.grace = true
		return true, nil, nil, false, false
	}
	return true, nil, nil, false, false
}

func svHas(codes []ErrCode, c ErrCode) bool {
	for _, x := range codes {
		if x == c {
			return true
		}
	}
	return false
}

func svSequence(steps int, letters []int) {
	atomic.StoreInt32(&svHandledCtr, 0)
	svGate = make(chan struct{})
	s := svStart(&Server{}, &http.Server{}, http.HandlerFunc(svGated))
	s.c.feed([]byte(ClientPreface), svFrame(FrameSettings, 0, 0))
	vYield()
	_, seen := svReaction(s.c.written(), 0)
	m := &svModel{acks: 1}
	maxStarted := uint32(0)
	for i := 0; i < steps; i++ {
		var k int
		if letters == nil {
			k = vRange(vName("letter", i), 0, svLetters-1)
		} else {
			k = letters[vRange(vName("letter", i), 0, len(letters)-1)]
		}
		frame, sid := svLetter(k)
		handledBefore := svHandledN()
		wasDead := m.dead
		var wantNone, starts, unclaimed bool
		var se, ce []ErrCode
		if !wasDead {
			wantNone, se, ce, starts, unclaimed = m.expect(k)
		}
		s.c.feed(frame)
		vYield()
		var r svReact
		r, seen = svReaction(s.c.written(), seen)
		newHandlers := svHandledN() - handledBefore
		connErr := r.goaway && r.code != ErrCodeNo
		if wasDead {
			vReach("after-connection-error")
			vAssert(newHandlers == 0, "no-request-served-after-connection-error")
			continue
		}
		if newHandlers > 0 {
			vReach("handler-started")
			vAssert(starts && newHandlers == 1, "handler-only-for-new-valid-stream")
			if sid > maxStarted {
				maxStarted = sid
			}
		}
		if m.grace && !wantNone {
			// an error after the server already announced GOAWAY(NO_ERROR): a stream error is answered
			// with RST_STREAM as usual; for a connection error x/net records the code and closes on
			// its timer without a second GOAWAY - what is claimed then is that nothing is served any more
			vReach("error-during-graceful-shutdown")
			vAssert(newHandlers == 0, "illegal-frame-never-reaches-a-handler")
			if code, isRST := r.rst[sid]; !(isRST && svHas(se, code)) {
				m.dead = true
			}
			continue
		}
		if unclaimed {
			if connErr {
				m.dead = true
			}
			continue
		}
		if wantNone {
			vReach("legal-frame")
			vAssert(len(r.rst) == 0 && !connErr, "legal-frame-draws-no-error")
			if starts {
				vAssert(newHandlers == 1, "legal-request-starts-a-handler")
			}
			if k == 9 {
				vAssert(r.pingAck == 1, "ping-answered-once")
			}
			continue
		}
		vReach("illegal-frame")
		vAssert(newHandlers == 0, "illegal-frame-never-reaches-a-handler")
		code, isRST := r.rst[sid]
		okSE := isRST && svHas(se, code)
		okCE := connErr && (svHas(ce, r.code) || svHas(se, r.code))
		vAssert(okSE || okCE, "illegal-frame-answered-with-an-allowed-error")
		if connErr {
			m.dead = true
			vReach("connection-error")
			vAssert(r.lastID >= maxStarted, "goaway-covers-every-request-acted-on")
		}
	}
	vAssert(svHandledN() == m.started, "handlers-started-as-the-model-predicts")
	close(svGate)
	s.c.hangup()
	svFinish(s)
}

func VerifC13_serve_sequences_quick()    { svSequence(2, nil) }
func VerifC13_serve_sequences_thorough() { svSequence(3, nil) }

// four frames over the nine letters that move one stream through its states (requests with and
// without END_STREAM and with a declared length, DATA, trailers, RST_STREAM, a second stream, GOAWAY)
func VerifC13_serve_sequences_deep() { svSequence(4, []int{0, 1, 2, 3, 4, 5, 10, 18, 19}) }
