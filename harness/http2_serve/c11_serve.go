//go:build verif

package http2

// C11 on the real HTTP/2 server loop: with an idle timeout d configured (any d > 0), a connection
// that is idle - never used, or gone idle after serving requests that completed or were reset -
// has exactly one timer armed, with duration d; when it expires the server announces GOAWAY
// (NO_ERROR) and, the client staying silent, closes the connection and ends all its goroutines.
// While a request is in progress the connection is not cut.

import (
	"net/http"
	"sync/atomic"
	"time"
)

var svGate chan struct{}

func svGated(w http.ResponseWriter, r *http.Request) {
	atomic.AddInt32(&svHandledCtr, 1)
	if svGate != nil {
		<-svGate
	}
	w.Write([]byte("ok"))
}

func svArmedTimers() (n int, last int) {
	last = -1
	for k := 0; k < vTimerCount(); k++ {
		if vTimerArmed(k) {
			n++
			last = k
		}
	}
	return
}

func svHasGoAway(out []byte, code ErrCode) (found bool, lastID uint32) {
	recs, _ := svParse(out)
	for _, r := range recs {
		if r.typ == FrameGoAway && len(r.payload) >= 8 {
			c := ErrCode(uint32(r.payload[4])<<24 | uint32(r.payload[5])<<16 | uint32(r.payload[6])<<8 | uint32(r.payload[7]))
			if c == code {
				found = true
				lastID = (uint32(r.payload[0])<<24 | uint32(r.payload[1])<<16 | uint32(r.payload[2])<<8 | uint32(r.payload[3])) & 0x7fffffff
			}
		}
	}
	return
}

func VerifC11_serve_idle() {
	atomic.StoreInt32(&svHandledCtr, 0)
	svGate = nil
	d := time.Duration(vI64("idleTimeout"))
	vAssume(d > 0)
	scenario := vRange("scenario", 0, 4)
	if scenario == 4 {
		svGate = make(chan struct{})
	}
	s := svStart(&Server{IdleTimeout: d}, &http.Server{}, http.HandlerFunc(svGated))
	s.c.feed([]byte(ClientPreface), svFrame(FrameSettings, 0, 0))
	wantLast := uint32(0)
	switch scenario {
	case 0: // never used
	case 1: // one request, completed
		s.c.feed(svFrame(FrameHeaders, FlagHeadersEndHeaders|FlagHeadersEndStream, 1, svReqBlock(false)...))
		wantLast = 1
	case 2: // a request the client reset before finishing it
		s.c.feed(svFrame(FrameHeaders, FlagHeadersEndHeaders, 1, svReqBlock(true)...), svFrame(FrameRSTStream, 0, 1, svU32(uint32(ErrCodeCancel))...))
		wantLast = 1
	case 3: // two requests, completed
		s.c.feed(svFrame(FrameHeaders, FlagHeadersEndHeaders|FlagHeadersEndStream, 1, svReqBlock(false)...),
			svFrame(FrameHeaders, FlagHeadersEndHeaders|FlagHeadersEndStream, 3, svReqBlock(false)...))
		wantLast = 3
	case 4: // a request whose handler is still running
		s.c.feed(svFrame(FrameHeaders, FlagHeadersEndHeaders|FlagHeadersEndStream, 1, svReqBlock(false)...))
		wantLast = 1
	}
	vYield()
	vAssert(!s.returned() && !s.c.closed(), "connection-open-before-timeout")
	if scenario == 4 {
		vReach("request-in-progress")
		n, _ := svArmedTimers()
		vAssert(n == 0, "busy-connection-has-no-idle-timer-armed")
		close(svGate) // the handler finishes
		vYield()
	}
	vReach("connection-idle")
	n, k := svArmedTimers()
	vAssert(n == 1, "exactly-one-timer-armed-on-idle-connection")
	if n != 1 {
		return
	}
	vAssert(vTimerNanos(k) == int64(d), "idle-timer-armed-with-configured-timeout")
	vTimerFire(k) // d elapses
	vYield()
	found, last := svHasGoAway(s.c.written(), ErrCodeNo)
	vAssert(found, "idle-timeout-announces-goaway")
	vAssert(last == wantLast, "goaway-covers-served-requests")
	// the client stays silent: the GOAWAY close timer expires
	svTimePasses()
	vReach("idle-connection-cut")
	vAssert(s.returned() && s.c.closed(), "idle-connection-closed")
	vAssert(vLiveThreads() == 0, "no-goroutine-left-behind")
}
