//go:build verif

package http2

// C10 on the real HTTP/2 server loop: whatever the client sends, wherever it hangs up, whichever
// I/O operation of the connection fails, and whether or not the request handler panics -
// ServeConn returns on the goroutine it was called on (no panic escapes any goroutine of the
// connection: in Go that would end the process), the connection is closed, and no goroutine of
// the connection is left behind.

import (
	"io"
	"net/http"
	"sync/atomic"
	"time"
)

var svPanicInHandler bool

func svEcho(w http.ResponseWriter, r *http.Request) {
	atomic.AddInt32(&svHandledCtr, 1)
	b, _ := io.ReadAll(r.Body)
	if svPanicInHandler {
		panic("handler panic (user code)")
	}
	w.Header().Set("X-Echo", "1")
	w.Write(b)
	w.Write([]byte("."))
}

// valid sessions a client may run
func svScript(k int) []byte {
	var in []byte
	add := func(b []byte) { in = append(in, b...) }
	add([]byte(ClientPreface))
	add(svFrame(FrameSettings, 0, 0, svSetting(SettingInitialWindowSize, 70000)...))
	switch k {
	case 0: // one GET
		add(svFrame(FrameHeaders, FlagHeadersEndHeaders|FlagHeadersEndStream, 1, svReqBlock(false)...))
	case 1: // POST with a body in two DATA frames, the second padded
		add(svFrame(FrameHeaders, FlagHeadersEndHeaders, 1, svReqBlock(true)...))
		add(svFrame(FrameData, 0, 1, 'a', 'b'))
		add(svFrame(FrameData, FlagDataEndStream|FlagDataPadded, 1, 2, 'c', 0, 0))
	case 2: // control traffic around a request that is reset
		add(svFrame(FrameSettings, FlagSettingsAck, 0))
		add(svFrame(FramePing, 0, 0, 1, 2, 3, 4, 5, 6, 7, 8))
		add(svFrame(FrameWindowUpdate, 0, 0, svU32(1000)...))
		add(svFrame(FramePriority, 0, 3, 0, 0, 0, 0, 15))
		add(svFrame(FrameHeaders, FlagHeadersEndHeaders, 1, svReqBlock(true)...))
		add(svFrame(FrameRSTStream, 0, 1, svU32(uint32(ErrCodeCancel))...))
	case 3: // two requests, HEADERS + CONTINUATION, GOAWAY at the end
		add(svFrame(FrameHeaders, FlagHeadersEndStream, 1, svReqBlock(false)[:2]...))
		add(svFrame(FrameContinuation, FlagContinuationEndHeaders, 1, svReqBlock(false)[2:]...))
		add(svFrame(FrameHeaders, FlagHeadersEndHeaders|FlagHeadersEndStream|FlagHeadersPriority, 3, append([]byte{0, 0, 0, 1, 20}, svReqBlock(false)...)...))
		add(svFrame(FrameGoAway, 0, 0, append(svU32(3), svU32(0)...)...))
	}
	return in
}

const svScripts = 4

func svTimePasses() {
	for k := 0; k < vTimerCount(); k++ {
		if vTimerArmed(k) {
			vTimerFire(k)
			vYield()
		}
	}
}

func svFinish(s *svSession) {
	vYield()
	if !s.returned() {
		// the server is waiting for a client that went silent: the client goes away
		vReach("server-waits-for-silent-client")
		s.c.hangup()
		vYield()
	}
	if !s.returned() {
		// after a connection error the server stops reading and waits for its GOAWAY close timer:
		// time passes, every armed timer expires
		vReach("server-waits-for-a-timer")
		svTimePasses()
	}
	vReach("session-over")
	vAssert(s.returned(), "serve-returns")
	vAssert(s.c.closed(), "connection-closed")
	vAssert(vLiveThreads() == 0, "no-goroutine-left-behind")
}

// an I/O error at every operation index of the connection, handler panicking or not
func VerifC10_serve_io_faults() {
	atomic.StoreInt32(&svHandledCtr, 0)
	svPanicInHandler = vBool("handlerPanics")
	s := svStart(&Server{}, &http.Server{}, http.HandlerFunc(svEcho))
	in := svScript(vRange("script", 0, svScripts-1))
	s.c.failAt = vRange("failAt", -1, 24)
	s.c.feed(in)
	svFinish(s)
	if s.c.failAt >= 0 && s.c.opsDone() > s.c.failAt {
		vReach("fault-injected")
	}
	if svHandledN() > 0 && svPanicInHandler {
		vReach("handler-panicked")
	}
}

// the client disconnects after every byte offset of a valid session, delivered in pieces
func svCuts(chunks []int) {
	atomic.StoreInt32(&svHandledCtr, 0)
	svPanicInHandler = false
	s := svStart(&Server{}, &http.Server{}, http.HandlerFunc(svEcho))
	in := svScript(vRange("script", 0, svScripts-1))
	s.c.chunk = chunks[vRange("chunk", 0, len(chunks)-1)]
	cut := vRange("cut", 0, len(in))
	s.c.feed(in[:cut])
	if cut < len(in) {
		s.c.hangup()
		vReach("disconnect-mid-session")
	}
	svFinish(s)
}

func VerifC10_serve_cuts_quick()    { svCuts([]int{0}) }
func VerifC10_serve_cuts_thorough() { svCuts([]int{0, 1, 5}) }

// after the handshake of the protocol, one arbitrary frame: any type, flags, stream, payload
func svAnyFrame(maxPayload int) {
	atomic.StoreInt32(&svHandledCtr, 0)
	svPanicInHandler = false
	s := svStart(&Server{}, &http.Server{}, http.HandlerFunc(svEcho))
	pre := vRange("openStreamFirst", 0, 1)
	s.c.feed([]byte(ClientPreface), svFrame(FrameSettings, 0, 0))
	if pre == 1 {
		s.c.feed(svFrame(FrameHeaders, FlagHeadersEndHeaders, 1, svReqBlock(true)...))
	}
	n := vRange("payloadLen", 0, maxPayload)
	id := []uint32{0, 1, 2, 3}[vRange("stream", 0, 3)]
	typ := byte(vRange("type", 0, 10)) // the ten defined frame types and one unknown type
	hdr := []byte{0, 0, byte(n), typ, vU8("flags"), byte(id >> 24), byte(id >> 16), byte(id >> 8), byte(id)}
	var payload []byte
	if typ == byte(FrameHeaders) || typ == byte(FramePushPromise) || typ == byte(FrameContinuation) {
		// header-block bytes: hpack's own input space belongs to C18; here each byte is one of a few
		// representative ones (indexed fields, literal prefixes, a size update, an invalid index)
		for i := 0; i < n; i++ {
			payload = append(payload, []byte{0x82, 0x84, 0x87, 0x00, 0x3f, 0xff}[vRange(vName("hb", i), 0, 5)])
		}
	} else {
		payload = vBytes("payload", n)
	}
	s.c.feed(hdr, payload)
	svFinish(s)
}

func VerifC10_serve_any_frame_quick()    { svAnyFrame(2) }
func VerifC10_serve_any_frame_thorough() { svAnyFrame(5) }

// the client goes SILENT (no hang-up) after every byte offset of a valid session, with or without an
// idle timeout configured: time passes - whatever timers the server armed for that situation expire
// (preface timeout, first-SETTINGS timeout, idle timeout, GOAWAY close timer); if that makes the
// server give the connection up, everything of it must be gone although the client is still there;
// otherwise the client finally hangs up and everything must be gone then.
func svStalls(chunks []int) {
	atomic.StoreInt32(&svHandledCtr, 0)
	svPanicInHandler = false
	srv := &Server{}
	if vBool("idleTimeoutConfigured") {
		srv.IdleTimeout = 90 * time.Second
	}
	s := svStart(srv, &http.Server{}, http.HandlerFunc(svEcho))
	in := svScript(vRange("script", 0, svScripts-1))
	s.c.chunk = chunks[vRange("chunk", 0, len(chunks)-1)]
	cut := vRange("cut", 0, len(in))
	s.c.feed(in[:cut])
	vYield()
	vReach("client-silent")
	svTimePasses()
	svTimePasses() // timers armed by what the first round did (GOAWAY close timer)
	if s.returned() {
		vReach("server-gave-the-connection-up")
		vAssert(s.c.closed(), "connection-closed")
		vAssert(vLiveThreads() == 0, "no-goroutine-left-behind-while-client-still-connected")
	}
	s.c.hangup()
	svFinish(s)
}

func VerifC11_serve_stalls_quick()    { svStalls([]int{0}) }
func VerifC11_serve_stalls_thorough() { svStalls([]int{0, 5}) }

// The client stops READING after the server's n-th write (a full socket buffer: the write in flight
// blocks until the connection is closed), any session, handler panicking or not; then it goes away.
// The server must still let go: ServeConn returns, the connection is closed - which is what
// releases the blocked write -, no goroutine of the connection is left.
func VerifC11_serve_write_stall() {
	atomic.StoreInt32(&svHandledCtr, 0)
	svPanicInHandler = vBool("handlerPanics")
	s := svStart(&Server{}, &http.Server{}, http.HandlerFunc(svEcho))
	in := svScript(vRange("script", 0, svScripts-1))
	s.c.stallAfter = vRange("clientStopsReadingAfterWrites", 1, 6)
	s.c.feed(in)
	vYield()
	if s.c.stallAfter <= s.c.writes {
		vReach("write-blocked-on-a-client-that-stopped-reading")
	}
	svFinish(s)
}
