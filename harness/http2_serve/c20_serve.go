//go:build verif

package http2

// C20 on the real server loop, all three write schedulers (round robin - what fingerproxy runs -,
// priority with tiny retention limits, random): after any 3-frame sequence of requests, PRIORITY
// frames (dependencies on open, idle, closed streams, on each other, on themselves, exclusive) and
// resets, the handlers are released and answer; every response the server owes is written exactly
// once and completely on its own stream, nothing is written for a stream the client reset, and
// nothing panics.

import (
	"net/http"
	"sync/atomic"
)

func svPrio(id, dep uint32, excl bool) []byte {
	if excl {
		dep |= 1 << 31
	}
	return svFrame(FramePriority, 0, id, append(svU32(dep), 7)...)
}

const svC20Letters = 10

func svC20Letter(k int) []byte {
	req := svReqBlock(false)
	switch k {
	case 0:
		return svFrame(FrameHeaders, FlagHeadersEndHeaders|FlagHeadersEndStream, 1, req...)
	case 1:
		return svFrame(FrameHeaders, FlagHeadersEndHeaders|FlagHeadersEndStream, 3, req...)
	case 2: // request on 5 that depends exclusively on stream 1
		return svFrame(FrameHeaders, FlagHeadersEndHeaders|FlagHeadersEndStream|FlagHeadersPriority, 5, append([]byte{0x80, 0, 0, 1, 9}, req...)...)
	case 3:
		return svPrio(1, 3, false)
	case 4:
		return svPrio(3, 1, true)
	case 5:
		return svPrio(7, 0, false) // idle stream
	case 6:
		return svPrio(9, 7, true) // idle depending on idle
	case 7:
		return svPrio(1, 1, false) // self-dependency: stream error
	case 8:
		return svFrame(FrameRSTStream, 0, 1, svU32(uint32(ErrCodeCancel))...)
	case 9:
		return svFrame(FrameRSTStream, 0, 3, svU32(uint32(ErrCodeCancel))...)
	}
	return nil
}

func svC20(steps int) {
	atomic.StoreInt32(&svHandledCtr, 0)
	svGate = make(chan struct{})
	srv := &Server{}
	switch vRange("scheduler", 0, 2) {
	case 1:
		srv.NewWriteScheduler = func() WriteScheduler {
			return NewPriorityWriteScheduler(&PriorityWriteSchedulerConfig{MaxClosedNodesInTree: 1, MaxIdleNodesInTree: 1, ThrottleOutOfOrderWrites: vBool("throttle")})
		}
	case 2:
		srv.NewWriteScheduler = NewRandomWriteScheduler
	}
	s := svStart(srv, &http.Server{}, http.HandlerFunc(svGated))
	s.c.feed([]byte(ClientPreface), svFrame(FrameSettings, 0, 0))
	vYield()
	opened := map[uint32]bool{}
	reset := map[uint32]bool{}
	maxID := uint32(0)
	for i := 0; i < steps; i++ {
		k := vRange(vName("letter", i), 0, svC20Letters-1)
		s.c.feed(svC20Letter(k))
		vYield()
		switch k {
		case 0, 1, 2:
			id := []uint32{1, 3, 5}[k]
			if opened[id] {
				reset[id] = true // HEADERS again on a half-closed stream: STREAM_CLOSED, the server resets it
			} else if id > maxID {
				maxID = id
				opened[id] = true
			}
		case 7:
			if opened[1] {
				reset[1] = true // the server resets the stream (self-dependency)
			}
		case 8:
			if opened[1] || maxID >= 1 {
				reset[1] = true
			}
		case 9:
			if opened[3] || maxID >= 3 {
				reset[3] = true
			}
		}
	}
	r0 := svCollect(s.c.written(), 0)
	if r0.goaway {
		// a connection error (HEADERS on a lower stream id, RST_STREAM on an idle stream): C13's subject
		vReach("connection-error")
		close(svGate)
		s.c.hangup()
		svFinish(s)
		return
	}
	close(svGate) // the handlers answer now
	vYield()
	vReach("handlers-answered")
	for _, id := range []uint32{1, 3, 5} {
		r := svCollect(s.c.written(), id)
		switch {
		case opened[id] && !reset[id]:
			vReach("response-owed")
			vAssert(r.headers == 1 && r.status == "200", "response-headers-written-exactly-once")
			vAssert(string(r.data) == "ok" && r.ended && !r.dataAfter, "response-body-written-exactly-once-and-complete")
		case !opened[id]:
			vAssert(r.headers == 0 && len(r.data) == 0, "nothing-written-for-a-stream-that-never-opened")
		default:
			vReach("stream-was-reset")
			vAssert(!r.dataAfter, "no-data-after-end-of-stream")
		}
	}
	s.c.hangup()
	svFinish(s)
}

func VerifC20_serve_schedulers_quick()    { svC20(2) }
func VerifC20_serve_schedulers_thorough() { svC20(3) }
