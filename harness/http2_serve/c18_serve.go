//go:build verif

package http2

// C18 on the real server loop: the client changes SETTINGS_HEADER_TABLE_SIZE between two requests -
// once, or twice in a row (shrink then grow, grow then shrink) - while the server's HPACK encoder
// holds entries from the first response. Seen from the client: the next header block starts with
// the dynamic table size updates RFC 7541 section 4.2 asks for (the smallest size of the interval,
// then the final one, none above what the client allowed), and a client-side decoder that follows
// them decodes every response to the header values the handler set (the two tables never diverge).

import (
	"net/http"
	"sync/atomic"

	"golang.org/x/net/http2/hpack"
)

func svC18Handler(w http.ResponseWriter, r *http.Request) {
	w.Header().Set("Content-Type", "application/x-verif")
	w.Header().Set("X-Path", r.URL.Path)
	w.Header().Set("X-Fixed", "same-every-time")
	w.WriteHeader(204)
}

// leading dynamic table size updates of a header block
func svSizeUpdates(block []byte) (sizes []int) {
	for len(block) > 0 && block[0]&0xe0 == 0x20 {
		v := int(block[0] & 0x1f)
		block = block[1:]
		if v == 0x1f {
			shift := 0
			for len(block) > 0 {
				b := block[0]
				block = block[1:]
				v += int(b&0x7f) << shift
				shift += 7
				if b&0x80 == 0 {
					break
				}
			}
		}
		sizes = append(sizes, v)
	}
	return
}

// svDecodeLenient decodes a block with a decoder that, like RFC 7541 section 4.2, accepts more than one
// leading dynamic table size update: the module's decoder (the one pkg/http2 links against, x/net
// v0.19.0) rejects the second one when its table is not empty - that defect is reported by
// VerifC18_serve_request_size_updates, where the server is the decoder - so here the leading updates
// are applied one block at a time.
func svDecodeLenient(dec *hpack.Decoder, block []byte) ([]hpack.HeaderField, error) {
	for len(block) > 0 && block[0]&0xe0 == 0x20 {
		n := 1
		if block[0]&0x1f == 0x1f {
			for n < len(block) && block[n]&0x80 != 0 {
				n++
			}
			n++
		}
		if _, err := dec.DecodeFull(block[:n]); err != nil {
			return nil, err
		}
		block = block[n:]
	}
	return dec.DecodeFull(block)
}

func VerifC18_serve_table_size() {
	s := svStart(&Server{}, &http.Server{}, http.HandlerFunc(svC18Handler))
	sizesAllowed := []uint32{0, 40, 100, 4096, 8192}
	reqWithPath := func(stream uint32, path string) []byte {
		block := []byte{0x82, 0x87, 0x04, byte(len(path))}
		block = append(block, path...)
		return svFrame(FrameHeaders, FlagHeadersEndHeaders|FlagHeadersEndStream, stream, block...)
	}
	s.c.feed([]byte(ClientPreface), svFrame(FrameSettings, 0, 0), reqWithPath(1, "/one"))
	vYield()
	// the client changes its table size once or twice before the next request
	first := sizesAllowed[vRange("tableSize1", 0, len(sizesAllowed)-1)]
	s.c.feed(svFrame(FrameSettings, 0, 0, svSetting(SettingHeaderTableSize, first)...))
	lowest, final := first, first
	if vBool("changedTwice") {
		second := sizesAllowed[vRange("tableSize2", 0, len(sizesAllowed)-1)]
		s.c.feed(svFrame(FrameSettings, 0, 0, svSetting(SettingHeaderTableSize, second)...))
		if second < lowest {
			lowest = second
		}
		final = second
	}
	s.c.feed(reqWithPath(3, "/two"), reqWithPath(5, "/three"))
	vYield()
	vReach("responses-written")
	// the client's decoder: allowed maximum = what it announced; it applies the updates it is sent
	dec := hpack.NewDecoder(4096, nil)
	recs, _ := svParse(s.c.written())
	want := map[uint32]string{1: "/one", 3: "/two", 5: "/three"}
	seen := 0
	afterChange := false
	for _, f := range recs {
		if f.typ != FrameHeaders {
			continue
		}
		if f.id != 1 && !afterChange {
			// the first header block the server writes after the change - whichever of the two later
			// responses that is (their handlers run concurrently)
			afterChange = true
			dec.SetAllowedMaxDynamicTableSize(final)
			ups := svSizeUpdates(f.payload)
			// server's encoder limit is 4096: what it may use is min(4096, client's value)
			capTo := func(v uint32) int {
				if v > 4096 {
					return 4096
				}
				return int(v)
			}
			if capTo(lowest) < 4096 || capTo(final) < 4096 {
				vReach("table-shrunk")
				vAssert(len(ups) >= 1 && ups[0] <= capTo(lowest), "smallest-size-of-the-interval-signalled-first")
			}
			for _, u := range ups {
				vAssert(u <= capTo(final) || u <= capTo(lowest), "no-update-above-what-the-client-allowed")
			}
			if len(ups) > 0 {
				vAssert(ups[len(ups)-1] <= capTo(final), "final-size-within-the-final-setting")
			}
		}
		fields, err := svDecodeLenient(dec, f.payload)
		vAssert(err == nil, "client-decodes-the-block")
		if err != nil {
			continue
		}
		status, path, fixed := "", "", ""
		for _, x := range fields {
			switch x.Name {
			case ":status":
				status = x.Value
			case "x-path":
				path = x.Value
			case "x-fixed":
				fixed = x.Value
			}
		}
		seen++
		vAssert(status == "204" && path == want[f.id] && fixed == "same-every-time", "decoded-headers-are-what-the-handler-set")
	}
	vAssert(seen == 3, "three-responses")
	s.c.hangup()
	svFinish(s)
}

// The server as HPACK decoder: after a request that put an entry into the dynamic table, a request
// whose header block begins with TWO dynamic table size updates (shrink, then grow back - what an
// encoder must send when its table limit went down and up between two blocks, RFC 7541 section 4.2) is a
// legal request: it must be served, not answered with COMPRESSION_ERROR.
func VerifC18_serve_request_size_updates() {
	atomic.StoreInt32(&svHandledCtr, 0)
	svGate = nil
	s := svStart(&Server{}, &http.Server{}, http.HandlerFunc(svGated))
	first := []byte{0x82, 0x87, 0x84, 0x40, 4, 'x', '-', 'i', 'd', 1, 'A'} // "x-id: A" with incremental indexing
	s.c.feed([]byte(ClientPreface), svFrame(FrameSettings, 0, 0), svFrame(FrameHeaders, FlagHeadersEndHeaders|FlagHeadersEndStream, 1, first...))
	vYield()
	vAssert(svHandledN() == 1, "first-request-served")
	low := []byte{0x20} // size update to 0: the table is emptied
	if vBool("shrinkKeepsTheEntry") {
		low = []byte{0x3f, 0x45} // size update to 100: the 36-byte entry stays
	}
	var block []byte
	updates := vRange("sizeUpdates", 0, 2)
	if updates >= 1 {
		block = append(block, low...)
	}
	if updates == 2 {
		block = append(block, 0x3f, 0xe1, 0x1f) // back to 4096
	}
	block = append(block, 0x82, 0x87, 0x84)
	s.c.feed(svFrame(FrameHeaders, FlagHeadersEndHeaders|FlagHeadersEndStream, 3, block...))
	vYield()
	vReach("second-request-sent")
	r := svCollect(s.c.written(), 3)
	if updates == 2 {
		vReach("two-size-updates")
		vAssert(svHandledN() == 2 && !r.goaway && !r.rst, "request-with-two-leading-size-updates-served")
	} else {
		vAssert(svHandledN() == 2 && !r.goaway && !r.rst, "request-with-at-most-one-size-update-served")
	}
	s.c.hangup()
	svFinish(s)
}
