//go:build verif

package http2

// C03 / C07 on the real HTTP/2 server loop: what a request handler finds in the connection's
// metadata equals the capture of the client's frames up to (at least) that request's own HEADERS
// frame - latest SETTINGS in wire order, first WINDOW_UPDATE increment, every PRIORITY frame and
// HEADERS priority in arrival order, the fields of the latest header block in order - for a first
// request and for a later one after more frames of every captured kind.

import (
	"net/http"

	"github.com/wi1dcard/fingerproxy/pkg/metadata"
)

var svSnaps []metadata.HTTP2FingerprintingFrames

func svSnapshot(w http.ResponseWriter, r *http.Request) {
	md, ok := metadata.FromContext(r.Context())
	if !ok {
		return
	}
	f := md.HTTP2Frames
	snap := metadata.HTTP2FingerprintingFrames{WindowUpdateIncrement: f.WindowUpdateIncrement}
	snap.Settings = append(snap.Settings, f.Settings...)
	snap.Priorities = append(snap.Priorities, f.Priorities...)
	snap.Headers = append(snap.Headers, f.Headers...)
	svSnaps = append(svSnaps, snap)
}

// pseudo-header orders of a GET request using static-table indices
var svOrders = [][]byte{{0x82, 0x87, 0x84}, {0x84, 0x82, 0x87}, {0x87, 0x84, 0x82}}
var svOrderNames = [][]string{{":method", ":scheme", ":path"}, {":path", ":method", ":scheme"}, {":scheme", ":path", ":method"}}

func svPrioBytes(p metadata.Priority) []byte {
	dep := p.StreamDep
	if p.Exclusive {
		dep |= 1 << 31
	}
	return append(svU32(dep), p.Weight)
}

func svSymPriority(name string, stream uint32) metadata.Priority {
	p := metadata.Priority{StreamId: stream, StreamDep: vU32(name+".dep") & 0x7fffffff, Exclusive: vBool(name + ".excl"), Weight: vU8(name + ".weight")}
	vAssume(p.StreamDep != stream) // a stream depending on itself is a protocol error (covered by C13)
	return p
}

func svCheckSnap(got, want *metadata.HTTP2FingerprintingFrames, which string) {
	vAssert(len(got.Settings) == len(want.Settings), which+"-settings-count")
	if len(got.Settings) == len(want.Settings) {
		for i := range want.Settings {
			vAssert(vAnd(got.Settings[i].Id == want.Settings[i].Id, got.Settings[i].Val == want.Settings[i].Val), which+"-settings-latest-frame-in-wire-order")
		}
	}
	vAssert(got.WindowUpdateIncrement == want.WindowUpdateIncrement, which+"-first-window-update")
	vAssert(len(got.Priorities) == len(want.Priorities), which+"-priorities-count")
	if len(got.Priorities) == len(want.Priorities) {
		for i := range want.Priorities {
			g, w := got.Priorities[i], want.Priorities[i]
			vAssert(vAnd(vAnd(g.StreamId == w.StreamId, g.StreamDep == w.StreamDep), vAnd(g.Exclusive == w.Exclusive, g.Weight == w.Weight)), which+"-priorities-in-arrival-order")
		}
	}
	vAssert(len(got.Headers) == len(want.Headers), which+"-header-count")
	if len(got.Headers) == len(want.Headers) {
		for i := range want.Headers {
			vAssert(got.Headers[i].Name == want.Headers[i].Name, which+"-header-names-of-latest-block-in-order")
		}
	}
}

func svC03(full bool) {
	svSnaps = nil
	s := svStart(&Server{}, &http.Server{}, http.HandlerFunc(svSnapshot))
	var want metadata.HTTP2FingerprintingFrames

	// ---- before and with the first request
	idA := []uint16{1, 4, 0x99}[vRange("set1.idA", 0, 2)]
	valA, valB := vU32("set1.valA"), vU32("set1.valB")
	vAssume(valA <= 1<<31-1)
	want.Settings = []metadata.Setting{{Id: idA, Val: valA}, {Id: 3, Val: valB}}
	s.c.feed([]byte(ClientPreface), svFrame(FrameSettings, 0, 0, append(svSetting(SettingID(idA), valA), svSetting(3, valB)...)...))
	if vBool("wu1") {
		inc := vU32("wu1.incr")
		vAssume(vAnd(inc > 0, inc <= 1<<29)) // both increments together stay inside the 2^31-1 window
		want.WindowUpdateIncrement = inc
		s.c.feed(svFrame(FrameWindowUpdate, 0, 0, svU32(inc)...))
	}
	if vBool("prio1") {
		p := svSymPriority("prio1", 5)
		want.Priorities = append(want.Priorities, p)
		s.c.feed(svFrame(FramePriority, 0, 5, svPrioBytes(p)...))
	}
	o1 := vRange("order1", 0, 2)
	block := svOrders[o1]
	fl := FlagHeadersEndStream
	var pre []byte
	if vBool("hprio1") {
		p := svSymPriority("hprio1", 1)
		want.Priorities = append(want.Priorities, p)
		pre = svPrioBytes(p)
		fl |= FlagHeadersPriority
	}
	if full && vBool("split1") {
		s.c.feed(svFrame(FrameHeaders, fl, 1, append(pre, block[:1]...)...), svFrame(FrameContinuation, FlagContinuationEndHeaders, 1, block[1:]...))
	} else {
		s.c.feed(svFrame(FrameHeaders, fl|FlagHeadersEndHeaders, 1, append(pre, block...)...))
	}
	want.Headers = nil
	for _, n := range svOrderNames[o1] {
		want.Headers = append(want.Headers, metadata.HeaderField{Name: n})
	}
	vYield()
	vAssert(len(svSnaps) == 1, "first-request-handled")
	if len(svSnaps) != 1 {
		return
	}
	vReach("first-request-seen")
	svCheckSnap(&svSnaps[0], &want, "first")

	// ---- more frames of every captured kind, then a second request
	if vBool("set2") {
		valC := vU32("set2.valC")
		want.Settings = []metadata.Setting{{Id: 6, Val: valC}}
		s.c.feed(svFrame(FrameSettings, 0, 0, svSetting(6, valC)...))
	}
	if full {
		s.c.feed(svFrame(FrameSettings, FlagSettingsAck, 0)) // an ACK is not a SETTINGS capture
	}
	if !full || vBool("wu2") {
		inc := vU32("wu2.incr")
		vAssume(vAnd(inc > 0, inc <= 1<<29))
		if want.WindowUpdateIncrement == 0 {
			want.WindowUpdateIncrement = inc
		}
		s.c.feed(svFrame(FrameWindowUpdate, 0, 0, svU32(inc)...))
	}
	if !full || vBool("prio2") {
		p := svSymPriority("prio2", 7)
		want.Priorities = append(want.Priorities, p)
		s.c.feed(svFrame(FramePriority, 0, 7, svPrioBytes(p)...))
	}
	o2 := (o1 + 1) % 3
	if full {
		o2 = vRange("order2", 0, 2)
	}
	s.c.feed(svFrame(FrameHeaders, FlagHeadersEndStream|FlagHeadersEndHeaders, 3, svOrders[o2]...))
	want.Headers = nil
	for _, n := range svOrderNames[o2] {
		want.Headers = append(want.Headers, metadata.HeaderField{Name: n})
	}
	vYield()
	vAssert(len(svSnaps) == 2, "second-request-handled")
	if len(svSnaps) != 2 {
		return
	}
	vReach("second-request-seen")
	svCheckSnap(&svSnaps[1], &want, "second")
}

func VerifC03_serve_quick()    { svC03(false) }
func VerifC03_serve_thorough() { svC03(true) }
