//go:build verif

package http2

import (
	"net/http"
	"sync/atomic"
)

// Schedule exploration on the real server loop. The other loop harnesses run every input path under
// three fixed scheduling policies; these run a fixed (or nearly fixed) input under EVERY schedule
// that differs from "lowest-numbered runnable goroutine next" at no more than k scheduling points,
// where a scheduling point is every blocking operation and (preempt) the moment before every
// channel operation, select and mutex lock of any goroutine. The choice taken at each point is a
// solver-enumerated input `sched.<n>` of the path, so a counterexample carries its schedule.

func VerifC08_serve_concurrent_schedules_quick() {
	svExploreK, svExplorePreempt = 1, true
	VerifC08_serve_concurrent()
}

// (k = 2 was tried for the thorough tier: not finished in 15 minutes on one core; the thorough tier
// therefore registers only what was measured to finish - stated in checks.json)
func VerifC08_serve_concurrent_schedules_thorough() {
	svExploreK, svExplorePreempt = 1, true
	VerifC08_serve_concurrent()
}

// C06: two connections of one Server, both clients' bytes available at once (or B's frames between
// A's frames and A's request): whichever of the eight-odd goroutines runs next at any point, each
// handler finds its own connection's capture only, and both connections are released afterwards.
func VerifC06_serve_two_connections_schedules_quick() {
	svExploreK, svExplorePreempt = 1, true
	svC06(3, 3)
}

func VerifC06_serve_two_connections_schedules_thorough() {
	svExploreK, svExplorePreempt = 1, true
	svC06(2, 3)
}

// C10 / C11: a valid session (any of the four scripts), the handler panicking or not, the client
// hanging up at the end: under every explored schedule ServeConn returns, the connection is closed,
// no goroutine of the connection is left and no panic escapes any of them.
func svSchedSession() {
	atomic.StoreInt32(&svHandledCtr, 0)
	svPanicInHandler = vBool("handlerPanics")
	s := svStart(&Server{}, &http.Server{}, http.HandlerFunc(svEcho))
	in := svScript(vRange("script", 0, svScripts-1))
	s.c.feed(in)
	if vBool("hangUpAtOnce") {
		// the hang-up races with everything the server still has to do for the session
		s.c.hangup()
		vReach("disconnect-races-with-serving")
	}
	svFinish(s)
	if svHandledN() > 0 && svPanicInHandler {
		vReach("handler-panicked")
	}
}

func VerifC10_serve_schedules_quick() {
	svExploreK, svExplorePreempt = 1, true
	svSchedSession()
}

func VerifC10_serve_schedules_thorough() {
	svExploreK, svExplorePreempt = 1, true
	svSchedSession()
}
