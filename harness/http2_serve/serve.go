//go:build verif

package http2

// The REAL HTTP/2 server (Server.ServeConn: serve loop, readFrames, writeFrameAsync, runHandler,
// responseWriter, the Framer and hpack in both directions) run in the engine's thread mode against
// a modelled client connection. The harness function is the client: it feeds bytes, lets the
// server's goroutines run until all of them are blocked (vYield), inspects what was written,
// fires timers, injects I/O faults, hangs up.
//
// Schedule: the deterministic one of thread mode (every goroutine runs until it blocks, lowest
// number first). Other interleavings of the server's goroutines are outside these harnesses.

import (
	"context"
	"errors"
	"io"
	"net"
	"net/http"
	"sync"
	"sync/atomic"
	"time"

	"github.com/wi1dcard/fingerproxy/pkg/metadata"
	"golang.org/x/net/http2/hpack"
)

var errSvIO = errors.New("injected I/O error")
var errSvClosed = errors.New("use of closed network connection")

type svConn struct {
	mu      sync.Mutex // natively the server's goroutines are real; in the engine one runs at a time
	in      []byte
	rpos    int
	chunk   int // max bytes per Read (0 = all that is there)
	ops     int
	failAt  int
	out     []byte
	closes  int
	closedC chan struct{} // closed by the server's Close
	goneC   chan struct{} // closed when the client hangs up
	moreC   chan struct{} // signalled when the client has sent more
	gone    bool
	// the client stops READING after the server's stallAfter-th write (0: never): its socket buffer is
	// full, further writes block until the server closes the connection
	stallAfter int
	writes     int
}

func newSvConn() *svConn {
	return &svConn{failAt: -1, closedC: make(chan struct{}), goneC: make(chan struct{}), moreC: make(chan struct{}, 1)}
}

// client side
func (c *svConn) feed(b ...[]byte) {
	c.mu.Lock()
	for _, x := range b {
		c.in = append(c.in, x...)
	}
	c.mu.Unlock()
	select {
	case c.moreC <- struct{}{}:
	default:
	}
}

func (c *svConn) hangup() {
	c.mu.Lock()
	defer c.mu.Unlock()
	if !c.gone {
		c.gone = true
		close(c.goneC)
	}
}

// what the server has written so far
func (c *svConn) written() []byte {
	c.mu.Lock()
	defer c.mu.Unlock()
	return c.out[:len(c.out):len(c.out)]
}

func (c *svConn) closed() bool {
	c.mu.Lock()
	defer c.mu.Unlock()
	return c.closes > 0
}

func (c *svConn) opsDone() int {
	c.mu.Lock()
	defer c.mu.Unlock()
	return c.ops
}

func (c *svConn) op() error {
	c.mu.Lock()
	defer c.mu.Unlock()
	k := c.ops
	c.ops++
	if k == c.failAt {
		return errSvIO
	}
	return nil
}

func (c *svConn) Read(p []byte) (int, error) {
	if err := c.op(); err != nil {
		return 0, err
	}
	for {
		c.mu.Lock()
		if c.closes > 0 {
			c.mu.Unlock()
			return 0, errSvClosed
		}
		if c.rpos < len(c.in) {
			break
		}
		gone := c.gone
		c.mu.Unlock()
		if gone {
			return 0, io.EOF
		}
		select {
		case <-c.closedC:
		case <-c.goneC:
		case <-c.moreC:
		}
	}
	defer c.mu.Unlock()
	rest := c.in[c.rpos:]
	if c.chunk > 0 && len(rest) > c.chunk {
		rest = rest[:c.chunk]
	}
	n := copy(p, rest)
	c.rpos += n
	return n, nil
}

func (c *svConn) Write(p []byte) (int, error) {
	if err := c.op(); err != nil {
		return 0, err
	}
	c.mu.Lock()
	if c.stallAfter > 0 && c.writes >= c.stallAfter && c.closes == 0 {
		c.mu.Unlock()
		<-c.closedC
		return 0, errSvClosed
	}
	c.writes++
	defer c.mu.Unlock()
	if c.closes > 0 {
		return 0, errSvClosed
	}
	c.out = append(c.out, p...)
	return len(p), nil
}

func (c *svConn) Close() error {
	c.mu.Lock()
	defer c.mu.Unlock()
	c.closes++
	if c.closes == 1 {
		close(c.closedC)
	}
	return nil
}
func (c *svConn) LocalAddr() net.Addr                { return svAddr{} }
func (c *svConn) RemoteAddr() net.Addr               { return svAddr{} }
func (c *svConn) SetDeadline(t time.Time) error      { return c.op() }
func (c *svConn) SetReadDeadline(t time.Time) error  { return c.op() }
func (c *svConn) SetWriteDeadline(t time.Time) error { return c.op() }

type svAddr struct{}

func (svAddr) Network() string { return "tcp" }
func (svAddr) String() string  { return "192.0.2.7:1" }

func svFrame(t FrameType, fl Flags, id uint32, payload ...byte) []byte {
	l := len(payload)
	b := []byte{byte(l >> 16), byte(l >> 8), byte(l), byte(t), byte(fl), byte(id >> 24), byte(id >> 16), byte(id >> 8), byte(id)}
	return append(b, payload...)
}

func svU32(v uint32) []byte { return []byte{byte(v >> 24), byte(v >> 16), byte(v >> 8), byte(v)} }

func svSetting(id SettingID, v uint32) []byte {
	return append([]byte{byte(id >> 8), byte(id)}, svU32(v)...)
}

// header block of a request using static-table indices only: :method GET|POST, :scheme https, :path /
func svReqBlock(post bool) []byte {
	if post {
		return []byte{0x83, 0x87, 0x84}
	}
	return []byte{0x82, 0x87, 0x84}
}

type svRec struct {
	typ     FrameType
	flags   Flags
	id      uint32
	payload []byte
}

// svParse splits what the server wrote into frames (lengths on the wire are concrete).
func svParse(b []byte) (recs []svRec, rest int) {
	for len(b) >= 9 {
		l := int(b[0])<<16 | int(b[1])<<8 | int(b[2])
		if len(b) < 9+l {
			break
		}
		recs = append(recs, svRec{FrameType(b[3]), Flags(b[4]), (uint32(b[5])<<24 | uint32(b[6])<<16 | uint32(b[7])<<8 | uint32(b[8])) & 0x7fffffff, b[9 : 9+l]})
		b = b[9+l:]
	}
	return recs, len(b)
}

type svSession struct {
	c    *svConn
	srv  *Server
	md   *metadata.Metadata
	done chan struct{}
}

// has ServeConn returned?
func (s *svSession) returned() bool {
	select {
	case <-s.done:
		return true
	default:
		return false
	}
}

// svExploreK > 0: instead of the three fixed policies, every choice among runnable goroutines is a
// path decision - all schedules that differ from lowest-numbered-first at no more than svExploreK
// scheduling points (blocking operations and, with svExplorePreempt, before every channel / lock
// operation) are explored (the *_schedules harnesses in sched_serve.go).
var svExploreK int
var svExplorePreempt bool

func svStart(srv *Server, hs *http.Server, h http.Handler) *svSession {
	DebugGoroutines = false
	if svExploreK > 0 {
		vScheduleExplore(svExploreK, svExplorePreempt)
	} else {
		vSchedulePolicy(vRange("schedulePolicy", 0, 2)) // thread mode, under each of the three scheduling policies
	}
	s := &svSession{c: newSvConn(), srv: srv, done: make(chan struct{})}
	ctx, md := metadata.NewContext(context.Background())
	s.md = md
	go func() {
		srv.ServeConn(s.c, &ServeConnOpts{Context: ctx, BaseConfig: hs, Handler: h})
		close(s.done)
	}()
	return s
}

// decode a response header block with the real decoder
func svDecode(block []byte) ([]hpack.HeaderField, error) {
	return hpack.NewDecoder(4096, nil).DecodeFull(block)
}

var svHandledCtr int32

func svHandledN() int { return int(atomic.LoadInt32(&svHandledCtr)) }
