//go:build verif

package http2

// C08 / C12 on the real HTTP/2 server loop, end to end on the wire:
//   - the body bytes a client sends in DATA frames (any split, padding, with or without a declared
//     length) are exactly what the handler reads; the status, body bytes (written in one or two
//     pieces, flushed or not) and trailer the handler produces are exactly what the client gets,
//     the stream ends with END_STREAM;
//   - the server never has more response DATA on the wire than the client's stream window allows
//     (SETTINGS_INITIAL_WINDOW_SIZE 0..3, then WINDOW_UPDATEs), and once the window is opened the
//     rest of the body is delivered (in the deterministic schedule of thread mode).

import (
	"golang.org/x/net/http2/hpack"
	"io"
	"net/http"
	"sync/atomic"
)

var svBody struct {
	got      []byte
	readErr  error
	method   string
	path     string
	status   int
	resp     []byte
	split    int
	flush    bool
	trailer  bool
	declared int64
}

func svBodyHandler(w http.ResponseWriter, r *http.Request) {
	atomic.AddInt32(&svHandledCtr, 1)
	svBody.method, svBody.path, svBody.declared = r.Method, r.URL.Path, r.ContentLength
	svBody.got, svBody.readErr = io.ReadAll(r.Body)
	w.Header().Set("Content-Type", "application/x-verif")
	if svBody.trailer {
		w.Header().Set("Trailer", "X-Sum")
	}
	w.WriteHeader(svBody.status)
	w.Write(svBody.resp[:svBody.split])
	if svBody.flush {
		w.(http.Flusher).Flush()
	}
	w.Write(svBody.resp[svBody.split:])
	if svBody.trailer {
		w.Header().Set("X-Sum", "t")
	}
}

type svResp struct {
	headers   int
	status    string
	data      []byte
	ended     bool
	dataAfter bool // DATA after END_STREAM
	trailer   string
	rst       bool
	goaway    bool
	maxFrame  int
}

func svCollect(out []byte, id uint32) (r svResp) {
	recs, _ := svParse(out)
	// HPACK state is per connection: one decoder sees every header block the server sent, in order
	dec := hpack.NewDecoder(4096, nil)
	for _, f := range recs {
		if f.typ == FrameGoAway {
			r.goaway = true
		}
		var fields []hpack.HeaderField
		var derr error
		if f.typ == FrameHeaders {
			fields, derr = dec.DecodeFull(f.payload)
		}
		if f.id != id {
			continue
		}
		switch f.typ {
		case FrameHeaders:
			r.headers++
			if derr != nil {
				continue
			}
			for _, x := range fields {
				if x.Name == ":status" {
					r.status = x.Value
				}
				if x.Name == "x-sum" {
					r.trailer = x.Value
				}
			}
			if f.flags&FlagHeadersEndStream != 0 {
				r.ended = true
			}
		case FrameData:
			if r.ended {
				r.dataAfter = true
			}
			r.data = append(r.data, f.payload...)
			if len(f.payload) > r.maxFrame {
				r.maxFrame = len(f.payload)
			}
			if f.flags&FlagDataEndStream != 0 {
				r.ended = true
			}
		case FrameRSTStream:
			r.rst = true
		}
	}
	return
}

func svBytesEq(a, b []byte) bool {
	if len(a) != len(b) {
		return false
	}
	eq := true
	for i := range a {
		eq = vAnd(eq, a[i] == b[i])
	}
	return eq
}

func svBodies(maxReq, maxResp int) {
	atomic.StoreInt32(&svHandledCtr, 0)
	s := svStart(&Server{}, &http.Server{}, http.HandlerFunc(svBodyHandler))
	// ---- what the handler will answer
	svBody.status = []int{200, 404, 503}[vRange("status", 0, 2)]
	m := vRange("respLen", 0, maxResp)
	svBody.resp = vBytes("resp", m)
	svBody.split = vRange("respSplit", 0, m)
	svBody.flush = vBool("flush")
	svBody.trailer = vBool("trailer")
	// ---- the request
	n := vRange("reqLen", 0, maxReq)
	body := vBytes("req", n)
	k := vRange("reqSplit", 0, n)
	block := svReqBlock(true)
	declare := vBool("declareLength")
	if declare {
		block = append(block, 0x5c, 1, byte('0'+n)) // content-length: n (literal, indexed name 28)
	}
	s.c.feed([]byte(ClientPreface), svFrame(FrameSettings, 0, 0), svFrame(FrameHeaders, FlagHeadersEndHeaders, 1, block...))
	if vBool("padFirst") {
		s.c.feed(svFrame(FrameData, FlagDataPadded, 1, append(append([]byte{2}, body[:k]...), 0, 0)...))
	} else {
		s.c.feed(svFrame(FrameData, 0, 1, body[:k]...))
	}
	s.c.feed(svFrame(FrameData, FlagDataEndStream, 1, body[k:]...))
	vYield()
	vReach("exchange-done")
	// ---- request direction
	vAssert(svHandledN() == 1, "request-reaches-handler-once")
	vAssert(svBody.method == "POST" && svBody.path == "/", "method-and-path-unchanged")
	vAssert(svBody.readErr == nil, "body-read-without-error")
	vAssert(svBytesEq(svBody.got, body), "request-body-bytes-intact")
	if declare {
		vAssert(svBody.declared == int64(n), "declared-length-reaches-handler")
	} else {
		vAssert(svBody.declared == -1, "undeclared-length-stays-unknown")
	}
	// ---- response direction
	r := svCollect(s.c.written(), 1)
	want := map[int]string{200: "200", 404: "404", 503: "503"}[svBody.status]
	vAssert(r.status == want, "status-intact")
	vAssert(svBytesEq(r.data, svBody.resp), "response-body-bytes-intact")
	vAssert(r.ended && !r.dataAfter, "response-ends-stream-once")
	vAssert(!r.rst && !r.goaway, "legal-exchange-draws-no-error")
	if svBody.trailer {
		vAssert(r.trailer == "t" && r.headers == 2, "trailer-intact")
	} else {
		vAssert(r.headers == 1, "one-header-block")
	}
	s.c.hangup()
	vYield()
	vAssert(s.returned() && vLiveThreads() == 0, "connection-released")
}

func VerifC08_serve_bodies_quick()    { svBodies(2, 2) }
func VerifC08_serve_bodies_thorough() { svBodies(3, 3) }

// ---- C12 on the wire: the client's stream window
func svWindow(maxResp int) {
	atomic.StoreInt32(&svHandledCtr, 0)
	s := svStart(&Server{}, &http.Server{}, http.HandlerFunc(svBodyHandler))
	svBody.status = 200
	m := vRange("respLen", 1, maxResp)
	svBody.resp = vBytes("resp", m)
	svBody.split = vRange("respSplit", 0, m)
	svBody.flush = vBool("flush")
	svBody.trailer = false
	w0 := vRange("initialWindow", 0, maxResp)
	s.c.feed([]byte(ClientPreface), svFrame(FrameSettings, 0, 0, svSetting(SettingInitialWindowSize, uint32(w0))...),
		svFrame(FrameHeaders, FlagHeadersEndHeaders|FlagHeadersEndStream, 1, svReqBlock(false)...))
	vYield()
	allowed := w0
	r := svCollect(s.c.written(), 1)
	vReach("first-window")
	vAssert(len(r.data) <= allowed, "never-beyond-the-stream-window")
	vAssert(svBytesEq(r.data, svBody.resp[:len(r.data)]), "what-is-sent-is-a-prefix-of-the-body")
	if m > allowed {
		vAssert(!r.ended, "stream-not-ended-before-body-complete")
	}
	// the client opens the window a little, then fully
	inc := vRange("increment", 1, maxResp)
	s.c.feed(svFrame(FrameWindowUpdate, 0, 1, svU32(uint32(inc))...))
	vYield()
	allowed += inc
	r = svCollect(s.c.written(), 1)
	vReach("second-window")
	vAssert(len(r.data) <= allowed, "never-beyond-the-stream-window")
	mn := m
	if allowed < mn {
		mn = allowed
	}
	vAssert(len(r.data) == mn, "queued-data-delivered-once-window-available")
	s.c.feed(svFrame(FrameWindowUpdate, 0, 1, svU32(1000)...))
	vYield()
	r = svCollect(s.c.written(), 1)
	vReach("window-open")
	vAssert(svBytesEq(r.data, svBody.resp), "whole-body-delivered")
	vAssert(r.ended && !r.rst && !r.goaway, "stream-completed")
}

func VerifC12_serve_window_quick()    { svWindow(3) }
func VerifC12_serve_window_thorough() { svWindow(5) }

// ---- C12 on the wire: the connection window (65535 until the client enlarges it) and the maximum
// frame size (16384 unless the client allows more) with a body larger than both
func VerifC12_serve_conn_window() {
	atomic.StoreInt32(&svHandledCtr, 0)
	s := svStart(&Server{}, &http.Server{}, http.HandlerFunc(svBodyHandler))
	svBody.status = 200
	extra := vRange("beyondWindow", 1, 3)
	m := 65535 + extra
	svBody.resp = make([]byte, m)
	svBody.resp[0], svBody.resp[65534], svBody.resp[m-1] = vU8("first"), vU8("lastInWindow"), vU8("last")
	svBody.split = m
	svBody.flush = false
	svBody.trailer = false
	maxFrame := uint32(16384)
	settings := svSetting(SettingInitialWindowSize, 1<<31-1) // the stream window is not the limit here
	if vBool("largerFrames") {
		maxFrame = 20000
		settings = append(settings, svSetting(SettingMaxFrameSize, maxFrame)...)
	}
	s.c.feed([]byte(ClientPreface), svFrame(FrameSettings, 0, 0, settings...),
		svFrame(FrameHeaders, FlagHeadersEndHeaders|FlagHeadersEndStream, 1, svReqBlock(false)...))
	vYield()
	r := svCollect(s.c.written(), 1)
	vReach("connection-window-exhausted")
	vAssert(len(r.data) <= 65535, "never-beyond-the-connection-window")
	vAssert(len(r.data) == 65535, "window-fully-used")
	vAssert(r.maxFrame <= int(maxFrame), "never-beyond-max-frame-size")
	vAssert(!r.ended, "stream-not-ended-before-body-complete")
	vAssert(vAnd(r.data[0] == svBody.resp[0], r.data[65534] == svBody.resp[65534]), "bytes-in-order")
	s.c.feed(svFrame(FrameWindowUpdate, 0, 0, svU32(uint32(vRange("increment", 1, 3)))...))
	vYield()
	r = svCollect(s.c.written(), 1)
	vReach("connection-window-reopened")
	mn := 65535 + vRange("increment", 1, 3)
	if m < mn {
		mn = m
	}
	vAssert(len(r.data) == mn, "queued-data-delivered-once-window-available")
	if mn == m {
		vAssert(r.ended && r.data[m-1] == svBody.resp[m-1], "whole-body-delivered")
	}
}
