//go:build verif

package http2

// C06 on the real HTTP/2 server loop: two connections served at the same time by the same Server,
// their frames interleaved; a request handled on one connection finds the capture of that
// connection's frames only - whatever the other client sent, before or after.

import (
	"net/http"

	"github.com/wi1dcard/fingerproxy/pkg/metadata"
)

func svSnapInto(dst *[]metadata.HTTP2FingerprintingFrames) http.HandlerFunc {
	return func(w http.ResponseWriter, r *http.Request) {
		md, ok := metadata.FromContext(r.Context())
		if !ok {
			return
		}
		f := md.HTTP2Frames
		snap := metadata.HTTP2FingerprintingFrames{WindowUpdateIncrement: f.WindowUpdateIncrement}
		snap.Settings = append(snap.Settings, f.Settings...)
		snap.Priorities = append(snap.Priorities, f.Priorities...)
		snap.Headers = append(snap.Headers, f.Headers...)
		*dst = append(*dst, snap)
	}
}

func VerifC06_serve_two_connections() { svC06(0, 3) }

func svC06(ilo, ihi int) {
	var snapsA, snapsB []metadata.HTTP2FingerprintingFrames
	srv := &Server{}
	a := svStart(srv, &http.Server{}, svSnapInto(&snapsA))
	b := svStart(srv, &http.Server{}, svSnapInto(&snapsB))
	var wantA, wantB metadata.HTTP2FingerprintingFrames
	// each client: SETTINGS with one symbolic value, a WINDOW_UPDATE, a PRIORITY frame, a request
	mk := func(name string, stream uint32, order int) (want metadata.HTTP2FingerprintingFrames, pre, mid, req []byte) {
		val := vU32(name + ".setting")
		inc := vU32(name + ".incr")
		vAssume(vAnd(inc > 0, inc <= 1<<29))
		p := svSymPriority(name+".prio", 9)
		want.Settings = []metadata.Setting{{Id: 3, Val: val}}
		want.WindowUpdateIncrement = inc
		want.Priorities = []metadata.Priority{p}
		for _, n := range svOrderNames[order] {
			want.Headers = append(want.Headers, metadata.HeaderField{Name: n})
		}
		pre = append([]byte(ClientPreface), svFrame(FrameSettings, 0, 0, svSetting(3, val)...)...)
		mid = append(svFrame(FrameWindowUpdate, 0, 0, svU32(inc)...), svFrame(FramePriority, 0, 9, svPrioBytes(p)...)...)
		req = svFrame(FrameHeaders, FlagHeadersEndStream|FlagHeadersEndHeaders, stream, svOrders[order]...)
		return
	}
	var preA, midA, reqA, preB, midB, reqB []byte
	wantA, preA, midA, reqA = mk("a", 1, 0)
	wantB, preB, midB, reqB = mk("b", 1, 1)
	// interleavings of the two clients' progress
	switch vRange("interleaving", ilo, ihi) {
	case 0: // A entirely, then B
		a.c.feed(preA, midA, reqA)
		vYield()
		b.c.feed(preB, midB, reqB)
	case 1: // step by step, A first
		a.c.feed(preA)
		b.c.feed(preB)
		vYield()
		a.c.feed(midA)
		b.c.feed(midB)
		vYield()
		a.c.feed(reqA)
		b.c.feed(reqB)
	case 2: // B's captured frames arrive between A's frames and A's request
		a.c.feed(preA, midA)
		vYield()
		b.c.feed(preB, midB, reqB)
		vYield()
		a.c.feed(reqA)
	case 3: // everything at once
		b.c.feed(preB, midB, reqB)
		a.c.feed(preA, midA, reqA)
	}
	vYield()
	vReach("both-served")
	vAssert(len(snapsA) == 1 && len(snapsB) == 1, "one-request-handled-per-connection")
	if len(snapsA) != 1 || len(snapsB) != 1 {
		return
	}
	svCheckSnap(&snapsA[0], &wantA, "conn-a")
	svCheckSnap(&snapsB[0], &wantB, "conn-b")
	a.c.hangup()
	b.c.hangup()
	vYield()
	vAssert(a.returned() && b.returned() && vLiveThreads() == 0, "both-connections-released")
}
