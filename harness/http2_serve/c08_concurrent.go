//go:build verif

package http2

// C08 "with many requests in flight at once": two uploads on one connection with their DATA frames
// interleaved in every order, handlers answering with what they received; no byte of one request
// shows up in the other, each response goes out on its own stream, and a header that the second
// request sends as a reference into the HPACK dynamic table filled by the first (the decoder state
// is per connection) reaches its handler with the value the client meant.

import (
	"io"
	"net/http"
	"sync"
)

var svCC struct {
	mu   sync.Mutex
	body map[string][]byte
	xid  map[string]string
}

func svCCHandler(w http.ResponseWriter, r *http.Request) {
	b, _ := io.ReadAll(r.Body)
	svCC.mu.Lock()
	svCC.body[r.URL.Path] = b
	svCC.xid[r.URL.Path] = r.Header.Get("X-Id")
	svCC.mu.Unlock()
	w.Header().Set("Content-Type", "application/x-verif")
	w.Write(b)
}

func VerifC08_serve_concurrent() {
	svCC.body, svCC.xid = map[string][]byte{}, map[string]string{}
	s := svStart(&Server{}, &http.Server{}, http.HandlerFunc(svCCHandler))
	a, b := vBytes("bodyA", 2), vBytes("bodyB", 2)
	// request A (stream 1): :path /a, and "x-id: A" as a literal WITH incremental indexing (enters the
	// dynamic table as entry 62); request B (stream 3): :path /b, and x-id as an indexed reference to 62
	blockA := []byte{0x83, 0x87, 0x04, 2, '/', 'a', 0x40, 4, 'x', '-', 'i', 'd', 1, 'A'}
	blockB := []byte{0x83, 0x87, 0x04, 2, '/', 'b', 0xbe}
	s.c.feed([]byte(ClientPreface), svFrame(FrameSettings, 0, 0),
		svFrame(FrameHeaders, FlagHeadersEndHeaders, 1, blockA...),
		svFrame(FrameHeaders, FlagHeadersEndHeaders, 3, blockB...))
	// the four DATA frames in one of the 6 interleavings that keep each stream's own order
	frames := [][]byte{
		svFrame(FrameData, 0, 1, a[0]), svFrame(FrameData, FlagDataEndStream, 1, a[1]),
		svFrame(FrameData, 0, 3, b[0]), svFrame(FrameData, FlagDataEndStream, 3, b[1]),
	}
	orders := [][]int{{0, 1, 2, 3}, {0, 2, 1, 3}, {0, 2, 3, 1}, {2, 0, 1, 3}, {2, 0, 3, 1}, {2, 3, 0, 1}}
	stepwise := vBool("serverRunsBetweenFrames")
	for _, k := range orders[vRange("interleaving", 0, 5)] {
		s.c.feed(frames[k])
		if stepwise {
			vYield()
		}
	}
	vYield()
	vReach("both-exchanges-done")
	vAssert(svBytesEq(svCC.body["/a"], a), "request-a-body-intact")
	vAssert(svBytesEq(svCC.body["/b"], b), "request-b-body-intact")
	vAssert(svCC.xid["/a"] == "A" && svCC.xid["/b"] == "A", "indexed-header-resolved-against-this-connections-table")
	ra, rb := svCollect(s.c.written(), 1), svCollect(s.c.written(), 3)
	vAssert(ra.status == "200" && svBytesEq(ra.data, a) && ra.ended, "response-a-on-stream-1-intact")
	vAssert(rb.status == "200" && svBytesEq(rb.data, b) && rb.ended, "response-b-on-stream-3-intact")
	vAssert(!ra.rst && !rb.rst && !ra.goaway, "legal-exchange-draws-no-error")
	s.c.hangup()
	svFinish(s)
}
