//go:build verif

package fingerproxy

// Modelled client connection and listener for the end-to-end harnesses (thread mode). Same model
// as harness/http2_serve: the harness is the client.

import (
	"errors"
	"io"
	"net"
	"sync"
	"time"
)

var errE2EClosed = errors.New("use of closed network connection")

type e2eConn struct {
	name    string // remote address (default 198.51.100.9:50123)
	mu      sync.Mutex
	in      []byte
	rpos    int
	out     []byte
	closes  int
	gone    bool
	closedC chan struct{}
	goneC   chan struct{}
	moreC   chan struct{}
}

func newE2EConn() *e2eConn {
	return &e2eConn{closedC: make(chan struct{}), goneC: make(chan struct{}), moreC: make(chan struct{}, 1)}
}

func (c *e2eConn) feed(b ...[]byte) {
	c.mu.Lock()
	for _, x := range b {
		c.in = append(c.in, x...)
	}
	c.mu.Unlock()
	select {
	case c.moreC <- struct{}{}:
	default:
	}
}

func (c *e2eConn) hangup() {
	c.mu.Lock()
	defer c.mu.Unlock()
	if !c.gone {
		c.gone = true
		close(c.goneC)
	}
}

func (c *e2eConn) written() []byte {
	c.mu.Lock()
	defer c.mu.Unlock()
	return c.out[:len(c.out):len(c.out)]
}

func (c *e2eConn) closed() bool {
	c.mu.Lock()
	defer c.mu.Unlock()
	return c.closes > 0
}

func (c *e2eConn) Read(p []byte) (int, error) {
	for {
		c.mu.Lock()
		if c.closes > 0 {
			c.mu.Unlock()
			return 0, errE2EClosed
		}
		if c.rpos < len(c.in) {
			break
		}
		gone := c.gone
		c.mu.Unlock()
		if gone {
			return 0, io.EOF
		}
		select {
		case <-c.closedC:
		case <-c.goneC:
		case <-c.moreC:
		}
	}
	defer c.mu.Unlock()
	n := copy(p, c.in[c.rpos:])
	c.rpos += n
	return n, nil
}

func (c *e2eConn) Write(p []byte) (int, error) {
	c.mu.Lock()
	defer c.mu.Unlock()
	if c.closes > 0 {
		return 0, errE2EClosed
	}
	c.out = append(c.out, p...)
	return len(p), nil
}

func (c *e2eConn) Close() error {
	c.mu.Lock()
	defer c.mu.Unlock()
	c.closes++
	if c.closes == 1 {
		close(c.closedC)
	}
	return nil
}
func (c *e2eConn) LocalAddr() net.Addr { return e2eAddr("192.0.2.1:443") }
func (c *e2eConn) RemoteAddr() net.Addr {
	if c.name != "" {
		return e2eAddr(c.name)
	}
	return e2eAddr("198.51.100.9:50123")
}
func (c *e2eConn) SetDeadline(t time.Time) error      { return nil }
func (c *e2eConn) SetReadDeadline(t time.Time) error  { return nil }
func (c *e2eConn) SetWriteDeadline(t time.Time) error { return nil }

type e2eAddr string

func (e2eAddr) Network() string  { return "tcp" }
func (a e2eAddr) String() string { return string(a) }

type e2eListener struct {
	conns  chan net.Conn
	closed chan struct{}
	once   sync.Once
}

func newE2EListener() *e2eListener {
	return &e2eListener{conns: make(chan net.Conn, 4), closed: make(chan struct{})}
}

func (l *e2eListener) Accept() (net.Conn, error) {
	select {
	case c := <-l.conns:
		return c, nil
	case <-l.closed:
		return nil, errE2EClosed
	}
}
func (l *e2eListener) Close() error   { l.once.Do(func() { close(l.closed) }); return nil }
func (l *e2eListener) Addr() net.Addr { return e2eAddr("192.0.2.1:443") }

func e2eFrame(t byte, fl byte, id uint32, payload ...byte) []byte {
	l := len(payload)
	b := []byte{byte(l >> 16), byte(l >> 8), byte(l), t, fl, byte(id >> 24), byte(id >> 16), byte(id >> 8), byte(id)}
	return append(b, payload...)
}

func e2eU32(v uint32) []byte { return []byte{byte(v >> 24), byte(v >> 16), byte(v >> 8), byte(v)} }

// hpack literal header field without indexing, new name, no Huffman
func e2eLit(name, value string) []byte {
	b := []byte{0x00, byte(len(name))}
	b = append(b, name...)
	b = append(b, byte(len(value)))
	return append(b, value...)
}

type e2eRec struct {
	typ     byte
	flags   byte
	id      uint32
	payload []byte
}

func e2eParse(b []byte) (recs []e2eRec) {
	for len(b) >= 9 {
		l := int(b[0])<<16 | int(b[1])<<8 | int(b[2])
		if len(b) < 9+l {
			break
		}
		recs = append(recs, e2eRec{b[3], b[4], (uint32(b[5])<<24 | uint32(b[6])<<16 | uint32(b[7])<<8 | uint32(b[8])) & 0x7fffffff, b[9 : 9+l]})
		b = b[9+l:]
	}
	return recs
}
