//go:build verif

package fingerproxy

// C06 for HTTP/2 on the real stack: two clients with different ClientHellos and different HTTP/2
// preambles (symbolic SETTINGS value; the first sends a WINDOW_UPDATE, the second none), one after
// the other ("past" connection), overlapping, or with the first client's second request after the
// second client was served. Every request reaches the backend with the JA3 and the HTTP/2
// fingerprint of the connection it arrived on.

import (
	"context"
	"crypto/tls"
	"math"
	"net/http"
	"net/url"

	fp "github.com/wi1dcard/fingerproxy/pkg/fingerprint"
	"github.com/wi1dcard/fingerproxy/pkg/metadata"
)

func c06h2Hello(cipher uint16) []byte {
	hb := append([]byte{3, 3}, make([]byte, 32)...)
	hb = append(hb, 0, 0, 2, byte(cipher>>8), byte(cipher), 1, 0)
	hs := append([]byte{1, 0, 0, byte(len(hb))}, hb...)
	return append([]byte{0x16, 3, 1, 0, byte(len(hs))}, hs...)
}

func c06h2Req(stream uint32, path string) []byte {
	block := []byte{0x82, 0x87, 0x04, byte(len(path))}
	block = append(block, path...)
	block = append(block, 0x01, 13)
	block = append(block, "front.example"...)
	return e2eFrame(1, 0x5, stream, block...) // HEADERS, END_HEADERS|END_STREAM
}

func VerifC06_h2_connections() {
	vSchedulePolicy(vRange("schedulePolicy", 0, 2)) // thread mode, under each of the three scheduling policies
	flagPreserveHost, flagEnableKubernetesProbe, flagVerboseLogs = e2eBoolp(false), e2eBoolp(false), e2eBoolp(false)
	flagTimeoutHTTPIdle, flagTimeoutHTTPRead, flagTimeoutHTTPWrite, flagTimeoutTLSHandshake = e2eStrp("3m"), e2eStrp("0"), e2eStrp("0"), e2eStrp("10s")
	flagReverseProxyFlushInterval = e2eStrp("100ms")
	flagMaxHTTP2PriorityFrames = nil
	http.DefaultTransport = &http.Transport{}
	handler := defaultReverseProxyHTTPHandler(&url.URL{Scheme: "http", Host: "backend.internal:8080"}, DefaultHeaderInjectors())
	ctx, cancel := context.WithCancel(context.Background())
	srv := defaultProxyServer(ctx, handler, &tls.Config{})
	srv.MetricsRegistry = nil
	ln := newE2EListener()
	served := make(chan struct{})
	go func() {
		srv.Serve(ln)
		close(served)
	}()
	e2eBackend.n, e2eBackend.status, e2eBackend.respBody, e2eBackend.log = 0, 200, []byte("ok"), nil

	recA, recB := c06h2Hello(0x1301), c06h2Hello(0xc02f)
	setA, setB, incA := vU32("settingsA"), vU32("settingsB"), vU32("incrementA")
	vAssume(vAnd(incA > 0, incA <= 1<<30))
	var wantA, wantB metadata.HTTP2FingerprintingFrames
	wantA.Settings = []metadata.Setting{{Id: 3, Val: setA}}
	wantA.WindowUpdateIncrement = incA
	wantB.Settings = []metadata.Setting{{Id: 3, Val: setB}}
	for _, n := range []string{":method", ":scheme", ":path", ":authority"} {
		wantA.Headers = append(wantA.Headers, metadata.HeaderField{Name: n})
		wantB.Headers = append(wantB.Headers, metadata.HeaderField{Name: n})
	}
	preface := []byte("PRI * HTTP/2.0\r\n\r\nSM\r\n\r\n")
	startA := append(append(append([]byte{}, recA...), preface...), e2eFrame(4, 0, 0, append([]byte{0, 3}, e2eU32(setA)...)...)...)
	startA = append(startA, e2eFrame(8, 0, 0, e2eU32(incA)...)...)
	startB := append(append(append([]byte{}, recB...), preface...), e2eFrame(4, 0, 0, append([]byte{0, 3}, e2eU32(setB)...)...)...)
	a, b := newE2EConn(), newE2EConn()
	a.name, b.name = "198.51.100.1:1001", "198.51.100.2:2002"
	order := vRange("order", 0, 2)
	switch order {
	case 0: // A served and gone, then B (a past connection must not show through)
		a.feed(startA, c06h2Req(1, "/a1"))
		ln.conns <- a
		vYield()
		a.hangup()
		vYield()
		b.feed(startB, c06h2Req(1, "/b1"))
		ln.conns <- b
	case 1: // A open, B connects and is served, then A's second request
		a.feed(startA, c06h2Req(1, "/a1"))
		ln.conns <- a
		vYield()
		b.feed(startB, c06h2Req(1, "/b1"))
		ln.conns <- b
		vYield()
		a.feed(c06h2Req(3, "/a2"))
	case 2: // both preambles first, requests afterwards in the other order
		a.feed(startA)
		b.feed(startB)
		ln.conns <- a
		ln.conns <- b
		vYield()
		b.feed(c06h2Req(1, "/b1"))
		a.feed(c06h2Req(1, "/a1"))
	}
	vYield()
	vReach("all-served")
	ja3 := func(rec []byte) string {
		_, md := metadata.NewContext(context.Background())
		md.ClientHelloRecord = rec
		s, err := fp.JA3Fingerprint(md)
		if err != nil {
			vFail("record-parses")
		}
		return s
	}
	ja3A, ja3B := ja3(recA), ja3(recB)
	nA, nB := 0, 0
	for _, r := range e2eBackend.log {
		if r.path == "/b1" {
			nB++
			vAssert(len(r.ja3) == 1 && r.ja3[0] == ja3B, "request-carries-ja3-of-its-own-connection")
			vAssert(len(r.h2) == 1 && r.h2[0] == wantB.Marshal(math.MaxUint), "request-carries-http2-fingerprint-of-its-own-connection")
		} else {
			nA++
			vAssert(len(r.ja3) == 1 && r.ja3[0] == ja3A, "request-carries-ja3-of-its-own-connection")
			vAssert(len(r.h2) == 1 && r.h2[0] == wantA.Marshal(math.MaxUint), "request-carries-http2-fingerprint-of-its-own-connection")
		}
	}
	wantNA := 1
	if order == 1 {
		wantNA = 2
	}
	vAssert(nA == wantNA && nB == 1, "every-request-forwarded")
	a.hangup()
	b.hangup()
	vYield()
	cancel()
	vYield()
	select {
	case <-served:
		vReach("server-stopped")
	default:
		vFail("serve-returns-after-context-cancelled")
	}
}
