//go:build verif

package fingerproxy

// End to end on the real stack, HTTP/2 client: the proxy as `Run` builds it (defaultProxyServer +
// defaultReverseProxyHTTPHandler + DefaultHeaderInjectors), its accept loop, proxyserver.serveConn,
// the ClientHello capture, the HTTP/2 server loop, the fingerprint injectors and
// httputil.ReverseProxy all run from SSA in thread mode. Stubbed are only the two ends: crypto/tls
// (the handshake reads the ClientHello record through the capturing conn and "negotiates" h2; the
// record layer is the identity) and the backend (http.Transport.RoundTrip records the request and
// answers), plus the internal HTTP/1.1 server's accept loop (never gets a connection here).
//
// What the backend receives and what the client gets back are compared with what the client sent:
// C01/C03 (fingerprint headers = capture of THIS connection), C05 (spoofed values replaced), C08
// (method, path, query, headers, body, status, response body intact; Host), C09 (X-Forwarded-*),
// C15 (probe answered locally).

import (
	"bytes"
	"context"
	"crypto/tls"
	"hash"
	"io"
	"math"
	"net"
	"net/http"
	"net/url"
	"strings"
	"time"

	fp "github.com/wi1dcard/fingerproxy/pkg/fingerprint"
	"github.com/wi1dcard/fingerproxy/pkg/http2/hpack"
	"github.com/wi1dcard/fingerproxy/pkg/metadata"
)

var e2eUnder = map[*tls.Conn]net.Conn{}

//verif:replace crypto/tls.Server
func e2eTLSServer(c net.Conn, cfg *tls.Config) *tls.Conn {
	tc := &tls.Conn{}
	e2eUnder[tc] = c
	return tc
}

// the handshake: reads one TLS record (the ClientHello) through the conn it was given - the real
// capturing conn - and succeeds
//
//verif:replace (*crypto/tls.Conn).HandshakeContext
func e2eHandshake(c *tls.Conn, ctx context.Context) error {
	u := e2eUnder[c]
	var hdr [5]byte
	if _, err := io.ReadFull(u, hdr[:]); err != nil {
		return err
	}
	body := make([]byte, int(hdr[3])<<8|int(hdr[4]))
	_, err := io.ReadFull(u, body)
	return err
}

//verif:replace (*crypto/tls.Conn).ConnectionState
func e2eConnectionState(c *tls.Conn) tls.ConnectionState {
	return tls.ConnectionState{NegotiatedProtocol: "h2", Version: tls.VersionTLS13, CipherSuite: tls.TLS_AES_128_GCM_SHA256, HandshakeComplete: true, ServerName: "front.example"}
}

//verif:replace (*crypto/tls.Conn).Read
func e2eTLSRead(c *tls.Conn, p []byte) (int, error) { return e2eUnder[c].Read(p) }

//verif:replace (*crypto/tls.Conn).Write
func e2eTLSWrite(c *tls.Conn, p []byte) (int, error) { return e2eUnder[c].Write(p) }

//verif:replace (*crypto/tls.Conn).Close
func e2eTLSClose(c *tls.Conn) error { return e2eUnder[c].Close() }

//verif:replace (*crypto/tls.Conn).RemoteAddr
func e2eTLSRemoteAddr(c *tls.Conn) net.Addr { return e2eUnder[c].RemoteAddr() }

//verif:replace (*crypto/tls.Conn).LocalAddr
func e2eTLSLocalAddr(c *tls.Conn) net.Addr { return e2eUnder[c].LocalAddr() }

//verif:replace (*crypto/tls.Conn).SetDeadline
func e2eTLSSetDeadline(c *tls.Conn, t time.Time) error { return nil }

//verif:replace (*crypto/tls.Conn).SetReadDeadline
func e2eTLSSetReadDeadline(c *tls.Conn, t time.Time) error { return nil }

//verif:replace (*crypto/tls.Conn).SetWriteDeadline
func e2eTLSSetWriteDeadline(c *tls.Conn, t time.Time) error { return nil }

var e2eNever = make(chan struct{})

// the internal HTTP/1.1 server: waits for connections that never come in these harnesses
//
//verif:replace (*net/http.Server).Serve
func e2eH1Serve(s *http.Server, l net.Listener) error {
	<-e2eNever
	return nil
}

//verif:replace (*net/http.Server).Shutdown
func e2eH1Shutdown(s *http.Server, ctx context.Context) error { return nil }

//verif:replace (*net/http.Transport).Clone
func e2eTransportClone(t *http.Transport) *http.Transport { return &http.Transport{} }

var e2eBackend struct {
	n        int
	method   string
	url      string
	host     string
	header   http.Header
	body     []byte
	status   int
	respBody []byte
	trailer  bool      // the backend response announces and sends a trailer
	log      []e2eSeen // every forwarded request, in arrival order at the backend
}

type e2eSeen struct {
	path string
	ja3  []string
	h2   []string
	xff  []string
}

// the backend
//
//verif:replace (*net/http.Transport).RoundTrip
func e2eRoundTrip(t *http.Transport, r *http.Request) (*http.Response, error) {
	e2eBackend.n++
	e2eBackend.method, e2eBackend.url, e2eBackend.host = r.Method, r.URL.String(), r.Host
	e2eBackend.header = r.Header.Clone()
	e2eBackend.log = append(e2eBackend.log, e2eSeen{path: r.URL.Path, ja3: r.Header["X-Ja3-Fingerprint"], h2: r.Header["X-Http2-Fingerprint"], xff: r.Header["X-Forwarded-For"]})
	if r.Body != nil {
		e2eBackend.body, _ = io.ReadAll(r.Body)
	}
	h := http.Header{}
	h.Set("X-Backend", "b1")
	h.Set("Content-Type", "application/x-verif") // otherwise the h2 server sniffs the (symbolic) body
	h.Add("Set-Cookie", "a=1")
	h.Add("Set-Cookie", "b=2")
	resp := &http.Response{StatusCode: e2eBackend.status, ProtoMajor: 1, ProtoMinor: 1, Header: h,
		Body: io.NopCloser(bytes.NewReader(e2eBackend.respBody)), ContentLength: int64(len(e2eBackend.respBody)), Request: r}
	if e2eBackend.trailer {
		// a chunked response with a trailer: length unknown, trailer announced, filled after the body
		resp.ContentLength = -1
		resp.TransferEncoding = []string{"chunked"}
		resp.Trailer = http.Header{"X-Checksum": {"c0ffee"}}
	}
	return resp, nil
}

type e2eHash struct{ data []byte }

func (h *e2eHash) Write(p []byte) (int, error) { h.data = append(h.data, p...); return len(p), nil }
func (h *e2eHash) Sum(b []byte) []byte         { return append(b, vHash("sha256", h.data, 32)...) }
func (h *e2eHash) Reset()                      { h.data = nil }
func (h *e2eHash) Size() int                   { return 32 }
func (h *e2eHash) BlockSize() int              { return 64 }

//verif:replace crypto/sha256.New
func e2eNewSHA256() hash.Hash { return &e2eHash{} }

func e2eStrp(s string) *string { return &s }
func e2eBoolp(b bool) *bool    { return &b }

func e2eH2(full bool) {
	vSchedulePolicy(vRange("schedulePolicy", 0, 2)) // thread mode, under each of the three scheduling policies
	// ---- configuration, as flags
	preserve, probes := vBool("flag.preserveHost"), vBool("flag.kubernetesProbe")
	flagPreserveHost, flagEnableKubernetesProbe, flagVerboseLogs = e2eBoolp(preserve), e2eBoolp(probes), e2eBoolp(false)
	flagTimeoutHTTPIdle, flagTimeoutHTTPRead, flagTimeoutHTTPWrite, flagTimeoutTLSHandshake = e2eStrp("3m"), e2eStrp("0"), e2eStrp("0"), e2eStrp("10s")
	flagReverseProxyFlushInterval = e2eStrp("100ms")
	// the priority-frame limit: flag not initialised (library use), 0, 1, or more than arrive
	limit := uint(math.MaxUint)
	flagMaxHTTP2PriorityFrames = nil
	nLimits := 1
	if full {
		nLimits = 2
	}
	if k := vRange("flag.maxPriorityFrames", 0, nLimits); k > 0 {
		v := []uint{0, 0, 1, 5}[k]
		flagMaxHTTP2PriorityFrames = &v
		limit = v
	}
	backend := &url.URL{Scheme: "http", Host: "backend.internal:8080"}
	http.DefaultTransport = &http.Transport{} // net/http's package initialiser is not run by the engine
	handler := defaultReverseProxyHTTPHandler(backend, DefaultHeaderInjectors())
	ctx, cancel := context.WithCancel(context.Background())
	srv := defaultProxyServer(ctx, handler, &tls.Config{})
	srv.MetricsRegistry = nil // requests_total is C16's subject (prometheus is not run from SSA)
	ln := newE2EListener()
	served := make(chan struct{})
	go func() {
		srv.Serve(ln)
		close(served)
	}()

	// ---- the client: TLS ClientHello, then HTTP/2
	// the ClientHello space itself is C01/C02/C04's subject: here two versions x two cipher lists
	ver := uint16(0x0303)
	cipher := []uint16{0x1301, 0x0a0a}[vRange("hello.cipher", 0, 1)]
	hb := []byte{byte(ver >> 8), byte(ver)}
	hb = append(hb, make([]byte, 32)...)
	hb = append(hb, 0, 0, 2, byte(cipher>>8), byte(cipher), 1, 0)
	hs := append([]byte{1, 0, 0, byte(len(hb))}, hb...)
	rec := append([]byte{0x16, 3, 1, 0, byte(len(hs))}, hs...)

	var want metadata.HTTP2FingerprintingFrames
	setVal := vU32("settings.maxConcurrent")
	want.Settings = []metadata.Setting{{Id: 3, Val: setVal}}
	var frames []byte
	frames = append(frames, "PRI * HTTP/2.0\r\n\r\nSM\r\n\r\n"...)
	frames = append(frames, e2eFrame(4, 0, 0, append([]byte{0, 3}, e2eU32(setVal)...)...)...)
	if vBool("windowUpdate") {
		inc := vU32("windowUpdate.incr")
		vAssume(vAnd(inc > 0, inc <= 1<<30))
		want.WindowUpdateIncrement = inc
		frames = append(frames, e2eFrame(8, 0, 0, e2eU32(inc)...)...)
	}
	nPrio := 1
	if full {
		nPrio = vRange("priorityFrames", 0, 2)
	}
	for i, n := 0, nPrio; i < n; i++ {
		p := metadata.Priority{StreamId: uint32(3 + 2*i), StreamDep: 0, Exclusive: i == 1, Weight: vU8(vName("priority.weight", i))}
		want.Priorities = append(want.Priorities, p)
		dep := p.StreamDep
		if p.Exclusive {
			dep |= 1 << 31
		}
		frames = append(frames, e2eFrame(2, 0, p.StreamId, append(e2eU32(dep), p.Weight)...)...)
	}
	ua := []string{"", "curl/8.0 kube-probe/1.0", "kube-probe/1.27"}[vRange("userAgent", 0, 2)]
	clientXFF := vBool("clientSendsXFF")
	block := []byte{0x83, 0x87} // :method POST, :scheme https
	if vBool("clientClaimsSchemeHTTP") {
		block[1] = 0x86 // ":scheme: http" on a TLS connection: the backend must still be told https (C09)
	}
	block = append(block, 0x04, 12)
	block = append(block, "/a/b?x=1&y=2"...)
	block = append(block, 0x01, 13)
	block = append(block, "front.example"...)
	if ua != "" {
		block = append(block, e2eLit("user-agent", ua)...)
	}
	block = append(block, e2eLit("x-custom", "v;1, v2")...)
	block = append(block, e2eLit("x-custom", "second")...)
	if clientXFF {
		block = append(block, e2eLit("x-forwarded-for", "203.0.113.5, 10.0.0.1")...)
	}
	block = append(block, e2eLit("x-forwarded-proto", "http")...)
	block = append(block, e2eLit("x-forwarded-host", "evil.example")...)
	block = append(block, e2eLit("forwarded", "for=evil")...)
	block = append(block, e2eLit("x-ja3-fingerprint", "spoofed")...)
	block = append(block, e2eLit("x-http2-fingerprint", "spoofed")...)
	frames = append(frames, e2eFrame(1, 0x4, 1, block...)...) // HEADERS, END_HEADERS
	body := vBytes("body", 2)
	frames = append(frames, e2eFrame(0, 0x1, 1, body...)...) // DATA, END_STREAM
	want.Headers = []metadata.HeaderField{{Name: ":method"}, {Name: ":scheme"}, {Name: ":path"}, {Name: ":authority"}}

	e2eBackend.n, e2eBackend.header, e2eBackend.body = 0, nil, nil
	e2eBackend.status = 200
	if full && vBool("backend.notFound") {
		e2eBackend.status = 404
	}
	e2eBackend.respBody = vBytes("backend.body", 2)
	e2eBackend.trailer = full && vBool("backend.trailer")

	c := newE2EConn()
	c.feed(rec, frames)
	ln.conns <- c
	vYield()
	vReach("exchange-done")

	// ---- what the client got back
	var status string
	var respData []byte
	var xBackend string
	cookies := 0
	trailerSeen, endedOnce := "", 0
	dec := hpack.NewDecoder(4096, nil)
	for _, f := range e2eParse(c.written()) {
		if f.id != 1 {
			continue
		}
		switch f.typ {
		case 1:
			fields, err := dec.DecodeFull(f.payload)
			vAssert(err == nil, "response-headers-decode")
			if f.flags&0x1 != 0 {
				endedOnce++
			}
			for _, x := range fields {
				switch x.Name {
				case "x-checksum":
					trailerSeen = x.Value
				case ":status":
					status = x.Value
				case "x-backend":
					xBackend = x.Value
				case "set-cookie":
					cookies++
				}
			}
		case 0:
			respData = append(respData, f.payload...)
			if f.flags&0x1 != 0 {
				endedOnce++
			}
		}
	}
	probe := probes && strings.HasPrefix(ua, "kube-probe/")
	if probe {
		vReach("probe")
		vAssert(e2eBackend.n == 0, "probe-never-forwarded")
		vAssert(status == "200" && string(respData) == "OK", "probe-answered-locally")
	} else {
		vReach("forwarded")
		vAssert(e2eBackend.n == 1, "request-forwarded-once")
		if e2eBackend.n != 1 {
			return
		}
		h := e2eBackend.header
		// C08 request direction
		vAssert(e2eBackend.method == "POST", "method-intact")
		vAssert(e2eBackend.url == "http://backend.internal:8080/a/b?x=1&y=2", "path-and-query-intact-on-backend-url")
		vAssert(len(e2eBackend.body) == 2 && vAnd(e2eBackend.body[0] == body[0], e2eBackend.body[1] == body[1]), "request-body-intact")
		xc := h["X-Custom"]
		vAssert(len(xc) == 2 && xc[0] == "v;1, v2" && xc[1] == "second", "end-to-end-header-lines-intact")
		if ua != "" {
			vAssert(len(h["User-Agent"]) == 1 && h["User-Agent"][0] == ua, "user-agent-intact")
		}
		if preserve {
			vAssert(e2eBackend.host == "front.example", "host-preserved")
		} else {
			vAssert(e2eBackend.host == "backend.internal:8080" || e2eBackend.host == "", "host-is-the-backends")
		}
		// C09
		xff := h["X-Forwarded-For"]
		if clientXFF {
			vAssert(len(xff) == 1 && xff[0] == "203.0.113.5, 10.0.0.1, 198.51.100.9", "xff-appends-peer-ip-last")
		} else {
			vAssert(len(xff) == 1 && xff[0] == "198.51.100.9", "xff-is-peer-ip")
		}
		vAssert(len(h["X-Forwarded-Proto"]) == 1 && h["X-Forwarded-Proto"][0] == "https", "x-forwarded-proto-https")
		vAssert(len(h["X-Forwarded-Host"]) == 1 && h["X-Forwarded-Host"][0] == "front.example", "x-forwarded-host-is-client-host")
		vAssert(len(h["Forwarded"]) == 0, "client-forwarded-header-dropped")
		// C01 / C03 / C05
		_, md := metadata.NewContext(context.Background())
		md.ClientHelloRecord = rec
		wantJA3, err := fp.JA3Fingerprint(md)
		vAssert(err == nil, "record-parses")
		vAssert(len(h["X-Ja3-Fingerprint"]) == 1 && h["X-Ja3-Fingerprint"][0] == wantJA3, "ja3-header-is-ja3-of-this-connections-hello")
		vAssert(len(h["X-Http2-Fingerprint"]) == 1 && h["X-Http2-Fingerprint"][0] == want.Marshal(limit), "http2-header-is-fingerprint-of-this-connections-frames")
		vAssert(len(h["X-Ja4-Fingerprint"]) == 1 && h["X-Ja4-Fingerprint"][0] != "spoofed", "ja4-header-set-by-proxy")
		// C08 response direction
		wantStatus := map[int]string{200: "200", 404: "404"}[e2eBackend.status]
		vAssert(status == wantStatus, "status-intact")
		vAssert(len(respData) == 2 && vAnd(respData[0] == e2eBackend.respBody[0], respData[1] == e2eBackend.respBody[1]), "response-body-intact")
		vAssert(xBackend == "b1" && cookies == 2, "response-header-lines-intact")
		vAssert(endedOnce == 1, "response-ends-the-stream-exactly-once")
		if e2eBackend.trailer {
			vReach("backend-trailer")
			vAssert(trailerSeen == "c0ffee", "response-trailer-intact")
		} else {
			vAssert(trailerSeen == "", "no-trailer-invented")
		}
	}
	// ---- shutdown releases everything (C11)
	c.hangup()
	vYield()
	vAssert(c.closed(), "connection-closed-after-client-left")
	cancel()
	vYield()
	select {
	case <-served:
		vReach("server-stopped")
	default:
		vFail("serve-returns-after-context-cancelled")
	}
}

func VerifE2E_h2()          { e2eH2(false) }
func VerifE2E_h2_thorough() { e2eH2(true) }
