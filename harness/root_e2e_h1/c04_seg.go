//go:build verif

package fingerproxy

// C04 on the whole stack: however the network delivers the client's bytes - one, two, three, five
// or seven at a time, or everything at once with the HTTP request coalesced behind the ClientHello -
// the record handed to fingerprinting is exactly the ClientHello (the backend gets the JA3 of the
// record the client sent, symbolic cipher and session-id bytes) and the layers above see the
// client's byte stream unmodified and complete (the HTTP request behind it is parsed and forwarded
// with its body intact).

func VerifC04_e2e_segmentation() {
	vSchedulePolicy(vRange("schedulePolicy", 0, 2))
	ln, cancel, served := e2eH1Server()
	e2eBackend.n, e2eBackend.status, e2eBackend.respBody, e2eBackend.log = 0, 200, []byte("ok"), nil
	cipher := vU16("cipher")
	hb := []byte{3, 3}
	hb = append(hb, vBytes("random", 4)...)
	hb = append(hb, make([]byte, 28)...)
	hb = append(hb, 0, 0, 2, byte(cipher>>8), byte(cipher), 1, 0)
	hs := append([]byte{1, 0, 0, byte(len(hb))}, hb...)
	rec := append([]byte{0x16, 3, 1, 0, byte(len(hs))}, hs...)
	body := vBytes("body", 2)
	wire := append(append([]byte{}, rec...), "POST /seg HTTP/1.1\r\nHost: front.example\r\nContent-Length: 2\r\n\r\n"...)
	wire = append(wire, body...)
	c := newE2EConn()
	c.chunk = []int{0, 1, 2, 3, 5, 7}[vRange("bytesPerRead", 0, 5)]
	if vBool("requestArrivesLater") {
		c.feed(rec)
		ln.conns <- c
		vYield()
		c.feed(wire[len(rec):])
	} else {
		c.feed(wire)
		ln.conns <- c
	}
	vYield()
	vReach("served")
	vAssert(e2eBackend.n == 1 && len(e2eBackend.log) == 1, "request-behind-the-hello-forwarded-once")
	if len(e2eBackend.log) != 1 {
		return
	}
	got := e2eBackend.log[0]
	vAssert(len(got.ja3) == 1 && got.ja3[0] == c06JA3(rec), "fingerprint-of-exactly-the-record-sent")
	vAssert(got.path == "/seg" && len(e2eBackend.body) == 2 && vAnd(e2eBackend.body[0] == body[0], e2eBackend.body[1] == body[1]), "stream-above-the-capture-unmodified-and-complete")
	c.hangup()
	vYield()
	cancel()
	vYield()
	select {
	case <-served:
		vReach("server-stopped")
	default:
		vFail("serve-returns-after-context-cancelled")
	}
}
