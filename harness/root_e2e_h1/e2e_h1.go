//go:build verif

package fingerproxy

import (
	"context"
	"crypto/tls"
	"net/http"
	"net/url"
	"strings"
	"time"

	fp "github.com/wi1dcard/fingerproxy/pkg/fingerprint"
	"github.com/wi1dcard/fingerproxy/pkg/metadata"
)

func e2eH1(full bool) {
	vSchedulePolicy(vRange("schedulePolicy", 0, 2)) // thread mode, under each of the three scheduling policies
	preserve, probes := vBool("flag.preserveHost"), vBool("flag.kubernetesProbe")
	flagPreserveHost, flagEnableKubernetesProbe, flagVerboseLogs = e2eBoolp(preserve), e2eBoolp(probes), e2eBoolp(false)
	idle := []string{"3m", "45s"}[vRange("flag.idleTimeout", 0, 1)]
	flagTimeoutHTTPIdle, flagTimeoutHTTPRead, flagTimeoutHTTPWrite, flagTimeoutTLSHandshake = e2eStrp(idle), e2eStrp("0"), e2eStrp("0"), e2eStrp("10s")
	flagReverseProxyFlushInterval = e2eStrp("100ms")
	flagMaxHTTP2PriorityFrames = nil
	backend := &url.URL{Scheme: "http", Host: "backend.internal:8080"}
	http.DefaultTransport = &http.Transport{}
	handler := defaultReverseProxyHTTPHandler(backend, DefaultHeaderInjectors())
	ctx, cancel := context.WithCancel(context.Background())
	srv := defaultProxyServer(ctx, handler, &tls.Config{})
	srv.MetricsRegistry = nil
	ln := newE2EListener()
	served := make(chan struct{})
	go func() {
		srv.Serve(ln)
		close(served)
	}()

	ver := uint16(0x0303)
	if full {
		ver = []uint16{0x0303, 0x0301}[vRange("hello.version", 0, 1)]
	}
	cipher := []uint16{0x1301, 0x0a0a}[vRange("hello.cipher", 0, 1)]
	hb := []byte{byte(ver >> 8), byte(ver)}
	hb = append(hb, make([]byte, 32)...)
	hb = append(hb, 0, 0, 2, byte(cipher>>8), byte(cipher), 1, 0)
	hs := append([]byte{1, 0, 0, byte(len(hb))}, hb...)
	rec := append([]byte{0x16, 3, 1, 0, byte(len(hs))}, hs...)

	ua := []string{"", "curl/8.0 kube-probe/1.0", "kube-probe/1.27"}[vRange("userAgent", 0, 2)]
	clientXFF := vBool("clientSendsXFF")
	chunked := vBool("chunkedBody")
	body := vBytes("body", 2)
	req := "POST /a/b?x=1&y=2 HTTP/1.1\r\nHost: front.example\r\n"
	if ua != "" {
		req += "User-Agent: " + ua + "\r\n"
	}
	req += "X-Custom: v;1, v2\r\nX-Custom: second\r\n"
	if clientXFF {
		req += "X-Forwarded-For: 203.0.113.5, 10.0.0.1\r\n"
	}
	req += "X-Forwarded-Proto: http\r\nX-Forwarded-Host: evil.example\r\nForwarded: for=evil\r\n"
	req += "X-JA3-Fingerprint: spoofed\r\nX-HTTP2-Fingerprint: spoofed\r\n"
	req += "Connection: x-hop\r\nX-Hop: 1\r\nKeep-Alive: timeout=5\r\n"
	var wire []byte
	if chunked {
		req += "Transfer-Encoding: chunked\r\n\r\n"
		wire = append([]byte(req), "1\r\n"...)
		wire = append(wire, body[0])
		wire = append(wire, "\r\n1\r\n"...)
		wire = append(wire, body[1])
		wire = append(wire, "\r\n0\r\n\r\n"...)
	} else {
		req += "Content-Length: 2\r\n\r\n"
		wire = append([]byte(req), body...)
	}

	e2eBackend.n, e2eBackend.header, e2eBackend.body = 0, nil, nil
	e2eBackend.status = 200
	if full {
		e2eBackend.status = []int{200, 404}[vRange("backend.status", 0, 1)]
	}
	e2eBackend.respBody = vBytes("backend.body", 2)
	e2eBackend.trailer = full && vBool("backend.trailer")

	c := newE2EConn()
	c.feed(rec, wire)
	ln.conns <- c
	vYield()
	vReach("exchange-done")

	out := c.written()
	head := ""
	for i := 0; i+4 <= len(out); i++ {
		if out[i] == '\r' && out[i+1] == '\n' && out[i+2] == '\r' && out[i+3] == '\n' {
			head = string(out[:i])
			out = out[i+4:]
			break
		}
	}
	probe := probes && strings.HasPrefix(ua, "kube-probe/")
	if probe {
		vReach("probe")
		vAssert(e2eBackend.n == 0, "probe-never-forwarded")
		vAssert(strings.HasPrefix(head, "HTTP/1.1 200 OK\r\n") && string(out) == "OK", "probe-answered-locally")
	} else {
		vReach("forwarded")
		vAssert(e2eBackend.n == 1, "request-forwarded-once")
		if e2eBackend.n != 1 {
			return
		}
		h := e2eBackend.header
		vAssert(e2eBackend.method == "POST", "method-intact")
		vAssert(e2eBackend.url == "http://backend.internal:8080/a/b?x=1&y=2", "path-and-query-intact-on-backend-url")
		vAssert(len(e2eBackend.body) == 2 && vAnd(e2eBackend.body[0] == body[0], e2eBackend.body[1] == body[1]), "request-body-intact")
		xc := h["X-Custom"]
		vAssert(len(xc) == 2 && xc[0] == "v;1, v2" && xc[1] == "second", "end-to-end-header-lines-intact")
		if ua != "" {
			vAssert(len(h["User-Agent"]) == 1 && h["User-Agent"][0] == ua, "user-agent-intact")
		}
		vAssert(len(h["X-Hop"]) == 0 && len(h["Keep-Alive"]) == 0 && len(h["Connection"]) == 0, "hop-by-hop-headers-removed")
		if preserve {
			vAssert(e2eBackend.host == "front.example", "host-preserved")
		} else {
			vAssert(e2eBackend.host == "backend.internal:8080" || e2eBackend.host == "", "host-is-the-backends")
		}
		xff := h["X-Forwarded-For"]
		if clientXFF {
			vAssert(len(xff) == 1 && xff[0] == "203.0.113.5, 10.0.0.1, 198.51.100.9", "xff-appends-peer-ip-last")
		} else {
			vAssert(len(xff) == 1 && xff[0] == "198.51.100.9", "xff-is-peer-ip")
		}
		vAssert(len(h["X-Forwarded-Proto"]) == 1 && h["X-Forwarded-Proto"][0] == "https", "x-forwarded-proto-https")
		vAssert(len(h["X-Forwarded-Host"]) == 1 && h["X-Forwarded-Host"][0] == "front.example", "x-forwarded-host-is-client-host")
		vAssert(len(h["Forwarded"]) == 0, "client-forwarded-header-dropped")
		_, md := metadata.NewContext(context.Background())
		md.ClientHelloRecord = rec
		wantJA3, err := fp.JA3Fingerprint(md)
		vAssert(err == nil, "record-parses")
		vAssert(len(h["X-Ja3-Fingerprint"]) == 1 && h["X-Ja3-Fingerprint"][0] == wantJA3, "ja3-header-is-ja3-of-this-connections-hello")
		vAssert(len(h["X-Http2-Fingerprint"]) == 0, "no-http2-fingerprint-on-http1")
		vAssert(len(h["X-Ja4-Fingerprint"]) == 1 && h["X-Ja4-Fingerprint"][0] != "spoofed", "ja4-header-set-by-proxy")
		wantStatus := map[int]string{200: "HTTP/1.1 200 OK\r\n", 404: "HTTP/1.1 404 Not Found\r\n"}[e2eBackend.status]
		vAssert(strings.HasPrefix(head, wantStatus), "status-intact")
		vAssert(strings.Contains(head, "\r\nX-Backend: b1") && strings.Contains(head, "\r\nSet-Cookie: a=1") && strings.Contains(head, "\r\nSet-Cookie: b=2"), "response-header-lines-intact")
		if e2eBackend.trailer {
			vReach("backend-trailer")
			// chunked: "2\r\n" b0 b1 "\r\n0\r\nX-Checksum: c0ffee\r\n\r\n"
			tail := "\r\n0\r\nX-Checksum: c0ffee\r\n\r\n"
			vAssert(strings.Contains(head, "\r\nTransfer-Encoding: chunked") && strings.Contains(head, "\r\nTrailer: X-Checksum"), "trailer-announced")
			ok := len(out) == 3+2+len(tail) && string(out[:3]) == "2\r\n" && string(out[5:]) == tail
			vAssert(ok, "response-trailer-intact")
			if ok {
				vAssert(vAnd(out[3] == e2eBackend.respBody[0], out[4] == e2eBackend.respBody[1]), "response-body-intact")
			}
		} else {
			vAssert(len(out) == 2 && vAnd(out[0] == e2eBackend.respBody[0], out[1] == e2eBackend.respBody[1]), "response-body-intact")
		}
	}
	// ---- C11: the connection is idle now; net/http arms the read deadline with the idle timeout
	want, _ := time.ParseDuration(idle)
	dl, armed := c.armedDeadline()
	// (the engine's clock stands still at the zero time)
	vAssert(armed && dl.Unix()-time.Time{}.Unix() == int64(want/time.Second), "idle-connection-read-deadline-is-the-idle-timeout")
	vAssert(!c.closed(), "idle-connection-still-open-before-timeout")
	if vBool("clientHangsUp") {
		c.hangup()
	} else {
		c.expire() // the idle timeout passes
		vReach("idle-timeout-expired")
	}
	vYield()
	vAssert(c.closed(), "connection-closed")
	cancel()
	vYield()
	select {
	case <-served:
		vReach("server-stopped")
	default:
		vFail("serve-returns-after-context-cancelled")
	}
}

func VerifE2E_h1()          { e2eH1(false) }
func VerifE2E_h1_thorough() { e2eH1(true) }
