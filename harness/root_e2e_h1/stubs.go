//go:build verif

package fingerproxy

// net/http's server runs from SSA here: it needs its package state
//
//verif:init net/http

// End to end on the real stack, HTTP/1.1 client: as harness/root_e2e, but the stubbed handshake
// negotiates http/1.1, so the connection goes through the channel listener to the REAL net/http
// server (run from SSA, package initialiser included), the conn wrapper, updateConnContext and
// tlsStateHandler, and on to the same reverse proxy. Stubs: crypto/tls and the backend only.

import (
	"bytes"
	"context"
	"crypto/tls"
	"hash"
	"io"
	"net"
	"net/http"
	"time"
)

var e2eUnder = map[*tls.Conn]net.Conn{}

//verif:replace crypto/tls.Server
func e2eTLSServer(c net.Conn, cfg *tls.Config) *tls.Conn {
	tc := &tls.Conn{}
	e2eUnder[tc] = c
	return tc
}

// the handshake: reads one TLS record (the ClientHello) through the conn it was given - the real
// capturing conn - and succeeds
//
//verif:replace (*crypto/tls.Conn).HandshakeContext
func e2eHandshake(c *tls.Conn, ctx context.Context) error {
	u := e2eUnder[c]
	var hdr [5]byte
	if _, err := io.ReadFull(u, hdr[:]); err != nil {
		return err
	}
	body := make([]byte, int(hdr[3])<<8|int(hdr[4]))
	_, err := io.ReadFull(u, body)
	return err
}

//verif:replace (*crypto/tls.Conn).ConnectionState
func e2eConnectionState(c *tls.Conn) tls.ConnectionState {
	return tls.ConnectionState{NegotiatedProtocol: "http/1.1", Version: tls.VersionTLS13, CipherSuite: tls.TLS_AES_128_GCM_SHA256, HandshakeComplete: true, ServerName: "front.example"}
}

//verif:replace (*crypto/tls.Conn).Read
func e2eTLSRead(c *tls.Conn, p []byte) (int, error) { return e2eUnder[c].Read(p) }

//verif:replace (*crypto/tls.Conn).Write
func e2eTLSWrite(c *tls.Conn, p []byte) (int, error) { return e2eUnder[c].Write(p) }

//verif:replace (*crypto/tls.Conn).Close
func e2eTLSClose(c *tls.Conn) error { return e2eUnder[c].Close() }

//verif:replace (*crypto/tls.Conn).RemoteAddr
func e2eTLSRemoteAddr(c *tls.Conn) net.Addr { return e2eUnder[c].RemoteAddr() }

//verif:replace (*crypto/tls.Conn).LocalAddr
func e2eTLSLocalAddr(c *tls.Conn) net.Addr { return e2eUnder[c].LocalAddr() }

//verif:replace (*crypto/tls.Conn).SetDeadline
func e2eTLSSetDeadline(c *tls.Conn, t time.Time) error { return e2eUnder[c].SetDeadline(t) }

//verif:replace (*crypto/tls.Conn).SetReadDeadline
func e2eTLSSetReadDeadline(c *tls.Conn, t time.Time) error { return e2eUnder[c].SetReadDeadline(t) }

//verif:replace (*crypto/tls.Conn).SetWriteDeadline
func e2eTLSSetWriteDeadline(c *tls.Conn, t time.Time) error { return nil }

// Shutdown of the internal HTTP/1.1 server (polling with jittered timers) is not run; its accept
// loop ends through the channel listener's context
//
//verif:replace (*net/http.Server).Shutdown
func e2eH1Shutdown(s *http.Server, ctx context.Context) error { return nil }

//verif:replace (*net/http.Transport).Clone
func e2eTransportClone(t *http.Transport) *http.Transport { return &http.Transport{} }

var e2eBackend struct {
	n        int
	method   string
	url      string
	host     string
	header   http.Header
	body     []byte
	status   int
	respBody []byte
	trailer  bool      // the backend response announces and sends a trailer
	log      []e2eSeen // every forwarded request, in arrival order at the backend
}

type e2eSeen struct {
	path string
	ja3  []string
	ja4  []string
	xff  []string
}

// the backend
//
//verif:replace (*net/http.Transport).RoundTrip
func e2eRoundTrip(t *http.Transport, r *http.Request) (*http.Response, error) {
	e2eBackend.n++
	e2eBackend.method, e2eBackend.url, e2eBackend.host = r.Method, r.URL.String(), r.Host
	e2eBackend.header = r.Header.Clone()
	e2eBackend.log = append(e2eBackend.log, e2eSeen{path: r.URL.Path, ja3: r.Header["X-Ja3-Fingerprint"], ja4: r.Header["X-Ja4-Fingerprint"], xff: r.Header["X-Forwarded-For"]})
	if r.Body != nil {
		e2eBackend.body, _ = io.ReadAll(r.Body)
	}
	h := http.Header{}
	h.Set("X-Backend", "b1")
	h.Set("Content-Type", "application/x-verif") // otherwise the h2 server sniffs the (symbolic) body
	h.Add("Set-Cookie", "a=1")
	h.Add("Set-Cookie", "b=2")
	resp := &http.Response{StatusCode: e2eBackend.status, ProtoMajor: 1, ProtoMinor: 1, Header: h,
		Body: io.NopCloser(bytes.NewReader(e2eBackend.respBody)), ContentLength: int64(len(e2eBackend.respBody)), Request: r}
	if e2eBackend.trailer {
		resp.ContentLength = -1
		resp.TransferEncoding = []string{"chunked"}
		resp.Trailer = http.Header{"X-Checksum": {"c0ffee"}}
	}
	return resp, nil
}

type e2eHash struct{ data []byte }

func (h *e2eHash) Write(p []byte) (int, error) { h.data = append(h.data, p...); return len(p), nil }
func (h *e2eHash) Sum(b []byte) []byte         { return append(b, vHash("sha256", h.data, 32)...) }
func (h *e2eHash) Reset()                      { h.data = nil }
func (h *e2eHash) Size() int                   { return 32 }
func (h *e2eHash) BlockSize() int              { return 64 }

//verif:replace crypto/sha256.New
func e2eNewSHA256() hash.Hash { return &e2eHash{} }

func e2eStrp(s string) *string { return &s }
func e2eBoolp(b bool) *bool    { return &b }
