//go:build verif

package fingerproxy

// Modelled client connection and listener for the HTTP/1.1 end-to-end harness (thread mode).
// Read deadlines are modelled, because net/http relies on them: a deadline of time.Unix(1,0)
// (net/http's aLongTimeAgo, used to abort its background read) is in the past and makes Read
// return a timeout at once; any other non-zero deadline is in the future and expires only when
// the harness says so (expire); the zero deadline disarms.

import (
	"errors"
	"io"
	"net"
	"sync"
	"time"
)

var errE2EClosed = errors.New("use of closed network connection")

type e2eConn struct {
	name    string // remote address (default 198.51.100.9:50123)
	chunk   int    // at most this many bytes per Read (0: whatever is there)
	mu      sync.Mutex
	in      []byte
	rpos    int
	out     []byte
	closes  int
	gone    bool
	wake    chan struct{}
	rdl     time.Time
	rdlSets int
	expired bool
	idleDl  time.Time // the last future (non-zero, not long-ago) read deadline the server armed
}

type e2eTimeout struct{}

func (e2eTimeout) Error() string   { return "i/o timeout" }
func (e2eTimeout) Timeout() bool   { return true }
func (e2eTimeout) Temporary() bool { return true }

func newE2EConn() *e2eConn { return &e2eConn{wake: make(chan struct{}, 1)} }

func (c *e2eConn) kick() {
	select {
	case c.wake <- struct{}{}:
	default:
	}
}

func (c *e2eConn) feed(b ...[]byte) {
	c.mu.Lock()
	for _, x := range b {
		c.in = append(c.in, x...)
	}
	c.mu.Unlock()
	c.kick()
}

func (c *e2eConn) hangup() {
	c.mu.Lock()
	c.gone = true
	c.mu.Unlock()
	c.kick()
}

// the armed (future) read deadline passes
func (c *e2eConn) expire() {
	c.mu.Lock()
	c.expired = true
	c.mu.Unlock()
	c.kick()
}

func (c *e2eConn) armedDeadline() (time.Time, bool) {
	c.mu.Lock()
	defer c.mu.Unlock()
	return c.rdl, !c.rdl.IsZero() && c.rdl.Unix() != 1
}

func (c *e2eConn) written() []byte {
	c.mu.Lock()
	defer c.mu.Unlock()
	return c.out[:len(c.out):len(c.out)]
}

func (c *e2eConn) closed() bool {
	c.mu.Lock()
	defer c.mu.Unlock()
	return c.closes > 0
}

func (c *e2eConn) Read(p []byte) (int, error) {
	for {
		c.mu.Lock()
		switch {
		case c.closes > 0:
			c.mu.Unlock()
			return 0, errE2EClosed
		case !c.rdl.IsZero() && (c.rdl.Unix() == 1 || c.expired):
			c.mu.Unlock()
			return 0, e2eTimeout{}
		case c.rpos < len(c.in):
			rest := c.in[c.rpos:]
			if c.chunk > 0 && len(rest) > c.chunk {
				rest = rest[:c.chunk]
			}
			n := copy(p, rest)
			c.rpos += n
			c.mu.Unlock()
			return n, nil
		case c.gone:
			c.mu.Unlock()
			return 0, io.EOF
		}
		c.mu.Unlock()
		<-c.wake
	}
}

func (c *e2eConn) Write(p []byte) (int, error) {
	c.mu.Lock()
	defer c.mu.Unlock()
	if c.closes > 0 {
		return 0, errE2EClosed
	}
	c.out = append(c.out, p...)
	return len(p), nil
}

func (c *e2eConn) Close() error {
	c.mu.Lock()
	c.closes++
	c.mu.Unlock()
	c.kick()
	return nil
}
func (c *e2eConn) LocalAddr() net.Addr { return e2eAddr("192.0.2.1:443") }
func (c *e2eConn) RemoteAddr() net.Addr {
	if c.name != "" {
		return e2eAddr(c.name)
	}
	return e2eAddr("198.51.100.9:50123")
}
func (c *e2eConn) SetDeadline(t time.Time) error {
	return c.SetReadDeadline(t)
}
func (c *e2eConn) SetReadDeadline(t time.Time) error {
	c.mu.Lock()
	c.rdl = t
	c.rdlSets++
	c.mu.Unlock()
	c.kick()
	return nil
}
func (c *e2eConn) SetWriteDeadline(t time.Time) error { return nil }

type e2eAddr string

func (e2eAddr) Network() string  { return "tcp" }
func (a e2eAddr) String() string { return string(a) }

type e2eListener struct {
	conns  chan net.Conn
	closed chan struct{}
	once   sync.Once
}

func newE2EListener() *e2eListener {
	return &e2eListener{conns: make(chan net.Conn, 4), closed: make(chan struct{})}
}

func (l *e2eListener) Accept() (net.Conn, error) {
	select {
	case c := <-l.conns:
		return c, nil
	case <-l.closed:
		return nil, errE2EClosed
	}
}
func (l *e2eListener) Close() error   { l.once.Do(func() { close(l.closed) }); return nil }
func (l *e2eListener) Addr() net.Addr { return e2eAddr("192.0.2.1:443") }
