//go:build verif

package fingerproxy

// C06 for HTTP/1.1 on the real stack: two clients with different ClientHellos (symbolic cipher
// lists) connected at the same time, the first one reusing its connection (keep-alive) for a second
// request after the other client was served - or both clients sharing one peer address. Every
// request reaches the backend with the JA3/JA4 of the connection it arrived on and that peer's
// address.

import (
	"context"

	fp "github.com/wi1dcard/fingerproxy/pkg/fingerprint"
	"github.com/wi1dcard/fingerproxy/pkg/metadata"
)

func c06Hello(cipher uint16) []byte {
	hb := append([]byte{3, 3}, make([]byte, 32)...)
	hb = append(hb, 0, 0, 2, byte(cipher>>8), byte(cipher), 1, 0)
	hs := append([]byte{1, 0, 0, byte(len(hb))}, hb...)
	return append([]byte{0x16, 3, 1, 0, byte(len(hs))}, hs...)
}

func c06JA3(rec []byte) string {
	_, md := metadata.NewContext(context.Background())
	md.ClientHelloRecord = rec
	s, err := fp.JA3Fingerprint(md)
	if err != nil {
		vFail("record-parses")
	}
	return s
}

func VerifC06_h1_keepalive() {
	vSchedulePolicy(vRange("schedulePolicy", 0, 2)) // thread mode, under each of the three scheduling policies
	ln, cancel, served := e2eH1Server()
	e2eBackend.n, e2eBackend.status, e2eBackend.respBody, e2eBackend.log = 0, 200, []byte("ok"), nil
	ca, cb := vU16("cipherA"), vU16("cipherB")
	vAssume(ca != cb)
	recA, recB := c06Hello(ca), c06Hello(cb)
	a, b := newE2EConn(), newE2EConn()
	a.name, b.name = "198.51.100.1:1001", "198.51.100.2:2002"
	if vBool("samePeerAddress") {
		b.name = a.name
	}
	req := func(path string) []byte { return []byte("GET " + path + " HTTP/1.1\r\nHost: front.example\r\n\r\n") }
	switch vRange("interleaving", 0, 2) {
	case 0: // A1, B1, A2
		a.feed(recA, req("/a1"))
		ln.conns <- a
		vYield()
		b.feed(recB, req("/b1"))
		ln.conns <- b
		vYield()
		a.feed(req("/a2"))
	case 1: // both handshakes first, then B1, A1, A2
		a.feed(recA)
		b.feed(recB)
		ln.conns <- a
		ln.conns <- b
		vYield()
		b.feed(req("/b1"))
		vYield()
		a.feed(req("/a1"), req("/a2"))
	case 2: // A1 then A hangs up, B connects afterwards (a past connection), B1
		a.feed(recA, req("/a1"))
		ln.conns <- a
		vYield()
		a.hangup()
		vYield()
		b.feed(recB, req("/b1"))
		ln.conns <- b
	}
	vYield()
	vReach("all-served")
	wantA, wantB := c06JA3(recA), c06JA3(recB)
	seenA, seenB := 0, 0
	for _, r := range e2eBackend.log {
		own, addr := wantA, "198.51.100.1"
		if r.path == "/b1" {
			own, addr = wantB, "198.51.100.2"
			if b.name == a.name {
				addr = "198.51.100.1"
			}
			seenB++
		} else {
			seenA++
		}
		vAssert(len(r.ja3) == 1 && r.ja3[0] == own, "request-carries-ja3-of-its-own-connection")
		vAssert(len(r.xff) == 1 && r.xff[0] == addr, "request-carries-its-own-peer-address")
	}
	wantSeenA := 2
	if len(e2eBackend.log) > 0 && vRange("interleaving", 0, 2) == 2 {
		wantSeenA = 1
	}
	vAssert(seenA == wantSeenA && seenB == 1, "every-request-forwarded")
	a.hangup()
	b.hangup()
	vYield()
	cancel()
	vYield()
	select {
	case <-served:
		vReach("server-stopped")
	default:
		vFail("serve-returns-after-context-cancelled")
	}
}
