//go:build verif

package fingerproxy

// C10 / C11 for HTTP/1.1 clients on the real stack: the client hangs up - or goes silent until the
// server's read deadline passes - after every byte offset of the TLS ClientHello and of an HTTP/1.1
// request (with a body, and a pipelined second request); whatever the offset, the connection is
// closed, every goroutine serving it ends (the accept loops of the two servers remain), nothing
// panics, and a request is forwarded to the backend exactly when its header arrived completely.

import (
	"context"
	"crypto/tls"
	"net/http"
	"net/url"
)

func e2eH1Server() (ln *e2eListener, cancel context.CancelFunc, served chan struct{}) {
	flagPreserveHost, flagEnableKubernetesProbe, flagVerboseLogs = e2eBoolp(false), e2eBoolp(true), e2eBoolp(false)
	flagTimeoutHTTPIdle, flagTimeoutHTTPRead, flagTimeoutHTTPWrite, flagTimeoutTLSHandshake = e2eStrp("3m"), e2eStrp("30s"), e2eStrp("0"), e2eStrp("10s")
	flagReverseProxyFlushInterval = e2eStrp("100ms")
	flagMaxHTTP2PriorityFrames = nil
	http.DefaultTransport = &http.Transport{}
	handler := defaultReverseProxyHTTPHandler(&url.URL{Scheme: "http", Host: "backend.internal:8080"}, DefaultHeaderInjectors())
	ctx, cancelFn := context.WithCancel(context.Background())
	srv := defaultProxyServer(ctx, handler, &tls.Config{})
	srv.MetricsRegistry = nil
	ln = newE2EListener()
	served = make(chan struct{})
	go func() {
		srv.Serve(ln)
		close(served)
	}()
	return ln, cancelFn, served
}

func VerifE2E_h1_cuts() {
	vSchedulePolicy(vRange("schedulePolicy", 0, 2)) // thread mode, under each of the three scheduling policies
	ln, cancel, served := e2eH1Server()
	hb := append([]byte{3, 3}, make([]byte, 32)...)
	hb = append(hb, 0, 0, 2, 0x13, 0x01, 1, 0)
	hs := append([]byte{1, 0, 0, byte(len(hb))}, hb...)
	rec := append([]byte{0x16, 3, 1, 0, byte(len(hs))}, hs...)
	req1 := "POST /a HTTP/1.1\r\nHost: front.example\r\nContent-Length: 3\r\n\r\nabc"
	req2 := "GET /b HTTP/1.1\r\nHost: front.example\r\n\r\n"
	wire := append(append(append([]byte{}, rec...), req1...), req2...)
	e2eBackend.n, e2eBackend.status, e2eBackend.respBody = 0, 200, []byte("ok")
	vYield()
	base := vLiveThreads() // accept loops and shutdown watcher of the idle server

	cut := vRange("cut", 0, len(wire))
	// (a stall inside the TLS handshake is cut by the handshake context, which the stubbed handshake
	// does not model: that clause is C11's proxyserver harness)
	silent := cut >= len(rec) && vBool("clientGoesSilent")
	c := newE2EConn()
	c.feed(wire[:cut])
	ln.conns <- c
	vYield()
	if silent {
		// nothing more comes: the server's read deadline (header read timeout / idle timeout) passes
		vReach("client-silent")
		_, armed := c.armedDeadline()
		if cut >= len(rec) {
			vAssert(armed, "waiting-server-has-a-read-deadline-armed")
		}
		c.expire()
	} else {
		vReach("client-hangs-up")
		c.hangup()
	}
	vYield()
	vReach("connection-over")
	// forwarding starts when a request's header is complete (the body streams), never before
	forwarded := 0
	if cut >= len(rec)+len(req1)-3 {
		forwarded = 1
	}
	if cut >= len(wire) {
		forwarded = 2
	}
	vAssert(e2eBackend.n == forwarded, "forwarded-iff-request-header-complete")
	vAssert(c.closed(), "connection-closed")
	vAssert(vLiveThreads() == base, "connection-goroutines-ended")
	cancel()
	vYield()
	select {
	case <-served:
		vReach("server-stopped")
	default:
		vFail("serve-returns-after-context-cancelled")
	}
}
