//go:build verif

package hpack

// C18 (decoder) — for any byte string the decoder's result is what RFC 7541 section 6
// specifies (reference decoder below, written from the RFC), is the same however the block is
// cut into two writes, involves no panic, and the dynamic table never exceeds its limit.
// Stated restrictions: strings without the Huffman flag (Huffman is decided separately),
// table/name indices from {0,1,2} and >= 61 (first static entries, the static/dynamic boundary,
// dynamic entries, invalid indices), no string length limit configured.

type c18RefTable struct {
	ents    []HeaderField // newest first
	size    uint32
	max     uint32
	allowed uint32
}

func (t *c18RefTable) evict() {
	for t.size > t.max && len(t.ents) > 0 {
		last := t.ents[len(t.ents)-1]
		t.size -= uint32(len(last.Name) + len(last.Value) + 32)
		t.ents = t.ents[:len(t.ents)-1]
	}
}

func (t *c18RefTable) add(f HeaderField) {
	t.ents = append([]HeaderField{f}, t.ents...)
	t.size += uint32(len(f.Name) + len(f.Value) + 32)
	t.evict()
}

func (t *c18RefTable) get(i int) (HeaderField, bool) {
	if i <= 0 {
		return HeaderField{}, false
	}
	if i <= 61 {
		return staticTable.ents[i-1], true
	}
	if i-62 < len(t.ents) {
		return t.ents[i-62], true
	}
	return HeaderField{}, false
}

const (
	c18OK = iota
	c18NeedMore
	c18Error
)

// integer with an n-bit prefix at p[pos:]; returns the (symbolic) value, next position, status
func c18RefInt(n uint, p []byte, pos int) (int, int, int) {
	if pos >= len(p) {
		return 0, pos, c18NeedMore
	}
	mask := 1<<n - 1
	v := int(p[pos]) & mask
	pos++
	if v < mask {
		return v, pos, c18OK
	}
	shift := uint(0)
	for {
		if pos >= len(p) {
			return 0, pos, c18NeedMore
		}
		b := p[pos]
		pos++
		v += int(b&127) << shift
		shift += 7
		if b&128 == 0 {
			return v, pos, c18OK
		}
	}
}

func c18RefString(p []byte, pos int) (string, int, int) {
	if pos >= len(p) {
		return "", pos, c18NeedMore
	}
	vAssume(p[pos]&128 == 0) // no Huffman flag
	sl, next, st := c18RefInt(7, p, pos)
	if st != c18OK {
		return "", next, st
	}
	vAssume(sl <= len(p)+1) // longer declared lengths behave like len+1: more data needed
	l := vConcrete(sl)
	if next+l > len(p) {
		return "", next, c18NeedMore
	}
	return string(p[next : next+l]), next + l, c18OK
}

// indices are restricted to the first static entries, the static/dynamic boundary, the dynamic
// entries and the invalid values on either side
func c18Index(i int) int {
	vAssume(vOr(i <= 2, vAnd(i >= 61, i <= 65)))
	return vConcrete(i)
}

// c18RefDecode decodes one header block. class: c18OK (complete), c18NeedMore (ends inside a
// representation: truncated), c18Error (decoding error).
func c18RefDecode(p []byte, t *c18RefTable) (fields []HeaderField, class int) {
	pos := 0
	first := true
	for pos < len(p) {
		b := p[pos]
		switch {
		case b&128 != 0: // 6.1 indexed
			i, next, st := c18RefInt(7, p, pos)
			if st != c18OK {
				return fields, st
			}
			hf, ok := t.get(c18Index(i))
			if !ok {
				return fields, c18Error
			}
			fields = append(fields, HeaderField{Name: hf.Name, Value: hf.Value})
			pos = next
		case b&192 == 64, b&240 == 0, b&240 == 16: // 6.2 literals
			n, indexing, never := uint(4), false, b&240 == 16
			if b&192 == 64 {
				n, indexing = 6, true
			}
			i, next, st := c18RefInt(n, p, pos)
			if st != c18OK {
				return fields, st
			}
			var hf HeaderField
			if i > 0 {
				e, ok := t.get(c18Index(i))
				if !ok {
					return fields, c18Error
				}
				hf.Name = e.Name
			} else {
				hf.Name, next, st = c18RefString(p, next)
				if st != c18OK {
					return fields, st
				}
			}
			hf.Value, next, st = c18RefString(p, next)
			if st != c18OK {
				return fields, st
			}
			if indexing {
				t.add(hf)
			}
			hf.Sensitive = never
			fields = append(fields, hf)
			pos = next
		default: // 6.3 dynamic table size update (001xxxxx)
			if !first && t.size > 0 {
				return fields, c18Error
			}
			v, next, st := c18RefInt(5, p, pos)
			if st != c18OK {
				return fields, st
			}
			if uint32(v) > t.allowed {
				return fields, c18Error
			}
			t.max = uint32(v)
			t.evict()
			pos = next
			continue // size updates may follow one another at the beginning of a block (RFC 7541 4.2)
		}
		first = false
	}
	return fields, c18OK
}

type c18Run struct {
	emitted []HeaderField
	class   int
	d       *Decoder
}

func c18Init(limit uint32, initial []HeaderField, run *c18Run) {
	run.d = NewDecoder(limit, func(f HeaderField) { run.emitted = append(run.emitted, f) })
	for _, f := range initial {
		run.d.dynTab.add(f)
	}
}

func c18Classify(werr, cerr error) int {
	if werr != nil {
		return c18Error
	}
	if cerr != nil {
		return c18NeedMore
	}
	return c18OK
}

func c18SameFields(a, b []HeaderField) bool {
	if len(a) != len(b) {
		return false
	}
	ok := true
	for i := range a {
		ok = vAnd(ok, vAnd(vAnd(a[i].Name == b[i].Name, a[i].Value == b[i].Value), a[i].Sensitive == b[i].Sensitive))
	}
	return ok
}

func c18Decode(B int) {
	L := vRange("len", 0, B)
	p := vBytes("block", L)
	limit := []uint32{4096, 70}[vRange("limit", 0, 1)]
	var initial []HeaderField
	for i, n := 0, 2*vRange("initialEntries", 0, 1); i < n; i++ {
		initial = append(initial, []HeaderField{{Name: "a", Value: "1"}, {Name: "bb", Value: "22"}}[i])
	}
	ref := &c18RefTable{max: limit, allowed: limit}
	for _, f := range initial {
		ref.add(f)
	}
	wantFields, wantClass := c18RefDecode(p, ref)

	// ---- whole block in one write
	var whole c18Run
	c18Init(limit, initial, &whole)
	var werr, cerr error
	if vCatch(func() {
		_, werr = whole.d.Write(p)
		if werr == nil {
			cerr = whole.d.Close()
		}
	}) {
		vFail("decoder-no-panic")
		return
	}
	whole.class = c18Classify(werr, cerr)
	switch wantClass {
	case c18OK:
		vReach("block-complete")
	case c18NeedMore:
		vReach("block-truncated")
	default:
		vReach("block-rejected")
	}
	vAssert(whole.class == wantClass, "result-class-per-rfc")
	if werr != nil {
		_, isDE := werr.(DecodingError)
		vAssert(isDE, "rejection-is-decoding-error")
	}
	vAssert(c18SameFields(whole.emitted, wantFields), "emitted-fields-per-rfc")
	dt := &whole.d.dynTab
	vAssert(dt.size <= dt.maxSize && dt.maxSize <= dt.allowedMaxSize, "table-never-exceeds-limit")
	if wantClass != c18Error {
		vAssert(dt.maxSize == ref.max && dt.size == ref.size && dt.table.len() == len(ref.ents), "table-per-rfc")
	}

	// ---- the same block in two fragments
	if L == 0 {
		return
	}
	cut := vRange("cut", 0, L)
	var frag c18Run
	c18Init(limit, initial, &frag)
	var w1, w2, c2 error
	if vCatch(func() {
		_, w1 = frag.d.Write(p[:cut])
		if w1 == nil {
			_, w2 = frag.d.Write(p[cut:])
			if w2 == nil {
				c2 = frag.d.Close()
			}
		}
	}) {
		vFail("decoder-no-panic")
		return
	}
	frag.class = c18OK
	if w1 != nil || w2 != nil {
		frag.class = c18Error
	} else if c2 != nil {
		frag.class = c18NeedMore
	}
	vReach("fragmented")
	vAssert(frag.class == whole.class, "fragmentation-same-result-class")
	vAssert(c18SameFields(frag.emitted, whole.emitted), "fragmentation-same-fields")
	ft := &frag.d.dynTab
	vAssert(ft.size == dt.size && ft.maxSize == dt.maxSize && ft.table.len() == dt.table.len(), "fragmentation-same-table")
}

func VerifC18_decode_quick()    { c18Decode(3) }
func VerifC18_decode_thorough() { c18Decode(4) }

// The static table is RFC 7541 Appendix A (spot checks + size).
func VerifC18_static_table() {
	vReach("static-table")
	vAssert(staticTable.len() == 61, "static-table-61-entries")
	chk := func(i int, n, v string) {
		e := staticTable.ents[i-1]
		vAssert(e.Name == n && e.Value == v, "static-table-entry")
	}
	chk(1, ":authority", "")
	chk(2, ":method", "GET")
	chk(3, ":method", "POST")
	chk(7, ":scheme", "https")
	chk(8, ":status", "200")
	chk(14, ":status", "500")
	chk(16, "accept-encoding", "gzip, deflate")
	chk(31, "content-type", "")
	chk(58, "user-agent", "")
	chk(61, "www-authenticate", "")
}

// Fragment independence with a string-length limit (SetMaxStringLength): a literal field with a NEW
// name carries two strings, each of which may be as long as the limit; the decoder buffers an
// incomplete representation between Write calls and has a last-resort cap on that buffer. A legal
// block must decode to the same fields wherever it is cut, and strings above the limit must be
// refused wherever it is cut. Lengths sit around the limit (0, L-1, L, L+1), first and last byte of
// each string are symbolic, the cut is every position of the block.
func c18FragMax(Ls []int) {
	L := Ls[vRange("maxStringLength", 0, len(Ls)-1)]
	lens := []int{0, L - 1, L, L + 1}
	n1, n2 := lens[vRange("nameLen", 0, 3)], lens[vRange("valueLen", 0, 3)]
	kind := []byte{0x00, 0x40}[vRange("literalKind", 0, 1)] // without indexing / with incremental indexing
	mk := func(tag string, n int) []byte {
		s := make([]byte, n)
		for i := range s {
			s[i] = 'x'
		}
		if n > 0 {
			s[0] = vU8(tag + ".first")
		}
		if n > 1 {
			s[n-1] = vU8(tag + ".last")
		}
		return s
	}
	name, value := mk("name", n1), mk("value", n2)
	p := []byte{kind, byte(n1)}
	p = append(p, name...)
	p = append(p, byte(n2))
	p = append(p, value...)
	p = append(p, 0x82) // :method GET
	run := func(cut int) (fields []HeaderField, class int, panicked bool) {
		d := NewDecoder(4096, func(f HeaderField) { fields = append(fields, f) })
		d.SetMaxStringLength(L)
		var w1, w2, c2 error
		panicked = vCatch(func() {
			if cut >= 0 {
				_, w1 = d.Write(p[:cut])
			}
			if w1 == nil {
				from := 0
				if cut >= 0 {
					from = cut
				}
				_, w2 = d.Write(p[from:])
				if w2 == nil {
					c2 = d.Close()
				}
			}
		})
		class = c18OK
		if w1 != nil || w2 != nil {
			class = c18Error
		} else if c2 != nil {
			class = c18NeedMore
		}
		return
	}
	wf, wc, wp := run(-1)
	if wp {
		vFail("decoder-no-panic")
		return
	}
	if n1 <= L && n2 <= L {
		vReach("strings-within-limit")
		vAssert(wc == c18OK && len(wf) == 2, "legal-block-within-string-limit-decodes")
		if wc == c18OK && len(wf) == 2 {
			vAssert(vAnd(wf[0].Name == string(name), wf[0].Value == string(value)), "literal-field-as-sent")
			vAssert(wf[1].Name == ":method" && wf[1].Value == "GET", "field-after-long-literal-as-sent")
		}
	} else {
		vReach("string-above-limit")
		vAssert(wc == c18Error, "string-above-limit-refused")
	}
	cut := vRange("cut", 0, len(p))
	ff, fc, fp := run(cut)
	if fp {
		vFail("decoder-no-panic")
		return
	}
	vReach("fragmented-long-literal")
	vAssert(fc == wc, "fragmentation-same-result-class")
	if wc == c18OK {
		vAssert(c18SameFields(ff, wf), "fragmentation-same-fields")
	}
}

func VerifC18_fragments_maxstrlen_quick()    { c18FragMax([]int{14, 40}) }
func VerifC18_fragments_maxstrlen_thorough() { c18FragMax([]int{13, 14, 15, 16, 40, 64, 100}) } // limits below 7 also refuse the indexed ":method" field that follows
