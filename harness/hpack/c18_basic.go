//go:build verif

package hpack

// C18 — HPACK codec (the in-tree copy pkg/http2/hpack): integer codec, Huffman codec, dynamic
// table, encoder->decoder step.

import (
	"bytes"
)

// ---- integers: readVarInt(n, appendVarInt(flags|_, n, i) ++ rest) = (i, rest)
func c18Varint(maxBits uint) {
	n := byte(vRange("prefixBits", 1, 8))
	i := vU64("i")
	vAssume(i < 1<<maxBits)
	enc := appendVarInt(nil, n, i)
	if len(enc) == 0 {
		vFail("varint-emits-something")
		return
	}
	// the bits above the prefix belong to the caller (representation type flags)
	if n < 8 {
		hi := vU8("flagBits")
		enc[0] |= hi &^ (1<<n - 1)
	}
	rest := vBytes("rest", vRange("restLen", 0, 1))
	p := append(append([]byte{}, enc...), rest...)
	got, remain, err := readVarInt(n, p)
	vReach("varint-roundtrip")
	vAssert(err == nil, "varint-roundtrip-no-error")
	vAssert(got == i, "varint-roundtrip-value")
	vAssert(string(remain) == string(rest), "varint-roundtrip-remainder")
	// every proper prefix of the encoding asks for more data and consumes nothing
	for k := 0; k < len(enc); k++ {
		_, rem, e := readVarInt(n, p[:k])
		vAssert(e == errNeedMore && len(rem) == k, "varint-prefix-needs-more")
	}
}

func VerifC18_varint_quick()    { c18Varint(32) }
func VerifC18_varint_thorough() { c18Varint(62) }

// arbitrary bytes: no panic; value = reference; needMore iff no terminating byte was seen
func c18VarintTotal(B int) {
	n := byte(vRange("prefixBits", 1, 8))
	L := vRange("len", 0, B)
	p := vBytes("p", L)
	var got uint64
	var remain []byte
	var err error
	if vCatch(func() { got, remain, err = readVarInt(n, p) }) {
		vFail("varint-no-panic")
		return
	}
	if L == 0 {
		vAssert(err == errNeedMore, "varint-empty-needs-more")
		return
	}
	mask := uint64(1)<<n - 1
	pre := uint64(p[0]) & mask
	if pre < mask {
		vReach("varint-short-form")
		vAssert(err == nil && got == pre && len(remain) == L-1, "varint-short-form")
		return
	}
	// reference for the continuation form
	val := mask
	done := false
	used := 1
	overflow := false
	var m uint
	for k := 1; k < L && !done && !overflow; k++ {
		val += uint64(p[k]&127) << m
		used = k + 1
		if p[k]&128 == 0 {
			done = true
			break
		}
		m += 7
		if m >= 63 {
			overflow = true
		}
	}
	switch {
	case done:
		vReach("varint-long-form")
		vAssert(err == nil && got == val && len(remain) == L-used, "varint-long-form")
	case overflow:
		vReach("varint-overflow")
		_, isDE := err.(DecodingError)
		vAssert(isDE && len(remain) == L, "varint-overflow-rejected")
	default:
		vReach("varint-needs-more")
		vAssert(err == errNeedMore && len(remain) == L, "varint-truncated-needs-more")
	}
}

func VerifC18_varint_total_quick()    { c18VarintTotal(4) }
func VerifC18_varint_total_thorough() { c18VarintTotal(11) }

// ---- Huffman: decode(encode(s)) = s, HuffmanEncodeLength is the emitted length
func c18Huffman(concretePrefix []byte) {
	s := append(append([]byte{}, concretePrefix...), vU8("sym"))
	enc := AppendHuffmanString(nil, string(s))
	vAssert(uint64(len(enc)) == HuffmanEncodeLength(string(s)), "huffman-encode-length")
	var buf bytes.Buffer
	var err error
	if vCatch(func() { err = huffmanDecode(&buf, 0, enc) }) {
		vFail("huffman-no-panic")
		return
	}
	vReach("huffman-roundtrip")
	vAssert(err == nil, "huffman-decodes-own-output")
	vAssert(buf.String() == string(s), "huffman-roundtrip")
}

func VerifC18_huffman_1() { c18Huffman(nil) }
func VerifC18_huffman_2() {
	// second symbol fully symbolic after a representative first symbol of each code-length class
	first := []byte{'a', '0', ' ', 'X', '~', 0x00, 0x80, 0xff, 0x0a}[vRange("first", 0, 8)]
	c18Huffman([]byte{first})
}

// arbitrary input: no panic; accepted only with valid padding (strictly fewer than 8 bits, all ones)
func VerifC18_huffman_total_quick()    { c18HuffmanTotal(1) }
func VerifC18_huffman_total_thorough() { c18HuffmanTotal(2) }

func c18HuffmanTotal(B int) {
	L := vRange("len", 0, B)
	v := vBytes("v", L)
	var buf bytes.Buffer
	var err error
	if vCatch(func() { err = huffmanDecode(&buf, 0, v) }) {
		vFail("huffman-no-panic")
		return
	}
	vReach("huffman-arbitrary")
	if err == nil {
		// whatever was accepted re-encodes to exactly the input (canonical: valid padding, no EOS)
		re := AppendHuffmanString(nil, buf.String())
		vAssert(string(re) == string(v), "huffman-accepts-only-canonical-encodings")
	}
}

// a valid encoding followed by one more arbitrary byte, at every bit alignment: accepted only if
// the whole input is itself the canonical encoding of what was decoded (no symbol may be
// swallowed as padding, no 8-bit padding accepted)
func VerifC18_huffman_trailing() {
	prefix := []string{"", "0", "00", "000", "0000", "00000", "000000", "0000000"}[vRange("alignment", 0, 7)]
	sym := []byte{'0', 'b', 'j', '&', 0x00}[vRange("symbolClass", 0, 4)] // 5, 6, 7, 8 and 13 bit codes
	enc := AppendHuffmanString(nil, prefix+string([]byte{sym}))
	v := append(append([]byte{}, enc...), vU8("extra"))
	var buf bytes.Buffer
	var err error
	if vCatch(func() { err = huffmanDecode(&buf, 0, v) }) {
		vFail("huffman-no-panic")
		return
	}
	vReach("huffman-trailing-byte")
	if err == nil {
		re := AppendHuffmanString(nil, buf.String())
		vAssert(string(re) == string(v), "huffman-accepts-only-canonical-encodings")
	}
}

// ---- dynamic table step: size accounting, oldest-first minimal eviction, search/at consistency
func c18Field(tag string) HeaderField {
	return HeaderField{Name: "n" + vString(tag+".name", vRange(tag+".nameLen", 0, 1)), Value: vString(tag+".value", vRange(tag+".valueLen", 0, 2))}
}

func VerifC18_table_step() {
	d := NewDecoder(4096, func(HeaderField) {})
	k := vRange("entries", 0, 2)
	var ents []HeaderField
	for i := 0; i < k; i++ {
		f := c18Field(vName("e", i))
		ents = append(ents, f)
		d.dynTab.add(f)
	}
	f := c18Field("new")
	max := vU32("maxSize")
	vAssume(max <= 4096)
	if vBool("resize") {
		vReach("table-resized")
		d.dynTab.setMaxSize(max)
	} else {
		d.dynTab.maxSize = max
		// a table that is within its limit before the step
		var sz uint32
		for _, e := range ents {
			sz += e.Size()
		}
		vAssume(sz <= max)
		vReach("entry-added")
		d.dynTab.add(f)
		ents = append(ents, f)
	}
	dt := &d.dynTab
	// reference: drop oldest entries until the rest fits
	var sz uint32
	for _, e := range ents {
		sz += e.Size()
	}
	drop := 0
	for sz > max && drop < len(ents) {
		sz -= ents[drop].Size()
		drop++
	}
	keep := ents[drop:]
	vAssert(dt.size <= dt.maxSize, "table-never-exceeds-limit")
	vAssert(dt.size == sz, "table-size-is-sum-of-entries")
	vAssert(dt.table.len() == len(keep), "evicts-oldest-minimal-prefix")
	if dt.table.len() == len(keep) {
		for i, e := range keep {
			g := dt.table.ents[i]
			vAssert(vAnd(g.Name == e.Name, g.Value == e.Value), "survivors-in-insertion-order")
			// index arithmetic of Decoder.at: newest entry has the lowest dynamic index
			idx := uint64(staticTable.len() + len(keep) - i)
			hf, ok := d.at(idx)
			vAssert(ok && vAnd(hf.Name == e.Name, hf.Value == e.Value), "at-finds-entry")
		}
	}
	_, ok := d.at(uint64(staticTable.len() + len(keep) + 1))
	vAssert(!ok, "index-past-table-invalid")
	_, ok0 := d.at(0)
	vAssert(!ok0, "index-zero-invalid")
}

// ---- encoder -> decoder step from equal tables
type c18Sink struct{ bytes.Buffer }

func c18Roundtrip() {
	var out c18Sink
	e := NewEncoder(&out)
	var emitted []HeaderField
	d := NewDecoder(4096, func(f HeaderField) { emitted = append(emitted, f) })
	// same history on both sides: 0..1 earlier fields
	// string bytes range over 0x80..0x8f: their Huffman codes are longer than 8 bits, so the
	// strings travel raw (Huffman coding itself is decided by the huffman harnesses)
	sym := func(name string, n int) string {
		b := make([]byte, n)
		for i := range b {
			b[i] = 0x80 | vU8(vName(name, i))&0x0f
		}
		return string(b)
	}
	mk := func(tag string) HeaderField {
		return HeaderField{Name: "x" + sym(tag+".name", vRange(tag+".nameLen", 0, 1)), Value: sym(tag+".value", vRange(tag+".valueLen", 0, 2)), Sensitive: vBool(tag + ".sensitive")}
	}
	if vBool("history") {
		h := mk("h")
		if e.WriteField(h) != nil {
			vFail("encoder-no-error")
			return
		}
		d.Write(out.Bytes())
		d.Close() // end of the earlier header block
		out.Reset()
		emitted = nil
	}
	if vBool("tableSizeChange") {
		v := vU32("newTableSize")
		vAssume(v <= 4096)
		e.SetMaxDynamicTableSize(v)
		vReach("pending-table-size-update")
	}
	f := mk("f")
	if e.WriteField(f) != nil {
		vFail("encoder-no-error")
		return
	}
	var werr error
	if vCatch(func() { _, werr = d.Write(out.Bytes()) }) {
		vFail("decoder-no-panic")
		return
	}
	vReach("field-roundtrip")
	vAssert(werr == nil && d.Close() == nil, "decoder-accepts-encoder-output")
	if len(emitted) != 1 {
		vFail("exactly-one-field-emitted")
		return
	}
	g := emitted[0]
	vAssert(vAnd(g.Name == f.Name, g.Value == f.Value), "field-preserved")
	vAssert(g.Sensitive == f.Sensitive, "sensitivity-preserved")
	// tables stay identical
	et, dt := &e.dynTab, &d.dynTab
	vAssert(et.size == dt.size && et.maxSize == dt.maxSize && et.table.len() == dt.table.len(), "tables-same-shape")
	if et.table.len() == dt.table.len() {
		for i := range et.table.ents {
			vAssert(vAnd(et.table.ents[i].Name == dt.table.ents[i].Name, et.table.ents[i].Value == dt.table.ents[i].Value), "tables-same-entries")
		}
	}
	vAssert(dt.size <= dt.maxSize, "table-never-exceeds-limit")
}

func VerifC18_roundtrip() { c18Roundtrip() }


// encoder -> decoder over a schedule of table-size changes and fields (concrete fields, symbolic
// sizes): after every field the decoder has emitted exactly that field and both tables agree.
func c18Schedule(K int, withLimit bool) {
	var out c18Sink
	e := NewEncoder(&out)
	var emitted []HeaderField
	d := NewDecoder(4096, func(f HeaderField) { emitted = append(emitted, f) })
	fields := []HeaderField{{Name: "xa", Value: "\x81"}, {Name: "xb", Value: "\x82\x83"}, {Name: "xa", Value: "\x81"}, {Name: "xc", Value: ""}}
	nf := 0
	for i := 0; i < K; i++ {
		if vBool(vName("resize", i)) {
			v := vU32(vName("size", i))
			vAssume(v <= 200)
			if withLimit && vBool(vName("viaLimit", i)) {
				// the peer announced a new SETTINGS_HEADER_TABLE_SIZE: the decoder allows it at once,
				// the encoder is told through SetMaxDynamicTableSizeLimit
				d.SetAllowedMaxDynamicTableSize(v)
				e.SetMaxDynamicTableSizeLimit(v)
			} else {
				e.SetMaxDynamicTableSize(v)
			}
			continue
		}
		f := fields[nf%len(fields)]
		nf++
		out.Reset()
		emitted = nil
		if e.WriteField(f) != nil {
			vFail("encoder-no-error")
			return
		}
		var werr error
		if vCatch(func() { _, werr = d.Write(out.Bytes()) }) {
			vFail("decoder-no-panic")
			return
		}
		vAssert(werr == nil && d.Close() == nil, "decoder-accepts-encoder-output")
		if len(emitted) != 1 {
			vFail("exactly-one-field-emitted")
			return
		}
		vAssert(emitted[0].Name == f.Name && emitted[0].Value == f.Value, "field-preserved")
		et, dt := &e.dynTab, &d.dynTab
		vAssert(et.size == dt.size && et.maxSize == dt.maxSize && et.table.len() == dt.table.len(), "tables-same-shape")
		vAssert(dt.size <= dt.maxSize, "table-never-exceeds-limit")
	}
	vReach("schedule-done")
}

func VerifC18_schedule_quick()    { c18Schedule(6, false) }
func VerifC18_schedule_thorough() { c18Schedule(8, false) }
func VerifC18_schedule_limit_quick()    { c18Schedule(5, true) }
func VerifC18_schedule_limit_thorough() { c18Schedule(6, true) }
