//go:build verif

package fingerproxy

// Wiring obligations on the real root package: which fingerprint function sits behind which
// header name (C01/C02/C03), the priority-frame limit (C03), probe support (C15), and that
// every timeout flag reaches the server that enforces it - for HTTP/2 connections the idle
// timeout in force is (*http2.Server).IdleTimeout, the only field serverConn.serve reads (C11).

import (
	"context"
	"crypto/tls"
	"hash"
	"math"
	"net/http"
	"net/http/httputil"
	"net/url"
	"time"

	"github.com/wi1dcard/fingerproxy/pkg/certwatcher"
	fp "github.com/wi1dcard/fingerproxy/pkg/fingerprint"
	"github.com/wi1dcard/fingerproxy/pkg/metadata"
	"github.com/wi1dcard/fingerproxy/pkg/reverseproxy"
)

func strp(s string) *string { return &s }
func boolp(b bool) *bool    { return &b }

var wiringDurations = []string{"0", "90s", "5m", "1h2m3s", "750ms"}

func wiringSetTimeoutFlags() (idle, read, write, hs time.Duration) {
	pick := func(name string) (string, time.Duration) {
		s := wiringDurations[vRange(name, 0, len(wiringDurations)-1)]
		d, _ := time.ParseDuration(s)
		return s, d
	}
	var a, b, c, d string
	a, idle = pick("flag.idle")
	b, read = pick("flag.read")
	c, write = pick("flag.write")
	d, hs = pick("flag.handshake")
	flagTimeoutHTTPIdle, flagTimeoutHTTPRead, flagTimeoutHTTPWrite, flagTimeoutTLSHandshake = strp(a), strp(b), strp(c), strp(d)
	flagVerboseLogs = boolp(false)
	return
}

func VerifC11_timeout_wiring() {
	idle, read, write, hs := wiringSetTimeoutFlags()
	svr := defaultProxyServer(context.Background(), http.NotFoundHandler(), &tls.Config{})
	vReach("wired")
	vAssert(svr.HTTPServer.IdleTimeout == idle, "h1-idle-timeout")
	vAssert(svr.HTTPServer.ReadTimeout == read, "h1-read-timeout")
	vAssert(svr.HTTPServer.WriteTimeout == write, "h1-write-timeout")
	vAssert(svr.TLSHandshakeTimeout == hs, "handshake-timeout")
	if idle > 0 {
		vReach("idle-configured")
	}
	// "whichever protocol it negotiated": the HTTP/2 server must cut idle connections too
	vAssert(svr.HTTP2Server != nil && svr.HTTP2Server.IdleTimeout == idle, "h2-idle-timeout")
}

func wiringInjector(i int) *fp.FingerprintHeaderInjector {
	inj, ok := DefaultHeaderInjectors()[i].(*fp.FingerprintHeaderInjector)
	if !ok {
		vFail("injector-type")
	}
	return inj
}

func VerifC03_limit_wiring() {
	var want uint
	if vBool("flagsInitialised") {
		v := vUint("maxPriorityFrames")
		flagMaxHTTP2PriorityFrames = &v
		want = v
	} else {
		flagMaxHTTP2PriorityFrames = nil
		want = math.MaxUint
	}
	injs := DefaultHeaderInjectors()
	vAssert(len(injs) == 3, "three-default-injectors")
	vAssert(injs[0].GetHeaderName() == "X-JA3-Fingerprint", "ja3-header-name")
	vAssert(injs[1].GetHeaderName() == "X-JA4-Fingerprint", "ja4-header-name")
	vAssert(injs[2].GetHeaderName() == "X-HTTP2-Fingerprint", "http2-header-name")
	// the HTTP/2 injector renders the connection's record with exactly the configured limit,
	// and nothing at all unless the connection negotiated h2
	md := &metadata.Metadata{}
	md.HTTP2Frames.WindowUpdateIncrement = vU32("wu")
	for i, n := 0, vRange("nprio", 0, 2); i < n; i++ {
		md.HTTP2Frames.Priorities = append(md.HTTP2Frames.Priorities, metadata.Priority{StreamId: vU32(vName("pid", i)), Weight: vU8(vName("pw", i))})
	}
	proto := []string{"h2", "http/1.1", "", "h2c", "H2"}[vRange("proto", 0, 4)]
	md.ConnectionState.NegotiatedProtocol = proto
	got, err := wiringInjector(2).FingerprintFunc(md)
	vAssert(err == nil, "http2-fingerprint-no-error")
	if proto == "h2" {
		vReach("h2-fingerprint")
		vAssert(got == md.HTTP2Frames.Marshal(want), "http2-fingerprint-uses-configured-limit")
	} else {
		vReach("no-h2-no-fingerprint")
		vAssert(got == "", "no-http2-fingerprint-without-h2")
	}
}

// JA3/JA4 injectors call the JA3/JA4 functions on the metadata stored in the request context.
func VerifC01_wiring() {
	flagMaxHTTP2PriorityFrames = nil
	md := &metadata.Metadata{ClientHelloRecord: []byte{0x16, 3, 1, 0, 2, vU8("b5"), vU8("b6")}}
	for i := 0; i < 2; i++ {
		inj := wiringInjector(i)
		got, gerr := inj.FingerprintFunc(md)
		var want string
		var werr error
		if i == 0 {
			want, werr = fp.JA3Fingerprint(md)
		} else {
			want, werr = fp.JA4Fingerprint(md)
		}
		vAssert((gerr == nil) == (werr == nil) && got == want, "injector-calls-the-named-fingerprint")
	}
	vReach("ja-wiring")
}

func VerifC15_probe_wiring() {
	on := vBool("flagEnableKubernetesProbe")
	flagEnableKubernetesProbe = boolp(on)
	flagPreserveHost = boolp(vBool("flagPreserveHost"))
	flagReverseProxyFlushInterval = strp("100ms")
	http.DefaultTransport = &http.Transport{}
	h, ok := defaultReverseProxyHTTPHandler(&url.URL{Scheme: "http", Host: "b"}, nil).(*reverseproxy.HTTPHandler)
	if !ok {
		vFail("handler-type")
		return
	}
	vReach("probe-wiring")
	vAssert((h.IsProbeRequest != nil) == on, "probe-support-follows-flag")
	vAssert(h.PreserveHost == *flagPreserveHost, "preserve-host-follows-flag")
	if on {
		r := &http.Request{Header: http.Header{"User-Agent": []string{"kube-probe/1.2"}}}
		vAssert(h.IsProbeRequest(r), "installed-predicate-is-the-kube-probe-test")
	}
}

//verif:replace (*net/http.Transport).Clone
func stubTransportClone(t *http.Transport) *http.Transport { return &http.Transport{} }

// C14 wiring: the TLS config asks the certificate watcher for the certificate at every handshake.
func VerifC14_tls_config_wiring() {
	cw := &certwatcher.CertWatcher{}
	cfg := defaultTLSConfig(cw)
	vReach("tls-config")
	if cfg.GetCertificate == nil {
		vFail("tls-config-uses-the-watcher")
		return
	}
	got, err := cfg.GetCertificate(nil)
	want, _ := cw.GetCertificate(nil)
	vAssert(err == nil && got == want, "tls-config-uses-the-watcher")
	vAssert(len(cfg.Certificates) == 0, "no-static-certificate-shadows-the-watcher")
}

type wiringHash struct{ data []byte }

func (h *wiringHash) Write(p []byte) (int, error) { h.data = append(h.data, p...); return len(p), nil }
func (h *wiringHash) Sum(b []byte) []byte         { return append(b, vHash("sha256", h.data, 32)...) }
func (h *wiringHash) Reset()                      { h.data = nil }
func (h *wiringHash) Size() int                   { return 32 }
func (h *wiringHash) BlockSize() int              { return 64 }

// SHA-256 is uninterpreted here as in the C02 harnesses (the JA4 injector runs too)
//
//verif:replace crypto/sha256.New
func wiringNewSHA256() hash.Hash { return &wiringHash{} }

// C01/C03 end to end at repository level: a request that arrived on a connection with metadata
// md, pushed through the real rewriteFunc with the real default injectors, leaves with
// X-JA3-Fingerprint = JA3 of md's record and X-HTTP2-Fingerprint = the record's fingerprint
// (HTTP/2) or none (HTTP/1.1) - whatever the client put under those names.
func VerifC01_header_end_to_end() {
	flagMaxHTTP2PriorityFrames = nil
	rp := &httputil.ReverseProxy{}
	reverseproxy.NewHTTPHandler(&url.URL{Scheme: "http", Host: "backend:80"}, rp, DefaultHeaderInjectors())
	// a minimal ClientHello: version, one symbolic cipher, no extensions
	ver, cipher := vU16("version"), vU16("cipher")
	body := []byte{byte(ver >> 8), byte(ver)}
	body = append(body, make([]byte, 32)...)
	body = append(body, 0, 0, 2, byte(cipher>>8), byte(cipher), 1, 0)
	hs := append([]byte{1, 0, 0, byte(len(body))}, body...)
	rec := append([]byte{0x16, 3, 1, 0, byte(len(hs))}, hs...)
	ctx, md := metadata.NewContext(context.Background())
	md.ClientHelloRecord = rec
	proto := []string{"h2", "http/1.1"}[vRange("proto", 0, 1)]
	md.ConnectionState.NegotiatedProtocol = proto
	md.HTTP2Frames.WindowUpdateIncrement = vU32("wu")
	in := (&http.Request{Method: "GET", URL: &url.URL{Path: "/"}, Header: http.Header{}, Host: "front", RemoteAddr: "192.0.2.1:9"}).WithContext(ctx)
	if vBool("clientSpoofs") {
		in.Header["X-Ja3-Fingerprint"] = []string{"spoofed"}
		in.Header["X-Http2-Fingerprint"] = []string{"spoofed"}
	}
	out := in.Clone(ctx)
	rp.Rewrite(&httputil.ProxyRequest{In: in, Out: out})
	vReach("rewritten-with-default-injectors")
	wantJA3, err := fp.JA3Fingerprint(md)
	vAssert(err == nil, "record-parses")
	got := out.Header["X-Ja3-Fingerprint"]
	vAssert(len(got) == 1 && got[0] == wantJA3, "ja3-header-is-ja3-of-the-connections-hello")
	h2 := out.Header["X-Http2-Fingerprint"]
	if proto == "h2" {
		vAssert(len(h2) == 1 && h2[0] == md.HTTP2Frames.Marshal(math.MaxUint), "http2-header-is-the-connections-fingerprint")
	} else {
		vAssert(len(h2) == 0, "no-http2-header-on-http1")
	}
}
