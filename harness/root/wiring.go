//go:build verif

package fingerproxy

// Wiring obligations on the real root package: which fingerprint function sits behind which
// header name (C01/C02/C03), the priority-frame limit (C03), probe support (C15), and that
// every timeout flag reaches the server that enforces it - for HTTP/2 connections the idle
// timeout in force is (*http2.Server).IdleTimeout, the only field serverConn.serve reads (C11).

import (
	"context"
	"crypto/tls"
	"math"
	"net/http"
	"net/url"
	"time"

	"github.com/wi1dcard/fingerproxy/pkg/certwatcher"
	fp "github.com/wi1dcard/fingerproxy/pkg/fingerprint"
	"github.com/wi1dcard/fingerproxy/pkg/metadata"
	"github.com/wi1dcard/fingerproxy/pkg/reverseproxy"
)

func strp(s string) *string { return &s }
func boolp(b bool) *bool    { return &b }

var wiringDurations = []string{"0", "90s", "5m", "1h2m3s", "750ms"}

func wiringSetTimeoutFlags() (idle, read, write, hs time.Duration) {
	pick := func(name string) (string, time.Duration) {
		s := wiringDurations[vRange(name, 0, len(wiringDurations)-1)]
		d, _ := time.ParseDuration(s)
		return s, d
	}
	var a, b, c, d string
	a, idle = pick("flag.idle")
	b, read = pick("flag.read")
	c, write = pick("flag.write")
	d, hs = pick("flag.handshake")
	flagTimeoutHTTPIdle, flagTimeoutHTTPRead, flagTimeoutHTTPWrite, flagTimeoutTLSHandshake = strp(a), strp(b), strp(c), strp(d)
	flagVerboseLogs = boolp(false)
	return
}

func VerifC11_timeout_wiring() {
	idle, read, write, hs := wiringSetTimeoutFlags()
	svr := defaultProxyServer(context.Background(), http.NotFoundHandler(), &tls.Config{})
	vReach("wired")
	vAssert(svr.HTTPServer.IdleTimeout == idle, "h1-idle-timeout")
	vAssert(svr.HTTPServer.ReadTimeout == read, "h1-read-timeout")
	vAssert(svr.HTTPServer.WriteTimeout == write, "h1-write-timeout")
	vAssert(svr.TLSHandshakeTimeout == hs, "handshake-timeout")
	if idle > 0 {
		vReach("idle-configured")
	}
	// "whichever protocol it negotiated": the HTTP/2 server must cut idle connections too
	vAssert(svr.HTTP2Server != nil && svr.HTTP2Server.IdleTimeout == idle, "h2-idle-timeout")
}

func wiringInjector(i int) *fp.FingerprintHeaderInjector {
	inj, ok := DefaultHeaderInjectors()[i].(*fp.FingerprintHeaderInjector)
	if !ok {
		vFail("injector-type")
	}
	return inj
}

func VerifC03_limit_wiring() {
	var want uint
	if vBool("flagsInitialised") {
		v := vUint("maxPriorityFrames")
		flagMaxHTTP2PriorityFrames = &v
		want = v
	} else {
		flagMaxHTTP2PriorityFrames = nil
		want = math.MaxUint
	}
	injs := DefaultHeaderInjectors()
	vAssert(len(injs) == 3, "three-default-injectors")
	vAssert(injs[0].GetHeaderName() == "X-JA3-Fingerprint", "ja3-header-name")
	vAssert(injs[1].GetHeaderName() == "X-JA4-Fingerprint", "ja4-header-name")
	vAssert(injs[2].GetHeaderName() == "X-HTTP2-Fingerprint", "http2-header-name")
	// the HTTP/2 injector renders the connection's record with exactly the configured limit,
	// and nothing at all unless the connection negotiated h2
	md := &metadata.Metadata{}
	md.HTTP2Frames.WindowUpdateIncrement = vU32("wu")
	for i, n := 0, vRange("nprio", 0, 2); i < n; i++ {
		md.HTTP2Frames.Priorities = append(md.HTTP2Frames.Priorities, metadata.Priority{StreamId: vU32(vName("pid", i)), Weight: vU8(vName("pw", i))})
	}
	proto := []string{"h2", "http/1.1", "", "h2c", "H2"}[vRange("proto", 0, 4)]
	md.ConnectionState.NegotiatedProtocol = proto
	got, err := wiringInjector(2).FingerprintFunc(md)
	vAssert(err == nil, "http2-fingerprint-no-error")
	if proto == "h2" {
		vReach("h2-fingerprint")
		vAssert(got == md.HTTP2Frames.Marshal(want), "http2-fingerprint-uses-configured-limit")
	} else {
		vReach("no-h2-no-fingerprint")
		vAssert(got == "", "no-http2-fingerprint-without-h2")
	}
}

// JA3/JA4 injectors call the JA3/JA4 functions on the metadata stored in the request context.
func VerifC01_wiring() {
	flagMaxHTTP2PriorityFrames = nil
	md := &metadata.Metadata{ClientHelloRecord: []byte{0x16, 3, 1, 0, 2, vU8("b5"), vU8("b6")}}
	for i := 0; i < 2; i++ {
		inj := wiringInjector(i)
		got, gerr := inj.FingerprintFunc(md)
		var want string
		var werr error
		if i == 0 {
			want, werr = fp.JA3Fingerprint(md)
		} else {
			want, werr = fp.JA4Fingerprint(md)
		}
		vAssert((gerr == nil) == (werr == nil) && got == want, "injector-calls-the-named-fingerprint")
	}
	vReach("ja-wiring")
}

func VerifC15_probe_wiring() {
	on := vBool("flagEnableKubernetesProbe")
	flagEnableKubernetesProbe = boolp(on)
	flagPreserveHost = boolp(vBool("flagPreserveHost"))
	flagReverseProxyFlushInterval = strp("100ms")
	http.DefaultTransport = &http.Transport{}
	h, ok := defaultReverseProxyHTTPHandler(&url.URL{Scheme: "http", Host: "b"}, nil).(*reverseproxy.HTTPHandler)
	if !ok {
		vFail("handler-type")
		return
	}
	vReach("probe-wiring")
	vAssert((h.IsProbeRequest != nil) == on, "probe-support-follows-flag")
	vAssert(h.PreserveHost == *flagPreserveHost, "preserve-host-follows-flag")
	if on {
		r := &http.Request{Header: http.Header{"User-Agent": []string{"kube-probe/1.2"}}}
		vAssert(h.IsProbeRequest(r), "installed-predicate-is-the-kube-probe-test")
	}
}

//verif:replace (*net/http.Transport).Clone
func stubTransportClone(t *http.Transport) *http.Transport { return &http.Transport{} }

// C14 wiring: the TLS config asks the certificate watcher for the certificate at every handshake.
func VerifC14_tls_config_wiring() {
	cw := &certwatcher.CertWatcher{}
	cfg := defaultTLSConfig(cw)
	vReach("tls-config")
	if cfg.GetCertificate == nil {
		vFail("tls-config-uses-the-watcher")
		return
	}
	got, err := cfg.GetCertificate(nil)
	want, _ := cw.GetCertificate(nil)
	vAssert(err == nil && got == want, "tls-config-uses-the-watcher")
	vAssert(len(cfg.Certificates) == 0, "no-static-certificate-shadows-the-watcher")
}
