//go:build verif

package http2

// C13 — one step of the HTTP/2 server's stream state machine from a symbolic connection state
// (<= 2 tracked streams in every state, counters, GOAWAY status) and one symbolic frame, against
// a relational oracle written from RFC 7540 sections 5.1, 5.1.1, 5.1.2, 6 and RFC 9113: which
// reactions are allowed in which situation (a set wherever the RFC leaves a choice; a
// connection error with the same code is accepted where a stream error is prescribed).
// A handler may be started only for HEADERS opening a new, odd, higher-than-ever stream within
// the advertised limit; legal frames draw no error; illegal ones start nothing.

import (
	"context"
	"net"
	"net/http"
	"sync/atomic"
	"time"

	"golang.org/x/net/http2/hpack"
)

var c13 struct {
	frames   []FrameWriteRequest
	reqErr   bool
	bodyOpen bool
}

//verif:replace (*serverConn).writeFrame
func c13writeFrame(sc *serverConn, wr FrameWriteRequest) { c13.frames = append(c13.frames, wr) }

//verif:replace (*serverConn).scheduleFrameWrite
func c13scheduleFrameWrite(sc *serverConn) {}

// request construction (URL, header canonicalisation) is not part of the state machine: it
// yields a request, or rejects a malformed one with the stream error the real function uses
//
//verif:replace (*serverConn).newWriterAndRequest
func c13newWriterAndRequest(sc *serverConn, st *stream, f *MetaHeadersFrame) (*responseWriter, *http.Request, error) {
	if c13.reqErr {
		return nil, nil, streamError(f.StreamID, ErrCodeProtocol)
	}
	body := &requestBody{stream: st, conn: sc}
	if !f.StreamEnded() {
		body.pipe = &pipe{b: &dataBuffer{expected: 16}}
	}
	req := &http.Request{Method: "GET", Header: http.Header{}, Body: body, ContentLength: -1}
	return &responseWriter{}, req, nil
}

// runHandler is what a started request runs on its own goroutine. The engine records the go
// statement without running it; in the native replay this stub runs and counts instead.
//
//verif:replace (*serverConn).runHandler
func c13runHandler(sc *serverConn, rw *responseWriter, req *http.Request, handler func(http.ResponseWriter, *http.Request)) {
	atomic.AddInt32(&c13Started, 1)
}

var c13Started int32

func c13HandlersStarted() int {
	time.Sleep(2 * time.Millisecond) // native replay: let the goroutine run (no-op in the engine)
	return vGoCount("runHandler") + int(atomic.LoadInt32(&c13Started))
}

type c13Handler struct{}

func (c13Handler) ServeHTTP(http.ResponseWriter, *http.Request) {}

type c13Stream struct {
	present bool
	id      uint32
	state   streamState
	reset   bool
	trailer bool
}

type c13Conn struct{}

func (c13Conn) Read([]byte) (int, error)         { return 0, nil }
func (c13Conn) Write(b []byte) (int, error)      { return len(b), nil }
func (c13Conn) Close() error                     { return nil }
func (c13Conn) LocalAddr() net.Addr              { return c13Addr{} }
func (c13Conn) RemoteAddr() net.Addr             { return c13Addr{} }
func (c13Conn) SetDeadline(time.Time) error      { return nil }
func (c13Conn) SetReadDeadline(time.Time) error  { return nil }
func (c13Conn) SetWriteDeadline(time.Time) error { return nil }

type c13Addr struct{}

func (c13Addr) Network() string { return "tcp" }
func (c13Addr) String() string  { return "192.0.2.7:1" }

// c13Setup builds a symbolic connection state. Only the dimensions that can matter for the
// given frame kind are varied (the others keep a representative value), which keeps the
// product of cases within reach; kind < 0 varies everything that matters for HEADERS.
func c13Setup(kind int) (*serverConn, [2]c13Stream) {
	DebugGoroutines = false
	c13.frames = nil
	atomic.StoreInt32(&c13Started, 0)
	sc := &serverConn{
		srv: &Server{}, hs: &http.Server{}, conn: c13Conn{}, baseCtx: context.Background(), handler: c13Handler{},
		streams: map[uint32]*stream{}, writeSched: newRoundRobinWriteScheduler(),
		initialStreamSendWindowSize: 65535, initialStreamRecvWindowSize: 1 << 20, maxFrameSize: 16384,
		clientMaxStreams: 100, pushEnabled: true,
	}
	sc.hpackEncoder = hpack.NewEncoder(&sc.headerWriteBuf)
	sc.flow.n = 65535
	sc.inflow.avail = 1 << 20
	sc.sawFirstSettings = vBool("sawFirstSettings")
	sc.inGoAway = vBool("inGoAway")
	if sc.inGoAway {
		sc.goAwayCode = []ErrCode{ErrCodeNo, ErrCodeProtocol}[vRange("goAwayCode", 0, 1)]
	}
	headers := kind == 0 || kind < 0
	sc.advMaxStreams = 3
	if headers {
		sc.advMaxStreams = []uint32{1, 3}[vRange("advMaxStreams", 0, 1)]
	}
	if headers || kind == 5 {
		sc.unackedSettings = vRange("unackedSettings", 0, 1)
	}
	var tab [2]c13Stream
	maxID := uint32(0)
	for i := 0; i < 2; i++ {
		if !vBool(vName("stream.present", i)) {
			continue
		}
		t := &tab[i]
		t.present = true
		t.id = uint32(2*i + 1)
		t.state = stateOpen
		if i == 0 { // the stream the frame may address: every state; the other one is just "another open stream"
			t.state = []streamState{stateOpen, stateHalfClosedRemote, stateHalfClosedLocal}[vRange("stream.state", 0, 2)]
			t.reset = vBool("stream.resetQueued")
			if t.state == stateOpen {
				t.trailer = vBool("stream.gotTrailer")
			}
		}
		st := sc.newStream(t.id, 0, t.state)
		st.resetQueued = t.reset
		st.gotTrailerHeader = t.trailer
		st.declBodyBytes = -1
		if t.state == stateOpen || t.state == stateHalfClosedLocal {
			st.body = &pipe{b: &dataBuffer{expected: 16}}
		}
		st.trailer = http.Header{}
		maxID = t.id
	}
	// streams that existed and are gone: ids up to maxClientStreamID
	sc.maxClientStreamID = maxID + uint32(2*vRange("closedAbove", 0, 1))
	if headers {
		sc.curHandlers = []uint32{0, sc.advMaxStreams}[vRange("handlersSaturated", 0, 1)]
	}
	if !sc.sawFirstSettings {
		// before the client's first SETTINGS nothing else can have happened
		vAssume(len(sc.streams) == 0 && sc.maxClientStreamID == 0 && !sc.inGoAway)
	}
	return sc, tab
}

// stream ids a frame may name: the connection, the tracked/closed stream 1, an even id, a never-used id
func c13IDs() []uint32 { return []uint32{0, 1, 2, 7} }

const (
	c13None = iota
	c13SE
	c13CE
	c13Flow
)

func c13Classify(err error) (kind int, code ErrCode, sid uint32) {
	switch e := err.(type) {
	case nil:
		return c13None, 0, 0
	case StreamError:
		return c13SE, e.Code, e.StreamID
	case ConnectionError:
		return c13CE, ErrCode(e), 0
	case goAwayFlowError:
		return c13Flow, ErrCodeFlowControl, 0
	}
	return -1, 0, 0
}

func c13Step() {
	kind := vRange("frame.kind", 0, 9)
	sc, tab := c13Setup(kind)
	ids := c13IDs()
	sid := ids[vRange("frame.stream", 0, len(ids)-1)]
	var f Frame
	hdr := func(t FrameType, fl Flags, l uint32) FrameHeader {
		return FrameHeader{valid: true, Type: t, Flags: fl, Length: l, StreamID: sid}
	}
	endStream := vBool("frame.endStream")
	var hfields int
	declared, dataLen := int64(-1), int64(0)
	var prio PriorityParam
	hasPrio := false
	switch kind {
	case 0: // HEADERS (as delivered by the framer: MetaHeadersFrame)
		fl := FlagHeadersEndHeaders
		if endStream {
			fl |= FlagHeadersEndStream
		}
		hasPrio = vBool("frame.priority")
		if hasPrio {
			fl |= FlagHeadersPriority
			prio = PriorityParam{StreamDep: ids[vRange("frame.dep", 0, len(ids)-1)], Weight: 15}
		}
		hfields = vRange("frame.fields", 0, 2) // 0 request pseudo-headers, 1 regular fields only (trailers), 2 trailers with a pseudo-header
		var fields []hpack.HeaderField
		switch hfields {
		case 0:
			fields = []hpack.HeaderField{{Name: ":method", Value: "GET"}, {Name: ":scheme", Value: "https"}, {Name: ":path", Value: "/"}}
		case 1:
			fields = []hpack.HeaderField{{Name: "x-trailer", Value: "1"}}
		case 2:
			fields = []hpack.HeaderField{{Name: ":path", Value: "/"}, {Name: "x-trailer", Value: "1"}}
		}
		c13.reqErr = hfields != 0 || vBool("request.malformed")
		f = &MetaHeadersFrame{HeadersFrame: &HeadersFrame{FrameHeader: hdr(FrameHeaders, fl, 0), Priority: prio}, Fields: fields}
	case 1: // DATA
		fl := Flags(0)
		if endStream {
			fl |= FlagDataEndStream
		}
		n := vRange("frame.dataLen", 0, 1)
		f = &DataFrame{FrameHeader: hdr(FrameData, fl, uint32(n)), data: make([]byte, n)}
		// the request may have declared a Content-Length: shorter than, equal to or longer than what arrives
		if st := sc.streams[1]; st != nil && st.state == stateOpen {
			declared = int64(vRange("stream.declaredLength", -1, 2))
			st.declBodyBytes = declared
		}
		dataLen = int64(n)
	case 2:
		f = &RSTStreamFrame{FrameHeader: hdr(FrameRSTStream, 0, 4), ErrCode: ErrCodeCancel}
	case 3:
		f = &WindowUpdateFrame{FrameHeader: hdr(FrameWindowUpdate, 0, 4), Increment: 1}
	case 4:
		prio = PriorityParam{StreamDep: ids[vRange("frame.dep", 0, len(ids)-1)], Weight: 15}
		f = &PriorityFrame{FrameHeader: hdr(FramePriority, 0, 5), PriorityParam: prio}
	case 5: // SETTINGS
		sid = 0
		if vBool("frame.ack") {
			f = &SettingsFrame{FrameHeader: FrameHeader{valid: true, Type: FrameSettings, Flags: FlagSettingsAck}}
		} else {
			id := vU16("setting.id")
			val := vU32("setting.val")
			p := []byte{byte(id >> 8), byte(id), byte(val >> 24), byte(val >> 16), byte(val >> 8), byte(val)}
			if vBool("setting.none") {
				p = nil
			}
			f = &SettingsFrame{FrameHeader: FrameHeader{valid: true, Type: FrameSettings, Length: uint32(len(p))}, p: p}
		}
	case 6:
		sid = 0
		fl := Flags(0)
		if vBool("frame.ack") {
			fl = FlagPingAck
		}
		f = &PingFrame{FrameHeader: FrameHeader{valid: true, Type: FramePing, Flags: fl, Length: 8}}
	case 7:
		sid = 0
		f = &GoAwayFrame{FrameHeader: FrameHeader{valid: true, Type: FrameGoAway, Length: 8}, LastStreamID: vU32("goaway.last") & 0x7fffffff, ErrCode: ErrCode(vU32("goaway.code"))}
	case 8:
		f = &PushPromiseFrame{FrameHeader: hdr(FramePushPromise, FlagPushPromiseEndHeaders, 4), PromiseID: 2}
	case 9:
		f = &UnknownFrame{FrameHeader: hdr(FrameType(0x42), 0, 0)}
	}

	// ---- classify the addressed stream as the RFC does
	var cur *c13Stream
	for i := range tab {
		if tab[i].present && tab[i].id == sid {
			cur = &tab[i]
		}
	}
	idle := cur == nil && ((sid%2 == 1 && sid > sc.maxClientStreamID) || (sid%2 == 0 && sid > sc.maxPushPromiseID))
	preMax := sc.maxClientStreamID
	preStreams := uint32(len(sc.streams))
	preHandlers := sc.curHandlers
	preGoAway := sc.inGoAway
	preFirst := sc.sawFirstSettings
	preUnacked := sc.unackedSettings
	spawnedBefore := c13HandlersStarted()

	var err error
	if vCatch(func() { err = sc.processFrame(f) }) {
		vFail("state-machine-no-panic")
		return
	}
	ek, code, esid := c13Classify(err)
	if ek < 0 {
		vFail("error-is-stream-or-connection-error")
		return
	}
	started := c13HandlersStarted() - spawnedBefore
	queued := len(sc.unstartedHandlers)
	isCE := func(c ErrCode) bool { return ek == c13CE && code == c }
	isSE := func(c ErrCode) bool { return (ek == c13SE && code == c && esid == sid) || (ek == c13CE && code == c) }

	// ---- a handler is started only by HEADERS opening a new stream within the limit
	newStreamOK := kind == 0 && preFirst && sid%2 == 1 && sid > preMax && preStreams+1 <= sc.advMaxStreams && !c13.reqErr &&
		!(hasPrio && prio.StreamDep == sid) && !(preGoAway && (sc.goAwayCode != ErrCodeNo || sid > preMax))
	if started+queued > 0 {
		vReach("handler-started")
		vAssert(newStreamOK, "handler-only-for-new-valid-stream-within-limit")
		vAssert(started+queued == 1, "exactly-one-handler-per-request")
		vAssert(ek == c13None, "started-request-draws-no-error")
	}
	if started > 0 {
		vAssert(preHandlers < sc.advMaxStreams, "handlers-running-within-limit")
	}

	// ---- before the first SETTINGS everything else is a connection error
	if !preFirst {
		vReach("before-first-settings")
		if kind != 5 {
			vAssert(isCE(ErrCodeProtocol), "first-frame-must-be-settings")
			return
		}
	}
	// ---- after a connection error (or beyond the last stream of a graceful GOAWAY): ignored
	if preGoAway && (sc.goAwayCode != ErrCodeNo || sid > preMax) {
		vReach("after-goaway")
		vAssert(ek == c13None || (kind == 1 && code == ErrCodeFlowControl), "frames-after-goaway-ignored")
		vAssert(started+queued == 0 && uint32(len(sc.streams)) == preStreams, "no-request-served-after-goaway")
		return
	}

	switch kind {
	case 0: // HEADERS
		switch {
		case sid%2 == 0:
			vReach("headers-even-stream")
			vAssert(isCE(ErrCodeProtocol), "headers-on-even-stream-is-connection-error")
		case cur != nil && cur.reset:
			vAssert(ek == c13None, "frames-on-reset-stream-ignored")
		case cur != nil && cur.state == stateHalfClosedRemote:
			vReach("headers-on-half-closed-remote")
			vAssert(isSE(ErrCodeStreamClosed), "headers-after-end-stream-is-stream-closed")
		case cur != nil: // trailers
			vReach("trailers")
			legalTrailers := endStream && hfields == 1 && !cur.trailer
			if legalTrailers {
				vAssert(ek == c13None, "legal-trailers-accepted")
				vAssert(sc.streams[sid] != nil && sc.streams[sid].state == stateHalfClosedRemote, "trailers-end-the-request")
			} else if cur.trailer {
				vAssert(isSE(ErrCodeProtocol), "second-trailers-rejected")
			} else {
				vAssert(isSE(ErrCodeProtocol), "malformed-trailers-rejected")
			}
		case !idle: // closed stream
			vReach("headers-on-closed-stream")
			vAssert(isCE(ErrCodeProtocol) || isSE(ErrCodeStreamClosed), "headers-on-closed-stream-rejected")
		case preStreams+1 > sc.advMaxStreams:
			vReach("over-concurrency-limit")
			if preUnacked == 0 {
				vAssert(isSE(ErrCodeProtocol) || isSE(ErrCodeRefusedStream), "over-limit-refused")
			} else {
				vAssert(isSE(ErrCodeRefusedStream) || isSE(ErrCodeProtocol), "over-limit-refused")
			}
			vAssert(sc.maxClientStreamID == sid, "refused-stream-id-still-consumed")
		case hasPrio && prio.StreamDep == sid:
			vAssert(isSE(ErrCodeProtocol), "self-dependency-is-stream-error")
		case c13.reqErr:
			vReach("malformed-request")
			vAssert(isSE(ErrCodeProtocol), "malformed-request-is-stream-error")
		default:
			vReach("new-request")
			if ek == c13CE && code == ErrCodeEnhanceYourCalm {
				vAssert(preHandlers >= sc.advMaxStreams, "calm-only-when-handlers-saturated")
			} else {
				vAssert(ek == c13None, "legal-request-accepted")
				vAssert(started+queued == 1, "legal-request-starts-a-handler")
				st := sc.streams[sid]
				want := stateOpen
				if endStream {
					want = stateHalfClosedRemote
				}
				vAssert(st != nil && st.state == want && sc.maxClientStreamID == sid, "new-stream-state")
			}
		}
	case 1: // DATA
		switch {
		case sid == 0 || idle:
			vReach("data-on-idle")
			vAssert(isCE(ErrCodeProtocol), "data-on-idle-is-connection-error")
		case cur == nil || cur.state != stateOpen || cur.trailer || cur.reset:
			if cur != nil && cur.reset {
				vAssert(ek == c13None || isSE(ErrCodeStreamClosed), "frames-on-reset-stream-ignored")
			} else {
				vReach("data-on-closed")
				vAssert(isSE(ErrCodeStreamClosed), "data-on-closed-stream-is-stream-closed")
			}
		case declared >= 0 && dataLen > declared:
			vReach("data-beyond-declared-length")
			vAssert(isSE(ErrCodeProtocol), "data-beyond-declared-length-is-protocol-error")
		default:
			vReach("data-on-open")
			vAssert(ek == c13None, "legal-data-accepted")
			if endStream {
				// also when fewer bytes arrived than declared: the handler gets a read error, the stream
				// is half-closed all the same
				vAssert(sc.streams[sid] != nil && sc.streams[sid].state == stateHalfClosedRemote, "end-stream-half-closes")
			}
		}
	case 2: // RST_STREAM
		if sid == 0 {
			// RST_STREAM on stream 0 is rejected by the framer (C19) and never gets here
		} else if idle {
			vReach("rst-on-idle")
			vAssert(isCE(ErrCodeProtocol), "rst-on-idle-is-connection-error")
		} else {
			vReach("rst")
			vAssert(ek == c13None, "rst-accepted")
			vAssert(sc.streams[sid] == nil, "rst-closes-stream")
		}
	case 3: // WINDOW_UPDATE
		if sid != 0 && idle {
			vAssert(isCE(ErrCodeProtocol), "window-update-on-idle-is-connection-error")
		} else {
			vReach("window-update")
			vAssert(ek == c13None, "window-update-accepted")
		}
	case 4: // PRIORITY: legal in every state, also for idle and closed streams
		if sid == 0 {
			// the framer rejects PRIORITY on stream 0 before it gets here; nothing is claimed
		} else if prio.StreamDep == sid {
			vReach("priority-self-dependency")
			vAssert(isSE(ErrCodeProtocol), "self-dependency-is-stream-error")
		} else {
			vReach("priority")
			vAssert(ek == c13None, "priority-accepted-in-any-state")
		}
	case 5: // SETTINGS
		sf := f.(*SettingsFrame)
		if sf.IsAck() {
			vReach("settings-ack")
			vAssert(ek == c13None || (preUnacked == 0 && isCE(ErrCodeProtocol)), "settings-ack")
		} else if sf.NumSettings() == 0 {
			vAssert(ek == c13None && sc.needToSendSettingsAck, "settings-acknowledged")
		} else {
			s := sf.Setting(0)
			bad := false
			var wantCode ErrCode
			switch s.ID {
			case SettingEnablePush:
				bad, wantCode = s.Val > 1, ErrCodeProtocol
			case SettingInitialWindowSize:
				bad, wantCode = s.Val > 1<<31-1, ErrCodeFlowControl
			case SettingMaxFrameSize:
				bad, wantCode = s.Val < 16384 || s.Val > 1<<24-1, ErrCodeProtocol
			case SettingEnableConnectProtocol:
				bad, wantCode = s.Val > 1, ErrCodeProtocol
			}
			if bad {
				vReach("settings-out-of-range")
				vAssert(isCE(wantCode), "settings-value-out-of-range-is-connection-error")
			} else if ek != c13None {
				// window growth past 2^31-1 on an open stream (C12) is the only other legal rejection
				vAssert(s.ID == SettingInitialWindowSize && isCE(ErrCodeFlowControl), "legal-settings-accepted")
			} else {
				vReach("settings-applied")
				vAssert(sc.needToSendSettingsAck, "settings-acknowledged")
			}
		}
	case 6: // PING
		vReach("ping")
		vAssert(ek == c13None, "ping-accepted")
		pf := f.(*PingFrame)
		if !pf.IsAck() {
			n := 0
			for _, w := range c13.frames {
				if _, ok := w.write.(writePingAck); ok {
					n++
				}
			}
			vAssert(n == 1, "ping-answered-once")
		}
	case 7:
		vReach("goaway-received")
		vAssert(ek == c13None, "goaway-accepted")
		vAssert(!sc.pushEnabled, "goaway-disables-push")
	case 8:
		vReach("push-promise")
		vAssert(isCE(ErrCodeProtocol), "push-promise-from-client-is-connection-error")
	case 9:
		vReach("unknown-frame")
		vAssert(ek == c13None, "unknown-frame-ignored")
		vAssert(uint32(len(sc.streams)) == preStreams, "unknown-frame-no-effect")
	}
	// ---- invariants re-established
	vAssert(sc.maxClientStreamID >= preMax, "max-stream-id-monotone")
	for id := range sc.streams {
		vAssert(id <= sc.maxClientStreamID, "tracked-ids-below-max")
	}
	vAssert(sc.curClientStreams == uint32(len(sc.streams)), "open-stream-count-consistent")
}

func VerifC13_step() { c13Step() }

// A connection error makes the server enter GOAWAY with that code and a last-stream-id covering
// everything it acted on; a stream error resets only that stream.
func VerifC13_goaway() {
	sc, _ := c13Setup(-1)
	vAssume(sc.sawFirstSettings && !sc.inGoAway)
	preMax := sc.maxClientStreamID
	sid := c13IDs()[vRange("frame.stream", 0, 3)]
	f := &PushPromiseFrame{FrameHeader: FrameHeader{valid: true, Type: FramePushPromise, StreamID: sid}}
	keep := sc.processFrameFromReader(readFrameResult{f: f, readMore: func() {}})
	vReach("connection-error-handled")
	vAssert(keep, "serve-loop-continues-to-send-goaway")
	vAssert(sc.inGoAway && sc.goAwayCode == ErrCodeProtocol && sc.needToSendGoAway, "connection-error-starts-goaway")
	vAssert(sc.maxClientStreamID >= preMax && sc.maxClientStreamID >= sid, "goaway-last-stream-id-covers-acted-on")
	// afterwards nothing is served any more
	g := &MetaHeadersFrame{HeadersFrame: &HeadersFrame{FrameHeader: FrameHeader{valid: true, Type: FrameHeaders, Flags: FlagHeadersEndHeaders | FlagHeadersEndStream, StreamID: sc.maxClientStreamID + 2}},
		Fields: []hpack.HeaderField{{Name: ":method", Value: "GET"}, {Name: ":scheme", Value: "https"}, {Name: ":path", Value: "/"}}}
	c13.reqErr = false
	before := c13HandlersStarted()
	err := sc.processFrame(g)
	vAssert(err == nil && c13HandlersStarted() == before && len(sc.unstartedHandlers) == 0, "no-request-served-after-connection-error")
}
