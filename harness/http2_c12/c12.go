//go:build verif

package http2

// C12 — HTTP/2 flow control is never violated and never leaks window.
// One-step (inductive) harnesses over symbolic 32-bit window state.

const maxWin = 1<<31 - 1

// ---- outflow.add: true iff the mathematical sum stays in [-2^31, 2^31-1]
func VerifC12_outflow_add() {
	f := &outflow{n: vI32("fn")}
	n := vI32("n")
	pre := f.n
	sum := int64(pre) + int64(n)
	fits := vAnd(sum >= -(1<<31), sum <= maxWin)
	ok := f.add(n)
	vAssert(ok == fits, "add-verdict")
	if ok {
		vReach("add-ok")
		vAssert(int64(f.n) == sum, "add-sum")
	} else {
		vReach("add-overflow")
		vAssert(f.n == pre, "add-unchanged-on-failure")
	}
}

// ---- outflow.available / take
func VerifC12_outflow_take() {
	conn := &outflow{n: vI32("cn")}
	f := &outflow{n: vI32("sn")}
	hasConn := vBool("hasConn")
	if hasConn {
		f.setConnFlow(conn)
	}
	av := f.available()
	want := f.n
	if hasConn {
		want = vIteI32(conn.n < f.n, conn.n, f.n)
	}
	vAssert(av == want, "available-is-min")
	n := vI32("n")
	sn, cn := f.n, conn.n
	panicked := vCatch(func() { f.take(n) })
	vAssert(panicked == (n > av), "take-panics-iff-over")
	if !panicked {
		vReach("take-ok")
		vAssert(f.n == sn-n, "take-stream")
		if hasConn {
			vAssert(conn.n == cn-n, "take-conn")
		} else {
			vAssert(conn.n == cn, "take-conn")
		}
	} else {
		vReach("take-over")
	}
}

// ---- inflow.take / takeInflows (Inv: avail >= 0)
func VerifC12_inflow_take() {
	f1 := &inflow{avail: vI32("a1"), unsent: vI32("u1")}
	f2 := &inflow{avail: vI32("a2"), unsent: vI32("u2")}
	vAssume(vAnd(f1.avail >= 0, f2.avail >= 0))
	n := vU32("n")
	a1, a2 := f1.avail, f2.avail
	if vBool("single") {
		ok := f1.take(n)
		vAssert(ok == (int64(n) <= int64(a1)), "take-verdict")
		if ok {
			vReach("inflow-take-ok")
			vAssert(int64(f1.avail) == int64(a1)-int64(n), "take-amount")
		} else {
			vAssert(f1.avail == a1, "take-unchanged")
		}
		return
	}
	ok := takeInflows(f1, f2, n)
	vAssert(ok == vAnd(int64(n) <= int64(a1), int64(n) <= int64(a2)), "take2-verdict")
	if ok {
		vReach("inflow-take2-ok")
		vAssert(vAnd(int64(f1.avail) == int64(a1)-int64(n), int64(f2.avail) == int64(a2)-int64(n)), "take2-amount")
	} else {
		vReach("inflow-take2-refused")
		vAssert(vAnd(f1.avail == a1, f2.avail == a2), "take2-unchanged")
	}
	vAssert(vAnd(f1.unsent == vI32("u1"), f2.unsent == vI32("u2")), "take-leaves-unsent")
}

// ---- inflow.add: ledger step. Inv: avail>=0, 0<=unsent<4096 (established by add itself), avail+unsent+n <= 2^31-1
func VerifC12_inflow_add() {
	f := &inflow{avail: vI32("avail"), unsent: vI32("unsent")}
	n := vInt("n")
	vAssume(vAnd(f.avail >= 0, vAnd(f.unsent >= 0, f.unsent < inflowMinRefresh)))
	vAssume(vAnd(vAnd(n >= 0, n <= maxWin), int64(n)+int64(f.avail)+int64(f.unsent) <= maxWin))
	a, u := int64(f.avail), int64(f.unsent)
	r := f.add(n)
	total := a + u + int64(n)
	vAssert(int64(f.avail)+int64(f.unsent) == total, "ledger-conserved")
	vAssert(vOr(r == 0, int64(r) == u+int64(n)), "update-is-all-or-nothing")
	if r == 0 {
		vReach("add-buffered")
		vAssert(vAnd(int64(f.unsent) == u+int64(n), int64(f.avail) == a), "buffered-state")
	} else {
		vReach("add-flushed")
		vAssert(vAnd(f.unsent == 0, int64(f.avail) == total), "flushed-state")
	}
	// invariant re-established: the credit withheld from the peer stays below 4 KiB
	vAssert(vAnd(f.unsent >= 0, f.unsent < inflowMinRefresh), "unsent-bounded")
	vAssert(f.avail >= 0, "avail-nonneg")
}

// inflow.add must reject (panic) what would push the window past 2^31-1 or a negative credit
func VerifC12_inflow_add_guard() {
	f := &inflow{avail: vI32("avail"), unsent: vI32("unsent")}
	n := vInt("n")
	vAssume(vAnd(f.avail >= 0, f.unsent >= 0))
	vAssume(vAnd(n >= -(1<<40), n <= 1<<40))
	bad := vOr(n < 0, int64(n)+int64(f.avail)+int64(f.unsent) > maxWin)
	a, u := f.avail, f.unsent
	p := vCatch(func() { f.add(n) })
	vAssert(p == bad, "add-guard")
	if p {
		vReach("add-rejected")
		vAssert(vAnd(f.avail == a, f.unsent == u), "rejected-unchanged")
	}
}

// ---- FrameWriteRequest.Consume: never releases more than stream window, conn window,
// max frame size and the scheduler's limit allow; pieces concatenate; windows charged exactly.
func c12Consume(L int) {
	sc := &serverConn{maxFrameSize: vI32("mfs")}
	sc.flow.n = vI32("connwin")
	st := &stream{sc: sc, id: 1}
	st.flow.n = vI32("strwin")
	st.flow.setConnFlow(&sc.flow)
	n := vI32("limit")
	l := vRange("len", 0, L)
	p := vBytes("p", l)
	end := vBool("endStream")
	done := make(chan error, 1)
	wd := &writeData{streamID: 1, p: p, endStream: end}
	wr := FrameWriteRequest{write: wd, stream: st, done: done}
	sw, cw, mfs := st.flow.n, sc.flow.n, sc.maxFrameSize
	// allowed = max(0, min(sw, cw, mfs, n))
	m := vIteI32(sw < cw, sw, cw)
	m = vIteI32(mfs < m, mfs, m)
	m = vIteI32(n < m, n, m)
	a, b, k := wr.Consume(n)
	if l == 0 {
		vAssert(k == 1 && a.write == wr.write && b.write == nil, "empty-data-whole")
		vAssert(vAnd(st.flow.n == sw, sc.flow.n == cw), "empty-data-no-charge")
		return
	}
	switch k {
	case 0:
		vReach("consume-none")
		vAssert(m <= 0, "none-only-when-nothing-allowed")
		vAssert(vAnd(st.flow.n == sw, sc.flow.n == cw), "none-no-charge")
	case 1:
		vReach("consume-whole")
		vAssert(int64(l) <= int64(m), "whole-within-limits")
		vAssert(a.write == wr.write && a.done == done && b.write == nil, "whole-same-frame")
		vAssert(vAnd(int64(st.flow.n) == int64(sw)-int64(l), int64(sc.flow.n) == int64(cw)-int64(l)), "whole-charge")
	case 2:
		vReach("consume-split")
		first, ok1 := a.write.(*writeData)
		rest, ok2 := b.write.(*writeData)
		if !ok1 || !ok2 {
			vFail("split-types")
			return
		}
		r := len(first.p)
		vAssert(vAnd(r > 0, int64(r) == int64(m)), "split-releases-exactly-allowed")
		vAssert(r < l, "split-is-proper")
		vAssert(string(first.p)+string(rest.p) == string(p), "split-concatenates")
		vAssert(!first.endStream && rest.endStream == end, "split-endstream-last")
		vAssert(a.done == nil && b.done == done, "split-done-last")
		vAssert(first.streamID == 1 && rest.streamID == 1 && a.stream == st && b.stream == st, "split-stream")
		vAssert(vAnd(int64(st.flow.n) == int64(sw)-int64(r), int64(sc.flow.n) == int64(cw)-int64(r)), "split-charge")
	default:
		vFail("consume-count")
	}
}

func VerifC12_consume_quick()    { c12Consume(4) }
func VerifC12_consume_thorough() { c12Consume(8) }

// Non-DATA frames pass whole and are never charged.
func VerifC12_consume_nondata() {
	sc := &serverConn{maxFrameSize: vI32("mfs")}
	sc.flow.n = vI32("connwin")
	st := &stream{sc: sc, id: 1}
	st.flow.n = vI32("strwin")
	st.flow.setConnFlow(&sc.flow)
	sw, cw := st.flow.n, sc.flow.n
	wr := FrameWriteRequest{write: writePingAck{}, stream: st}
	a, b, k := wr.Consume(vI32("limit"))
	vReach("nondata")
	vAssert(k == 1 && a.write == wr.write && b.write == nil, "nondata-whole")
	vAssert(vAnd(st.flow.n == sw, sc.flow.n == cw), "nondata-no-charge")
}
