//go:build verif

package http2

// C12 (client transport call sites) — one step of the transport's read loop / body reader from an
// arbitrary state satisfying the ledger invariant. The WINDOW_UPDATE / RST_STREAM frames go
// through the REAL Framer into a buffer that the harness parses back, so what is summed is what
// is on the wire.

import (
	"bufio"
	"bytes"
	"context"
	"errors"
	"sync"
)

type c12tWire struct {
	connWU, streamWU int64
	rst              int
	other            int
}

func c12tParse(b []byte) (w c12tWire) {
	for len(b) >= 9 {
		l := int(b[0])<<16 | int(b[1])<<8 | int(b[2])
		typ := FrameType(b[3])
		id := uint32(b[5])<<24 | uint32(b[6])<<16 | uint32(b[7])<<8 | uint32(b[8])
		p := b[9 : 9+l]
		switch {
		case typ == FrameWindowUpdate && l == 4:
			inc := int64(uint32(p[0])<<24 | uint32(p[1])<<16 | uint32(p[2])<<8 | uint32(p[3]))
			if id == 0 {
				w.connWU += inc
			} else {
				w.streamWU += inc
			}
		case typ == FrameRSTStream:
			w.rst++
		default:
			w.other++
		}
		b = b[9+l:]
	}
	return w
}

func c12tConn(out *bytes.Buffer) (*ClientConn, *clientStream, *clientConnReadLoop) {
	cc := &ClientConn{t: &Transport{}, streams: map[uint32]*clientStream{}, nextStreamID: 5}
	cc.cond = sync.NewCond(&cc.mu)
	cc.bw = bufio.NewWriter(out)
	cc.fr = NewFramer(cc.bw, nil)
	cc.inflow = c12inflow("conn")
	cs := &clientStream{cc: cc, ID: 1, ctx: context.Background(), bytesRemain: -1}
	cs.abort = make(chan struct{})
	cs.peerClosed = make(chan struct{})
	cs.donec = make(chan struct{})
	cs.inflow = c12inflow("stream")
	cs.flow.setConnFlow(&cc.flow)
	cs.bufPipe = pipe{b: &dataBuffer{expected: 16}}
	cs.pastHeaders = true
	cc.streams[1] = cs
	return cc, cs, &clientConnReadLoop{cc: cc}
}

var errC12tClosed = errors.New("response body closed by the caller")

func c12tProcessData(maxData int) {
	var out bytes.Buffer
	cc, cs, rl := c12tConn(&out)
	// 0 open  1 open, caller closed the body  2 DATA after END_STREAM  3 DATA before HEADERS
	// 4 HEAD request  5 stream we cancelled earlier (untracked, id < next)  6 never opened
	mode := vRange("mode", 0, 6)
	id := uint32(1)
	switch mode {
	case 1:
		cs.bufPipe.BreakWithError(errC12tClosed)
	case 2:
		cs.readClosed = true
	case 3:
		cs.pastHeaders = false
	case 4:
		cs.isHead = true
	case 5:
		id = 3
	case 6:
		id = 7
	}
	if mode == 0 {
		if nbuf := vRange("buffered", 0, 1) * 2; nbuf > 0 {
			cs.bufPipe.Write(vBytes("prebuf", nbuf))
		}
	}
	B0 := int64(cs.bufPipe.Len())
	vAssume(int64(cc.inflow.avail)+int64(cc.inflow.unsent)+B0 <= maxWin)
	vAssume(int64(cs.inflow.avail)+int64(cs.inflow.unsent)+B0 <= maxWin)

	dl := vRange("datalen", 0, maxData)
	data := vBytes("data", dl)
	padTotal := vU32("padTotal")
	vAssume(padTotal <= 256)
	L := uint32(dl) + padTotal
	flags := Flags(0)
	if vBool("endStream") {
		flags |= FlagDataEndStream
	}
	f := &DataFrame{FrameHeader: FrameHeader{valid: true, Type: FrameData, Flags: flags, Length: L, StreamID: id}, data: data}

	ca, cu := int64(cc.inflow.avail), int64(cc.inflow.unsent)
	sa, su := int64(cs.inflow.avail), int64(cs.inflow.unsent)
	var err error
	if vCatch(func() { err = rl.processData(f) }) {
		vFail("transport-processData-no-panic")
		return
	}
	cc.bw.Flush()
	w := c12tParse(out.Bytes())
	B1 := int64(cs.bufPipe.Len())
	ca1, cu1 := int64(cc.inflow.avail), int64(cc.inflow.unsent)
	sa1, su1 := int64(cs.inflow.avail), int64(cs.inflow.unsent)
	ce, isCE := err.(ConnectionError)
	flowErr := isCE && ErrCode(ce) == ErrCodeFlowControl

	if mode == 6 {
		vReach("t-data-on-unopened")
		vAssert(isCE && ErrCode(ce) == ErrCodeProtocol, "t-unsolicited-data-is-connection-error")
		vAssert(vAnd(ca1 == ca, cu1 == cu), "t-unsolicited-no-charge")
		return
	}
	if mode == 2 || mode == 3 || (mode == 4 && dl > 0 && L > 0) {
		// protocol violations abort the stream (a RST_STREAM follows from cleanupWriteRequest); the
		// connection window is not charged - the implementation's choice, which leaks nothing on its side
		vReach("t-protocol-violation")
		vAssert(err == nil && cs.readAborted, "t-violation-aborts-stream")
		vAssert(vAnd(vAnd(ca1 == ca, cu1 == cu), vAnd(sa1 == sa, su1 == su)), "t-violation-no-charge")
		return
	}
	charged := L > 0
	connOver := vAnd(charged, int64(L) > ca)
	streamOver := vAnd(vAnd(charged, mode != 5), int64(L) > sa)
	if flowErr {
		vReach("t-window-overrun-rejected")
		vAssert(vOr(connOver, streamOver), "t-flow-error-only-on-overrun")
		vAssert(w.connWU == 0 && w.streamWU == 0 && B1 == B0, "t-overrun-no-effect")
		return
	}
	vAssert(err == nil, "t-accepted-without-error")
	vAssert(vNot(vOr(connOver, streamOver)), "t-overrun-must-be-rejected")
	vAssert(w.other == 0 && w.rst == 0, "t-only-window-updates-written")
	// ---- connection ledger
	vAssert(ca1+cu1+B1 == ca+cu+B0, "t-conn-ledger-conserved")
	vAssert(ca1 == ca-int64(L)+w.connWU, "t-conn-window-tracks-updates-sent")
	vAssert(vAnd(cu1 >= 0, cu1 < inflowMinRefresh), "t-conn-withheld-credit-bounded")
	vAssert(ca1 >= 0, "t-conn-avail-nonneg")
	if mode == 5 {
		vReach("t-data-for-cancelled-stream")
		vAssert(B1 == B0 && sa1 == sa && su1 == su && w.streamWU == 0, "t-cancelled-stream-untouched")
		return
	}
	// ---- stream ledger
	if mode == 0 || mode == 4 {
		vReach("t-data-accepted")
		vAssert(B1 == B0+int64(dl), "t-payload-buffered")
		vAssert(sa1+su1+B1 == sa+su+B0, "t-stream-ledger-conserved")
		vAssert(sa1 == sa-int64(L)+w.streamWU, "t-stream-window-tracks-updates-sent")
		vAssert(vAnd(su1 >= 0, su1 < inflowMinRefresh), "t-stream-withheld-credit-bounded")
		if padTotal > 0 {
			vReach("t-padded-data-accepted")
		}
		return
	}
	// mode 1: the caller closed the body, the payload is discarded and its connection credit returned
	vReach("t-data-discarded")
	vAssert(B1 == B0, "t-discarded-not-buffered")
	if dl > 0 {
		vAssert(cs.readAborted, "t-discarded-aborts-stream")
	}
}

func VerifC12_transport_processData_quick()    { c12tProcessData(1) }
func VerifC12_transport_processData_thorough() { c12tProcessData(3) }

// transportResponseBody.Read: n bytes handed to the caller -> exactly n of credit moves back on the
// connection, and on the stream unless it is over.
func VerifC12_transport_body_read() {
	var out bytes.Buffer
	cc, cs, _ := c12tConn(&out)
	nbuf := vRange("buffered", 0, 3)
	if nbuf > 0 {
		cs.bufPipe.Write(vBytes("buf", nbuf))
	}
	ended := vBool("ended")
	if ended {
		cs.bufPipe.CloseWithError(errC12tClosed)
	}
	vAssume(int64(cc.inflow.avail)+int64(cc.inflow.unsent)+int64(nbuf) <= maxWin)
	vAssume(int64(cs.inflow.avail)+int64(cs.inflow.unsent)+int64(nbuf) <= maxWin)
	ca, cu := int64(cc.inflow.avail), int64(cc.inflow.unsent)
	sa, su := int64(cs.inflow.avail), int64(cs.inflow.unsent)
	want := vRange("want", 1, 4)
	if nbuf == 0 && !ended {
		return // Read would block
	}
	p := make([]byte, want)
	n, err := transportResponseBody{cs}.Read(p)
	cc.bw.Flush()
	w := c12tParse(out.Bytes())
	vReach("t-body-read")
	mn := want
	if nbuf < mn {
		mn = nbuf
	}
	vAssert(n == mn, "t-read-returns-buffered-bytes")
	vAssert(int64(cs.bufPipe.Len()) == int64(nbuf-n), "t-read-consumes-buffer")
	vAssert(int64(cc.inflow.avail)+int64(cc.inflow.unsent) == ca+cu+int64(n), "t-conn-credit-returned")
	vAssert(int64(cc.inflow.avail) == ca+w.connWU, "t-conn-window-tracks-updates-sent")
	vAssert(cc.inflow.unsent < inflowMinRefresh, "t-conn-withheld-credit-bounded")
	if err == nil {
		vAssert(int64(cs.inflow.avail)+int64(cs.inflow.unsent) == sa+su+int64(n), "t-stream-credit-returned")
		vAssert(int64(cs.inflow.avail) == sa+w.streamWU, "t-stream-window-tracks-updates-sent")
		vAssert(cs.inflow.unsent < inflowMinRefresh, "t-stream-withheld-credit-bounded")
	} else {
		vAssert(w.streamWU == 0, "t-no-stream-update-once-over")
	}
	vAssert(w.other == 0 && w.rst == 0, "t-only-window-updates-written")
}

// transportResponseBody.Close with unread bytes: their connection credit is returned.
func VerifC12_transport_body_close() {
	var out bytes.Buffer
	cc, cs, _ := c12tConn(&out)
	close(cs.donec) // the request's goroutine has finished; Close waits for it
	nbuf := vRange("buffered", 0, 3)
	if nbuf > 0 {
		cs.bufPipe.Write(vBytes("buf", nbuf))
	}
	vAssume(int64(cc.inflow.avail)+int64(cc.inflow.unsent)+int64(nbuf) <= maxWin)
	ca, cu := int64(cc.inflow.avail), int64(cc.inflow.unsent)
	transportResponseBody{cs}.Close()
	cc.bw.Flush()
	w := c12tParse(out.Bytes())
	vReach("t-body-closed")
	vAssert(int64(cc.inflow.avail)+int64(cc.inflow.unsent) == ca+cu+int64(nbuf), "t-unread-conn-credit-returned")
	vAssert(int64(cc.inflow.avail) == ca+w.connWU, "t-conn-window-tracks-updates-sent")
	vAssert(cc.inflow.unsent < inflowMinRefresh, "t-conn-withheld-credit-bounded")
	vAssert(w.streamWU == 0 && w.other == 0 && w.rst == 0, "t-only-conn-update-on-close")
}

// Transport send side: WINDOW_UPDATE and SETTINGS_INITIAL_WINDOW_SIZE from the server.
func VerifC12_transport_window_update() {
	var out bytes.Buffer
	cc, _, rl := c12tConn(&out)
	delete(cc.streams, 1)
	cc.flow.n = vI32("connwin")
	cc.initialWindowSize = vU32("initial")
	vAssume(cc.initialWindowSize <= maxWin)
	var sts []*clientStream
	for i, n := 0, vRange("nstreams", 0, 2); i < n; i++ {
		cs := &clientStream{cc: cc, ID: uint32(2*i + 1), ctx: context.Background()}
		cs.abort = make(chan struct{})
		cs.flow.n = vI32(vName("strwin", i))
		vAssume(int64(cs.flow.n) >= int64(cc.initialWindowSize)-maxWin)
		cs.flow.setConnFlow(&cc.flow)
		cc.streams[cs.ID] = cs
		sts = append(sts, cs)
	}
	pre := make([]int32, len(sts))
	for i, cs := range sts {
		pre[i] = cs.flow.n
	}
	cw := cc.flow.n
	if vBool("settings") {
		val := vU32("newInitial")
		old := cc.initialWindowSize
		cc.seenSettings = true
		sf := &SettingsFrame{FrameHeader: FrameHeader{valid: true, Type: FrameSettings, Length: 6},
			p: []byte{0, byte(SettingInitialWindowSize), byte(val >> 24), byte(val >> 16), byte(val >> 8), byte(val)}}
		err := rl.processSettingsNoWrite(sf)
		vReach("t-initial-window-changed")
		if val > maxWin {
			ce, ok := err.(ConnectionError)
			vAssert(ok && ErrCode(ce) == ErrCodeFlowControl, "t-oversized-initial-window-is-flow-error")
			for i, cs := range sts {
				vAssert(cs.flow.n == pre[i], "t-rejected-setting-changes-nothing")
			}
			return
		}
		over := false
		for i := range sts {
			over = vOr(over, int64(pre[i])+int64(val)-int64(old) > maxWin)
		}
		vAssume(vNot(over)) // the transport does not police this overflow (the server side does); outside the claim
		vAssert(err == nil, "t-settings-accepted")
		for i, cs := range sts {
			vAssert(int64(cs.flow.n) == int64(pre[i])+int64(val)-int64(old), "t-every-open-stream-adjusted")
		}
		vAssert(cc.initialWindowSize == val, "t-new-streams-start-from-new-value")
		vAssert(cc.flow.n == cw, "t-conn-window-untouched-by-settings")
		return
	}
	incr := vU32("incr")
	vAssume(vAnd(incr > 0, incr <= maxWin))
	target := vRange("target", 0, 3)
	id := uint32(0)
	switch target {
	case 1:
		id = 1
	case 2:
		id = 3
	case 3:
		id = 9
	}
	err := rl.processWindowUpdate(&WindowUpdateFrame{FrameHeader: FrameHeader{valid: true, Type: FrameWindowUpdate, Length: 4, StreamID: id}, Increment: incr})
	vReach("t-window-update")
	if id == 0 {
		if int64(cw)+int64(incr) > maxWin {
			ce, ok := err.(ConnectionError)
			vAssert(ok && ErrCode(ce) == ErrCodeFlowControl, "t-conn-overflow-is-flow-error")
			vAssert(cc.flow.n == cw, "t-conn-overflow-unchanged")
		} else {
			vAssert(err == nil && int64(cc.flow.n) == int64(cw)+int64(incr), "t-conn-window-grows-by-increment")
		}
		for i, cs := range sts {
			vAssert(cs.flow.n == pre[i], "t-stream-windows-untouched")
		}
		return
	}
	cs, tracked := cc.streams[id]
	if !tracked {
		vAssert(err == nil && cc.flow.n == cw, "t-update-for-closed-stream-ignored")
		return
	}
	ix := int(id-1) / 2
	if int64(pre[ix])+int64(incr) > maxWin {
		vAssert(err == nil && cs.readAborted, "t-stream-overflow-aborts-stream")
		se, ok := cs.abortErr.(StreamError)
		vAssert(ok && se.Code == ErrCodeFlowControl, "t-stream-overflow-is-flow-error")
		vAssert(cs.flow.n == pre[ix], "t-stream-overflow-unchanged")
	} else {
		vAssert(err == nil && int64(cs.flow.n) == int64(pre[ix])+int64(incr), "t-stream-window-grows-by-increment")
	}
	vAssert(cc.flow.n == cw, "t-conn-window-untouched")
}
