//go:build verif

package http2

// C08 — what the server hands to the request body is exactly the DATA payload: without the
// pad-length byte and the padding, once, in order, also across several frames.

import (
	"context"
	"net/http"
)

func VerifC08_processData_payload() {
	DebugGoroutines = false
	c12w.connWU, c12w.streamWU, c12w.frames, c12w.other = 0, 0, 0, 0
	sc := &serverConn{srv: &Server{}, hs: &http.Server{}, streams: map[uint32]*stream{}, maxClientStreamID: 1}
	sc.inflow.avail = 1 << 20
	st := &stream{sc: sc, id: 1, state: stateOpen, declBodyBytes: -1}
	st.inflow.avail = 1 << 20
	ctx, cancel := context.WithCancel(context.Background())
	st.ctx, st.cancelCtx = ctx, cancel
	st.cw.Init()
	st.body = &pipe{b: &dataBuffer{expected: 16}}
	sc.streams[1] = st
	sc.curClientStreams = 1
	var sent []byte
	frames := vRange("frames", 1, 2)
	lens := make([]int, frames)
	total := 0
	for i := range lens {
		lens[i] = vRange(vName("dataLen", i), 0, 2)
		total += lens[i]
	}
	if vBool("contentLengthDeclared") {
		// padding is not part of the body: a padded upload that matches its Content-Length is legal
		st.declBodyBytes = int64(total)
		vReach("declared-length")
	}
	for i := 0; i < frames; i++ {
		d := vBytes(vName("data", i), lens[i])
		pad := uint32(vRange(vName("padTotal", i), 0, 2)) // pad-length byte + padding
		fl := Flags(0)
		if pad > 0 {
			fl |= FlagDataPadded
		}
		if i == frames-1 && vBool("endStream") {
			fl |= FlagDataEndStream
		}
		f := &DataFrame{FrameHeader: FrameHeader{valid: true, Type: FrameData, Flags: fl, Length: uint32(len(d)) + pad, StreamID: 1}, data: d}
		if err := sc.processData(f); err != nil {
			vFail("legal-data-accepted")
			return
		}
		sent = append(sent, d...)
	}
	vReach("body-delivered")
	got := make([]byte, len(sent)+2)
	n := 0
	if len(sent) > 0 {
		n, _ = st.body.Read(got)
	}
	vAssert(n == len(sent) && string(got[:n]) == string(sent), "handler-reads-exactly-the-payload")
}
