//go:build verif

package http2

// C12 (server / transport call sites) — one step from an arbitrary state satisfying the ledger
// invariant. Ghost ledger per connection: avail + unsent + bytes buffered unread is constant;
// every WINDOW_UPDATE that is queued is what moves credit from "unsent" to the peer.

import (
	"context"
	"errors"
	"net/http"
)

var c12w struct {
	connWU   int64 // sum of connection-level WINDOW_UPDATE increments queued
	streamWU int64 // sum of stream-level increments queued for stream 1
	frames   int
	other    int
}

//verif:replace (*serverConn).writeFrame
func c12writeFrame(sc *serverConn, wr FrameWriteRequest) {
	c12w.frames++
	if wu, ok := wr.write.(writeWindowUpdate); ok {
		if wu.streamID == 0 {
			c12w.connWU += int64(wu.n)
		} else {
			c12w.streamWU += int64(wu.n)
		}
		return
	}
	c12w.other++
}

//verif:replace (*serverConn).scheduleFrameWrite
func c12scheduleFrameWrite(sc *serverConn) {}

var errC12HandlerClosed = errors.New("handler closed the body")

func c12inflow(name string) inflow {
	f := inflow{avail: vI32(name + ".avail"), unsent: vI32(name + ".unsent")}
	vAssume(vAnd(f.avail >= 0, vAnd(f.unsent >= 0, f.unsent < inflowMinRefresh)))
	return f
}

func c12ProcessData(maxData int) {
	DebugGoroutines = false
	c12w.connWU, c12w.streamWU, c12w.frames, c12w.other = 0, 0, 0, 0
	sc := &serverConn{srv: &Server{}, hs: &http.Server{}, streams: map[uint32]*stream{}, maxClientStreamID: 3}
	sc.inflow = c12inflow("conn")
	st := &stream{sc: sc, id: 1, state: stateOpen, declBodyBytes: -1}
	st.inflow = c12inflow("stream")
	ctx, cancel := context.WithCancel(context.Background())
	st.ctx, st.cancelCtx = ctx, cancel
	st.cw.Init()
	st.body = &pipe{b: &dataBuffer{expected: 16}}
	sc.streams[1] = st
	sc.curClientStreams = 1

	// which stream the frame addresses and in what condition that stream is
	// 0 open  1 open, body declared  2 open, handler closed the body  3 open, trailers seen
	// 4 open, reset queued  5 half-closed(remote)  6 half-closed(local)  7 closed (untracked)  8 idle
	mode := vRange("mode", 0, 8)
	id := uint32(1)
	handlerClosed := false
	switch mode {
	case 1:
		st.declBodyBytes = int64(vU16("st.decl"))
		st.bodyBytes = int64(vU16("st.bodyBytes"))
	case 2:
		handlerClosed = true
	case 3:
		st.gotTrailerHeader = true
	case 4:
		st.resetQueued = true
	case 5:
		st.state = stateHalfClosedRemote
	case 6:
		st.state = stateHalfClosedLocal
	case 7:
		id = 3
	case 8:
		id = 5
	}
	if mode <= 2 {
		if nbuf := vRange("buffered", 0, 1) * 2; nbuf > 0 {
			st.body.Write(vBytes("prebuf", nbuf))
		}
	}
	if handlerClosed {
		st.body.BreakWithError(errC12HandlerClosed)
	}

	// ledger invariant for both windows: everything charged is either buffered or already credited
	B0 := int64(st.body.Len())
	vAssume(int64(sc.inflow.avail)+int64(sc.inflow.unsent)+B0 <= maxWin)
	vAssume(int64(st.inflow.avail)+int64(st.inflow.unsent)+B0 <= maxWin)

	// the frame: payload of concrete length, total length = payload + pad-length byte + padding
	dl := vRange("datalen", 0, maxData)
	data := vBytes("data", dl)
	padTotal := vU32("padTotal") // 0 = not padded, else 1 + pad length (1..256)
	vAssume(padTotal <= 256)
	L := uint32(dl) + padTotal
	flags := Flags(0)
	if vBool("endStream") {
		flags |= FlagDataEndStream
	}
	f := &DataFrame{FrameHeader: FrameHeader{valid: true, Type: FrameData, Flags: flags, Length: L, StreamID: id}, data: data}

	ca, cu := int64(sc.inflow.avail), int64(sc.inflow.unsent)
	sa, su := int64(st.inflow.avail), int64(st.inflow.unsent)
	var err error
	if vCatch(func() { err = sc.processData(f) }) {
		vFail("processData-no-panic")
		return
	}
	B1 := int64(st.body.Len())
	ca1, cu1 := int64(sc.inflow.avail), int64(sc.inflow.unsent)
	sa1, su1 := int64(st.inflow.avail), int64(st.inflow.unsent)
	se, isSE := err.(StreamError)
	flowErr := isSE && se.Code == ErrCodeFlowControl

	if mode == 8 {
		vReach("data-on-idle")
		ce, ok := err.(ConnectionError)
		vAssert(ok && ErrCode(ce) == ErrCodeProtocol, "idle-is-connection-error")
		vAssert(vAnd(ca1 == ca, cu1 == cu), "idle-no-charge")
		return
	}
	acceptable := mode <= 2
	overDeclared := mode == 1 && st.declBodyBytes != -1 && int64(vU16("st.bodyBytes"))+int64(dl) > st.declBodyBytes
	// ---- a peer that exceeds a window it was given gets a flow-control error, and only then
	connOver := int64(L) > ca
	streamOver := acceptable && !overDeclared && int64(L) > sa
	if flowErr {
		vReach("window-overrun-rejected")
		vAssert(vOr(connOver, streamOver), "flow-error-only-on-overrun")
		vAssert(vAnd(vAnd(ca1 == ca, cu1 == cu), vAnd(sa1 == sa, su1 == su)), "overrun-no-charge")
		vAssert(c12w.frames == 0 && B1 == B0, "overrun-no-effect")
		return
	}
	vAssert(vNot(vOr(connOver, streamOver)), "overrun-must-be-rejected")
	// ---- connection ledger: what was charged is buffered or credited (now, or withheld < 4 KiB)
	vAssert(ca1+cu1+B1 == ca+cu+B0, "conn-ledger-conserved")
	vAssert(ca1 == ca-int64(L)+c12w.connWU, "conn-window-tracks-updates-sent")
	vAssert(vAnd(cu1 >= 0, cu1 < inflowMinRefresh), "conn-withheld-credit-bounded")
	vAssert(ca1 >= 0, "conn-avail-nonneg")
	vAssert(c12w.other == 0, "only-window-updates-queued")
	// ---- stream ledger
	if acceptable && !isSE && !handlerClosed {
		vReach("data-accepted")
		vAssert(B1 == B0+int64(dl), "payload-buffered")
		vAssert(sa1+su1+B1 == sa+su+B0, "stream-ledger-conserved")
		vAssert(sa1 == sa-int64(L)+c12w.streamWU, "stream-window-tracks-updates-sent")
		vAssert(vAnd(su1 >= 0, su1 < inflowMinRefresh), "stream-withheld-credit-bounded")
		if padTotal > 0 {
			vReach("padded-data-accepted")
		}
	} else {
		vReach("data-discarded")
		if padTotal > 0 {
			vReach("padded-data-discarded")
		}
		vAssert(B1 <= B0, "discarded-not-buffered")
		if !acceptable {
			vAssert(vAnd(sa1 == sa, su1 == su), "discarded-leaves-stream-window")
			if mode == 4 {
				vAssert(err == nil, "reset-in-flight-ignored")
			} else {
				vAssert(isSE && se.Code == ErrCodeStreamClosed, "closed-stream-error")
			}
		}
		if overDeclared {
			vAssert(isSE && se.Code == ErrCodeProtocol, "over-declared-length-is-protocol-error")
		}
	}
}

func VerifC12_processData_quick()    { c12ProcessData(1) }
func VerifC12_processData_thorough() { c12ProcessData(3) }

// noteBodyRead: the handler consumed n buffered bytes -> exactly n of credit moves back.
func VerifC12_noteBodyRead() {
	DebugGoroutines = false
	c12w.connWU, c12w.streamWU, c12w.frames, c12w.other = 0, 0, 0, 0
	sc := &serverConn{srv: &Server{}, hs: &http.Server{}, streams: map[uint32]*stream{}}
	sc.inflow = c12inflow("conn")
	st := &stream{sc: sc, id: 1}
	st.inflow = c12inflow("stream")
	switch vRange("st.state", 0, 3) {
	case 0:
		st.state = stateOpen
	case 1:
		st.state = stateHalfClosedRemote
	case 2:
		st.state = stateHalfClosedLocal
	default:
		st.state = stateClosed
	}
	n := vInt("n")
	vAssume(vAnd(n >= 0, n <= 1<<24))
	vAssume(int64(sc.inflow.avail)+int64(sc.inflow.unsent)+int64(n) <= maxWin)
	vAssume(int64(st.inflow.avail)+int64(st.inflow.unsent)+int64(n) <= maxWin)
	ca, cu := int64(sc.inflow.avail), int64(sc.inflow.unsent)
	sa, su := int64(st.inflow.avail), int64(st.inflow.unsent)
	sc.noteBodyRead(st, n)
	vReach("body-read-noted")
	vAssert(int64(sc.inflow.avail)+int64(sc.inflow.unsent) == ca+cu+int64(n), "conn-credit-returned")
	vAssert(int64(sc.inflow.avail) == ca+c12w.connWU, "conn-window-tracks-updates-sent")
	vAssert(sc.inflow.unsent < inflowMinRefresh, "conn-withheld-credit-bounded")
	if st.state == stateOpen || st.state == stateHalfClosedLocal {
		vAssert(int64(st.inflow.avail)+int64(st.inflow.unsent) == sa+su+int64(n), "stream-credit-returned")
		vAssert(int64(st.inflow.avail) == sa+c12w.streamWU, "stream-window-tracks-updates-sent")
	} else {
		vAssert(c12w.streamWU == 0, "no-stream-update-after-remote-close")
	}
}

// processWindowUpdate / SETTINGS_INITIAL_WINDOW_SIZE: send windows grow by exactly the increment /
// difference on every open stream, overflow past 2^31-1 is a FLOW_CONTROL error.
func VerifC12_window_update() {
	DebugGoroutines = false
	sc := &serverConn{srv: &Server{}, hs: &http.Server{}, streams: map[uint32]*stream{}, maxClientStreamID: 5}
	sc.flow.n = vI32("connwin")
	sc.initialStreamSendWindowSize = vI32("initial")
	vAssume(sc.initialStreamSendWindowSize >= 0)
	var sts []*stream
	for i, n := 0, vRange("nstreams", 0, 2); i < n; i++ {
		st := &stream{sc: sc, id: uint32(2*i + 1), state: stateOpen}
		st.flow.n = vI32(vName("strwin", i))
		// reachable-state invariant: window = initial + increments - sent, and sent never exceeded what
		// was allowed, so a stream window is never below initial - (2^31-1)
		vAssume(int64(st.flow.n) >= int64(sc.initialStreamSendWindowSize)-maxWin)
		st.flow.setConnFlow(&sc.flow)
		sc.streams[st.id] = st
		sts = append(sts, st)
	}
	pre := make([]int32, len(sts))
	for i, st := range sts {
		pre[i] = st.flow.n
	}
	cw := sc.flow.n
	if vBool("settings") {
		val := vU32("newInitial")
		vAssume(val <= maxWin) // processSetting's Valid() gate
		old := sc.initialStreamSendWindowSize
		err := sc.processSettingInitialWindowSize(val)
		vReach("initial-window-changed")
		over := false
		for i := range sts {
			over = vOr(over, int64(pre[i])+int64(val)-int64(old) > maxWin)
		}
		if err != nil {
			ce, ok := err.(ConnectionError)
			vAssert(ok && ErrCode(ce) == ErrCodeFlowControl, "settings-overflow-is-conn-flow-error")
			vAssert(over, "settings-error-only-on-overflow")
			return
		}
		vAssert(!over, "settings-overflow-detected")
		for i, st := range sts {
			vAssert(int64(st.flow.n) == int64(pre[i])+int64(val)-int64(old), "every-open-stream-adjusted")
		}
		vAssert(sc.initialStreamSendWindowSize == int32(val), "new-streams-start-from-new-value")
		vAssert(sc.flow.n == cw, "conn-window-untouched-by-settings")
		return
	}
	incr := vU32("incr")
	vAssume(vAnd(incr > 0, incr <= maxWin)) // parseWindowUpdateFrame masks bit 31 and rejects 0
	target := vRange("target", 0, 3)       // 0 = connection, 1/2 = stream 1/3, 3 = closed stream 5
	id := uint32(0)
	switch target {
	case 1:
		id = 1
	case 2:
		id = 3
	case 3:
		id = 5
	}
	err := sc.processWindowUpdate(&WindowUpdateFrame{FrameHeader: FrameHeader{valid: true, Type: FrameWindowUpdate, Length: 4, StreamID: id}, Increment: incr})
	vReach("window-update")
	if id == 0 {
		if int64(cw)+int64(incr) > maxWin {
			_, ok := err.(goAwayFlowError)
			vAssert(ok, "conn-overflow-is-flow-error")
			vAssert(sc.flow.n == cw, "conn-overflow-unchanged")
		} else {
			vAssert(err == nil && int64(sc.flow.n) == int64(cw)+int64(incr), "conn-window-grows-by-increment")
		}
		for i, st := range sts {
			vAssert(st.flow.n == pre[i], "stream-windows-untouched")
		}
		return
	}
	st, tracked := sc.streams[id]
	if !tracked {
		vAssert(err == nil && sc.flow.n == cw, "update-for-closed-stream-ignored")
		return
	}
	ix := int(id-1) / 2
	if int64(pre[ix])+int64(incr) > maxWin {
		se, ok := err.(StreamError)
		vAssert(ok && se.Code == ErrCodeFlowControl && se.StreamID == id, "stream-overflow-is-stream-flow-error")
		vAssert(st.flow.n == pre[ix], "stream-overflow-unchanged")
	} else {
		vAssert(err == nil && int64(st.flow.n) == int64(pre[ix])+int64(incr), "stream-window-grows-by-increment")
	}
	vAssert(sc.flow.n == cw, "conn-window-untouched")
}

// Transport: awaitFlowControl hands out min(available, maxBytes, the peer's CURRENT max frame size)
// and only when something is available.
func VerifC12_transport_await() {
	cc := &ClientConn{}
	cc.cond = nil
	cc.flow.n = vI32("connwin")
	cc.maxFrameSize = vU32("maxFrameSize")
	vAssume(vAnd(cc.maxFrameSize >= 16384, cc.maxFrameSize <= 1<<24-1))
	cs := &clientStream{cc: cc, ctx: context.Background()}
	cs.abort = make(chan struct{})
	cs.flow.n = vI32("strwin")
	cs.flow.setConnFlow(&cc.flow)
	maxBytes := vInt("maxBytes")
	vAssume(vAnd(maxBytes > 0, maxBytes <= 1<<30))
	sw, cw := cs.flow.n, cc.flow.n
	av := vIteI32(cw < sw, cw, sw)
	vAssume(av > 0) // otherwise the call blocks on the condition variable (liveness, outside the claim)
	// the peer lowers SETTINGS_MAX_FRAME_SIZE while the upload is in progress
	if vBool("peerChangesMaxFrameSize") {
		cc.maxFrameSize = vU32("maxFrameSize2")
		vAssume(vAnd(cc.maxFrameSize >= 16384, cc.maxFrameSize <= 1<<24-1))
		vReach("max-frame-size-changed")
	}
	taken, err := cs.awaitFlowControl(maxBytes)
	vReach("tokens-taken")
	vAssert(err == nil, "await-no-error")
	vAssert(taken > 0, "takes-something")
	vAssert(vAnd(vAnd(taken <= av, int64(taken) <= int64(maxBytes)), int64(taken) <= int64(cc.maxFrameSize)), "never-beyond-windows-or-frame-size")
	want := int64(av)
	want = vIteI64(int64(maxBytes) < want, int64(maxBytes), want)
	want = vIteI64(int64(cc.maxFrameSize) < want, int64(cc.maxFrameSize), want)
	vAssert(int64(taken) == want, "takes-the-minimum")
	vAssert(vAnd(cs.flow.n == sw-taken, cc.flow.n == cw-taken), "both-windows-charged")
}
