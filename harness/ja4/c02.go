//go:build verif

package ja4

// C02 — JA4 of a ClientHello spec: every component equals the FoxIO definition restated in the
// property (reference below), the result has the form a_b_c with 12 hex digits in b and c, and it
// does not change when cipher suites or extensions are reordered or GREASE values are added,
// moved or altered. SHA-256 is uninterpreted (functional consistency only); the utls extension
// types are the real ones (their Len/Read run from SSA). The bytes -> spec step (utls.FromRaw)
// is outside the claim.

import (
	"fmt"
	"hash"
	"sort"
	"strings"

	utls "github.com/refraction-networking/utls"
)

type c02Hash struct{ data []byte }

func (h *c02Hash) Write(p []byte) (int, error) { h.data = append(h.data, p...); return len(p), nil }
func (h *c02Hash) Sum(b []byte) []byte         { return append(b, vHash("sha256", h.data, 32)...) }
func (h *c02Hash) Reset()                      { h.data = nil }
func (h *c02Hash) Size() int                   { return 32 }
func (h *c02Hash) BlockSize() int              { return 64 }

//verif:replace crypto/sha256.New
func c02NewSHA256() hash.Hash { return &c02Hash{} }

func refIsGREASE(v uint16) bool { return vAnd(v>>8 == v&0xff, v&0xf == 0xa) }

// the reference renders numbers with the same formatting primitive as the code under test, so
// that what is compared is which values appear, in which order, with which separators
func refHex4(v uint16) string { return fmt.Sprintf("%04x", v) }

func refJoin(xs []uint16) string {
	var parts []string
	for _, x := range xs {
		parts = append(parts, refHex4(x))
	}
	return strings.Join(parts, ",")
}

func refTrunc(s string) string {
	sum := vHash("sha256", []byte(s), 32)
	return fmt.Sprintf("%x", sum[:6])
}

func refTwoDigits(n int) string {
	if n > 99 {
		n = 99
	}
	return fmt.Sprintf("%02d", n)
}

type c02Spec struct {
	chs      *utls.ClientHelloSpec
	extIDs   []uint16 // wire order, every extension incl. GREASE / SNI / ALPN
	sigalgs  []uint16
	versions []uint16 // supported_versions content, nil if absent
	hasSNI   bool
	alpn     []string
	legacy   uint16
}

func refJA4(s *c02Spec) string {
	// version: highest non-GREASE supported_versions entry, else the legacy version
	vers := s.legacy
	if s.legacy == 0 {
		vers = 0
		for _, v := range s.versions {
			if !refIsGREASE(v) && v > vers {
				vers = v
			}
		}
	}
	vs := "00"
	switch vers {
	case 0x0301:
		vs = "10"
	case 0x0302:
		vs = "11"
	case 0x0303:
		vs = "12"
	case 0x0304:
		vs = "13"
	}
	sni := "i"
	if s.hasSNI {
		sni = "d"
	}
	var ciphers []uint16
	for _, c := range s.chs.CipherSuites {
		if !refIsGREASE(c) {
			ciphers = append(ciphers, c)
		}
	}
	nExt := 0
	var exts []uint16
	for _, id := range s.extIDs {
		if refIsGREASE(id) {
			continue
		}
		nExt++
		if id == 0 || id == 16 {
			continue
		}
		exts = append(exts, id)
	}
	alpn := "00"
	if len(s.alpn) > 0 && s.alpn[0] != "" {
		a := s.alpn[0]
		alpn = string([]byte{a[0], a[len(a)-1]})
	}
	a := "t" + vs + sni + refTwoDigits(len(ciphers)) + refTwoDigits(nExt) + alpn
	sort.Slice(ciphers, func(i, j int) bool { return ciphers[i] < ciphers[j] })
	sort.Slice(exts, func(i, j int) bool { return exts[i] < exts[j] })
	b := refTrunc(refJoin(ciphers))
	cIn := refJoin(exts)
	var sigalgs []uint16
	for _, a := range s.sigalgs {
		if !refIsGREASE(a) { // "GREASE values are ignored everywhere"
			sigalgs = append(sigalgs, a)
		}
	}
	if len(sigalgs) > 0 {
		cIn += "_" + refJoin(sigalgs)
	}
	return a + "_" + b + "_" + refTrunc(cIn)
}

// c02Build builds a spec with nC symbolic ciphers and a symbolic choice of extensions.
func c02Build(tag string, nC, nG int, withVersions, symALPN bool) *c02Spec {
	s := &c02Spec{chs: &utls.ClientHelloSpec{}}
	for i := 0; i < nC; i++ {
		s.chs.CipherSuites = append(s.chs.CipherSuites, vU16(vName(tag+".cipher", i)))
	}
	add := func(e utls.TLSExtension, id uint16) {
		s.chs.Extensions = append(s.chs.Extensions, e)
		s.extIDs = append(s.extIDs, id)
	}
	shape := vRange(tag+".shape", 0, 3)
	if shape == 1 || shape == 3 {
		add(&utls.SNIExtension{ServerName: "a"}, 0)
		s.hasSNI = true
	}
	for i := 0; i < nG; i++ {
		id := vU16(vName(tag+".ext", i))
		// ids that the utls parser maps to typed extensions never arrive as generic ones
		vAssume(vAnd(vAnd(id != 0, id != 16), vAnd(vAnd(id != 13, id != 43), vAnd(id != 21, vNot(refIsGREASE(id))))))
		add(&utls.GenericExtension{Id: id, Data: []byte{1}}, id)
	}
	if shape >= 2 {
		al := "h2"
		if symALPN {
			al = vString(tag+".alpn", vRange(tag+".alpnLen", 0, 4))
			if len(al) == 1 {
				vAssume(false) // a one-byte ALPN value: the statement ("first and last character") and the reference implementation the code cites differ; left out
			}
			if len(al) > 0 {
				// bytes above 127: the cited reference prints "99" / hex digits, the statement says characters; left out
				vAssume(vAnd(al[0] <= 127, al[len(al)-1] <= 127))
			}
		}
		s.alpn = []string{al, "http/1.1"}
		add(&utls.ALPNExtension{AlpnProtocols: s.alpn}, 16)
		sa := []uint16{vU16(tag + ".sigalg0"), 0x0804}
		s.sigalgs = sa
		add(&utls.SignatureAlgorithmsExtension{SupportedSignatureAlgorithms: []utls.SignatureScheme{utls.SignatureScheme(sa[0]), utls.SignatureScheme(sa[1])}}, 13)
	}
	if withVersions && vBool(tag+".supportedVersions") {
		s.versions = []uint16{vU16(tag + ".ver0"), vU16(tag + ".ver1")}
		add(&utls.SupportedVersionsExtension{Versions: s.versions}, 43)
		s.legacy = 0
	} else if withVersions {
		s.legacy = vU16(tag + ".legacy")
		vAssume(s.legacy != 0)
	} else {
		s.legacy = 0x0303
	}
	s.chs.TLSVersMax = s.legacy
	return s
}

func c02String(s *c02Spec) (string, bool) {
	fp := &JA4Fingerprint{}
	var out string
	var err error
	if vCatch(func() {
		err = fp.Unmarshal(s.chs, 't')
		if err == nil {
			out = fp.String()
		}
	}) {
		vFail("ja4-no-panic")
		return "", false
	}
	if err != nil {
		vFail("ja4-no-error")
		return "", false
	}
	return out, true
}

func c02Fields(nC, nG int, versions, alpn bool) {
	s := c02Build("h", nC, nG, versions, alpn)
	got, ok := c02String(s)
	if !ok {
		return
	}
	want := refJA4(s)
	vReach("ja4-compared")
	vAssert(got == want, "ja4-equals-definition")
	// shape: a_b_c, twelve hex digits in b and in c
	if len(got) != 10+1+12+1+12 {
		vFail("ja4-shape-a_b_c")
		return
	}
	shape := vAnd(got[10] == '_', got[23] == '_')
	for i := 11; i < 36; i++ {
		if i == 23 {
			continue
		}
		c := got[i]
		shape = vAnd(shape, vOr(vAnd(c >= '0', c <= '9'), vAnd(c >= 'a', c <= 'f')))
	}
	vAssert(shape, "ja4-shape-a_b_c")
}

func VerifC02_fields_quick()    { c02Fields(2, 1, false, false) }
func VerifC02_fields_thorough() { c02Fields(3, 2, false, false) }
func VerifC02_version()         { c02Fields(0, 0, true, false) }
func VerifC02_alpn()            { c02Fields(0, 0, false, true) }

// order / GREASE invariance, one generator step: adjacent transposition or one GREASE insertion
func c02Invariance(nC, nG int) {
	s := c02Build("h", nC, nG, false, false)
	base, ok := c02String(s)
	if !ok {
		return
	}
	t := &c02Spec{chs: &utls.ClientHelloSpec{TLSVersMax: s.chs.TLSVersMax}}
	t.chs.CipherSuites = append([]uint16{}, s.chs.CipherSuites...)
	t.chs.Extensions = append([]utls.TLSExtension{}, s.chs.Extensions...)
	switch vRange("generator", 0, 3) {
	case 0: // swap two adjacent cipher suites
		if nC < 2 {
			vAssume(false)
		}
		i := vRange("swapAt", 0, nC-2)
		t.chs.CipherSuites[i], t.chs.CipherSuites[i+1] = t.chs.CipherSuites[i+1], t.chs.CipherSuites[i]
		vReach("ciphers-swapped")
	case 1: // swap two adjacent extensions
		n := len(t.chs.Extensions)
		if n < 2 {
			vAssume(false)
		}
		i := vRange("swapAt", 0, n-2)
		t.chs.Extensions[i], t.chs.Extensions[i+1] = t.chs.Extensions[i+1], t.chs.Extensions[i]
		vReach("extensions-swapped")
	case 2: // insert one GREASE cipher at any position
		g := vU16("grease")
		vAssume(refIsGREASE(g))
		i := vRange("insertAt", 0, nC)
		cs := append([]uint16{}, t.chs.CipherSuites[:i]...)
		cs = append(cs, g)
		t.chs.CipherSuites = append(cs, s.chs.CipherSuites[i:]...)
		vReach("grease-cipher-inserted")
	case 3: // insert one GREASE extension at any position
		g := vU16("grease")
		vAssume(refIsGREASE(g))
		n := len(s.chs.Extensions)
		i := vRange("insertAt", 0, n)
		es := append([]utls.TLSExtension{}, s.chs.Extensions[:i]...)
		es = append(es, &utls.UtlsGREASEExtension{Value: g})
		t.chs.Extensions = append(es, s.chs.Extensions[i:]...)
		vReach("grease-extension-inserted")
	}
	other, ok := c02String(t)
	if !ok {
		return
	}
	vAssert(other == base, "ja4-invariant-under-reorder-and-grease")
}

func VerifC02_invariance_quick()    { c02Invariance(3, 1) }
func VerifC02_invariance_thorough() { c02Invariance(4, 2) }

// the count fields saturate at 99
func VerifC02_counts() {
	n := vInt("n")
	vAssume(vAnd(n >= 0, n <= 100000))
	vReach("counts")
	want := fmt.Sprintf("%02d", vIteInt(n > 99, 99, n))
	vAssert(numberOfCipherSuites(n).String() == want, "cipher-count-two-digits-capped")
	vAssert(numberOfExtensions(n).String() == want, "extension-count-two-digits-capped")
}

