//go:build verif

package certwatcher

// C14 — certificate hot-reload (reduced scope): for every fsnotify event mask and every outcome
// of loading the pair, the certificate handed to handshakes is always a complete pair that was
// loaded successfully: unchanged when a reload fails (missing, half-written, mismatched files),
// exactly the newly loaded pair when it succeeds; a relevant event triggers exactly one reload,
// after re-adding the watch when the file was removed (rename-over, symlink swap).
// Environment contract (outside the claim): which inotify events each update style delivers,
// and that tls.LoadX509KeyPair fails for any non-matching or unparsable pair.

import (
	"crypto/tls"
	"errors"
	"io/fs"
	"os"
	"time"

	"github.com/fsnotify/fsnotify"
)

var c14 struct {
	loads      int
	adds       []string
	order      []string
	nextMarker byte
	loadFails  bool
	addFails   bool
}

// The file system as far as the environment contract describes it. The code under test on the
// unchanged tree never looks at it; a change that consults the file system before deciding whether
// to reload does, and then has to be right for both layouts the property names: regular files
// (written in place or renamed over: the path's own inode data changes with every update) and
// symlinked paths (Kubernetes-style directory swap: the link itself never changes, what it points
// to does). c14fs.version counts the updates that caused the events the harness delivers.
var c14fs struct {
	symlinks bool
	version  int64
}

type c14Info struct{ mtime, size int64 }

func (i c14Info) Name() string       { return "tls" }
func (i c14Info) Size() int64        { return i.size }
func (i c14Info) Mode() fs.FileMode  { return 0o644 }
func (i c14Info) ModTime() time.Time { return time.Unix(i.mtime, 0) }
func (i c14Info) IsDir() bool        { return false }
func (i c14Info) Sys() any           { return nil }

//verif:replace os.Stat
func c14Stat(name string) (os.FileInfo, error) {
	return c14Info{mtime: 1700000000 + c14fs.version, size: 1200 + c14fs.version%2}, nil
}

//verif:replace os.Lstat
func c14Lstat(name string) (os.FileInfo, error) {
	if c14fs.symlinks {
		return c14Info{mtime: 1600000000, size: 17}, nil // the link, not what it points to
	}
	return c14Stat(name)
}

var errC14Load = errors.New("tls: failed to find any PEM data / private key does not match public key (stub)")
var errC14Add = errors.New("fsnotify: no such file or directory (stub)")

//verif:replace crypto/tls.LoadX509KeyPair
func c14LoadX509KeyPair(certFile, keyFile string) (tls.Certificate, error) {
	c14.loads++
	c14.order = append(c14.order, "load")
	if certFile != "/etc/tls/tls.crt" || keyFile != "/etc/tls/tls.key" {
		vFail("loads-the-configured-paths")
	}
	if c14.loadFails {
		return tls.Certificate{}, errC14Load
	}
	c14.nextMarker++
	return tls.Certificate{Certificate: [][]byte{{c14.nextMarker}}}, nil
}

//verif:replace (*github.com/fsnotify/fsnotify.Watcher).Add
func c14WatcherAdd(w *fsnotify.Watcher, name string) error {
	c14.adds = append(c14.adds, name)
	c14.order = append(c14.order, "add")
	if c14.addFails {
		return errC14Add
	}
	return nil
}

//verif:replace github.com/fsnotify/fsnotify.NewWatcher
func c14NewWatcher() (*fsnotify.Watcher, error) {
	return &fsnotify.Watcher{Events: make(chan fsnotify.Event), Errors: make(chan error)}, nil
}

//verif:replace (*github.com/fsnotify/fsnotify.Watcher).Close
func c14WatcherClose(w *fsnotify.Watcher) error {
	close(w.Events)
	close(w.Errors)
	return nil
}

func c14Reset() {
	c14.loads, c14.adds, c14.order, c14.nextMarker, c14.loadFails, c14.addFails = 0, nil, nil, 0, false, false
	c14fs.symlinks, c14fs.version = vBool("fs.watchedPathsAreSymlinks"), 0
}

func VerifC14_event() {
	c14Reset()
	VerboseLogs = vBool("verbose")
	cw, err := New("/etc/tls/tls.crt", "/etc/tls/tls.key")
	if err != nil || cw == nil {
		vFail("new-succeeds-when-initial-load-succeeds")
		return
	}
	first, _ := cw.GetCertificate(nil)
	vAssert(first != nil && len(first.Certificate) == 1 && first.Certificate[0][0] == 1, "initial-pair-served")
	c14.loads, c14.order = 0, nil

	op := fsnotify.Op(vU32("event.op"))
	name := []string{"/etc/tls/tls.crt", "/etc/tls/tls.key"}[vRange("event.file", 0, 1)]
	c14.loadFails = vBool("reload.fails")
	c14.addFails = vBool("rewatch.fails")
	if op&(fsnotify.Write|fsnotify.Create|fsnotify.Remove) != 0 {
		c14fs.version++ // the update that caused the event
	}
	if vCatch(func() { cw.handleEvent(fsnotify.Event{Name: name, Op: op}) }) {
		vFail("handle-event-no-panic")
		return
	}
	after, gerr := cw.GetCertificate(nil)
	vAssert(gerr == nil && after != nil, "always-a-certificate")
	relevant := op&(fsnotify.Write|fsnotify.Create|fsnotify.Remove) != 0
	if !relevant {
		vReach("irrelevant-event")
		vAssert(c14.loads == 0 && len(c14.adds) == 0 && after == first, "irrelevant-event-changes-nothing")
		return
	}
	vReach("relevant-event")
	vAssert(c14.loads == 1, "exactly-one-reload-per-event")
	if op&fsnotify.Remove != 0 {
		vReach("file-removed")
		vAssert(len(c14.adds) == 1 && c14.adds[0] == name, "removed-file-is-watched-again")
		vAssert(len(c14.order) == 2 && c14.order[0] == "add" && c14.order[1] == "load", "rewatch-before-reload")
	} else {
		vAssert(len(c14.adds) == 0, "no-rewatch-unless-removed")
	}
	if c14.loadFails {
		vReach("reload-failed")
		vAssert(after == first, "last-good-pair-kept-on-failure")
	} else {
		vReach("reload-succeeded")
		vAssert(after != first && len(after.Certificate) == 1 && after.Certificate[0][0] == 2, "new-pair-served-after-successful-reload")
		vAssert(vEventCount("(*sync.RWMutex).Lock") >= 2, "swap-under-write-lock")
	}
	vAssert(len(first.Certificate) == 1 && first.Certificate[0][0] == 1, "old-pair-never-mutated")
	vAssert(vEventCount("(*sync.RWMutex).RLock") >= 2, "reads-under-read-lock")
}

// New fails (and serves nothing) when the initial pair does not load.
func VerifC14_new_fails() {
	c14Reset()
	c14.loadFails = true
	cw, err := New("/etc/tls/tls.crt", "/etc/tls/tls.key")
	vReach("initial-load-failed")
	vAssert(err != nil && cw == nil, "no-watcher-without-a-valid-initial-pair")
}
