//go:build verif

package certwatcher

// C14 on the real watcher loop (thread mode): Start + Watch run as the goroutines they are, fed a
// history of fsnotify events and watcher errors through the watcher's real channels; between any
// two events a handshake (GetCertificate) is served the last pair that loaded successfully -
// whatever mixture of failed reloads, removed files and irrelevant events came before - and
// cancelling the context closes the watcher and ends the loop.

import (
	"context"
	"errors"

	"github.com/fsnotify/fsnotify"
)

func c14Loop(steps int) {
	c14Reset()
	vSchedulePolicy(vRange("schedulePolicy", 0, 2)) // thread mode, under each of the three scheduling policies
	VerboseLogs = false
	cw, err := New("/etc/tls/tls.crt", "/etc/tls/tls.key")
	if err != nil || cw == nil {
		vFail("new-succeeds-when-initial-load-succeeds")
		return
	}
	ctx, cancel := context.WithCancel(context.Background())
	done := make(chan error, 1)
	go func() { done <- cw.Start(ctx) }()
	vYield()
	vAssert(len(c14.adds) == 2 && c14.adds[0] == "/etc/tls/tls.crt" && c14.adds[1] == "/etc/tls/tls.key", "both-files-watched")
	served := byte(1)
	for i := 0; i < steps; i++ {
		if vBool(vName("watcherError", i)) {
			cw.watcher.Errors <- errors.New("inotify: queue overflow")
			vYield()
			vReach("watcher-error")
		}
		op := fsnotify.Op(vU32(vName("op", i)))
		vAssume(op < 32) // Create | Write | Remove | Rename | Chmod
		name := []string{"/etc/tls/tls.crt", "/etc/tls/tls.key"}[vRange(vName("file", i), 0, 1)]
		c14.loadFails = vBool(vName("reloadFails", i))
		c14.addFails = vBool(vName("rewatchFails", i))
		loads, adds := c14.loads, len(c14.adds)
		if op&(fsnotify.Write|fsnotify.Create|fsnotify.Remove) != 0 {
			c14fs.version++ // the update that caused the event
		}
		cw.watcher.Events <- fsnotify.Event{Name: name, Op: op}
		vYield()
		relevant := op&(fsnotify.Write|fsnotify.Create|fsnotify.Remove) != 0
		if relevant {
			vReach("relevant-event")
			vAssert(c14.loads == loads+1, "exactly-one-reload-per-event")
			if !c14.loadFails {
				served = c14.nextMarker
			}
			if op&fsnotify.Remove != 0 {
				vAssert(len(c14.adds) == adds+1 && c14.adds[adds] == name, "removed-file-is-watched-again")
			} else {
				vAssert(len(c14.adds) == adds, "no-rewatch-unless-removed")
			}
		} else {
			vReach("irrelevant-event")
			vAssert(c14.loads == loads && len(c14.adds) == adds, "irrelevant-event-changes-nothing")
		}
		got, gerr := cw.GetCertificate(nil)
		vAssert(gerr == nil && got != nil && len(got.Certificate) == 1, "always-a-complete-pair")
		vAssert(got.Certificate[0][0] == served, "handshake-gets-the-last-good-pair")
	}
	vReach("history-done")
	cancel()
	vYield()
	select {
	case err := <-done:
		vAssert(err == nil, "start-returns-after-cancel")
	default:
		vFail("start-returns-after-cancel")
	}
	vAssert(vLiveThreads() == 0, "watch-goroutine-ended")
}

func VerifC14_loop_quick()    { c14Loop(2) }
func VerifC14_loop_thorough() { c14Loop(3) }
