//go:build verif

package fingerprint

// C01 (part 2) — JA3Fingerprint(md) is the JA3 of the ClientHello record in md, parsed by the
// real tlsx code, and is a pure function of those bytes: a second hello fingerprinted afterwards
// (same goroutine, pooled objects reused) is not influenced by the first, and the metadata is
// not modified. Records are assembled from symbolic parts with concrete structure.

import (
	"github.com/dreadl0ck/tlsx"
	"github.com/wi1dcard/fingerproxy/pkg/ja3"
	"github.com/wi1dcard/fingerproxy/pkg/metadata"
)

type c01Hello struct {
	rec    []byte
	expect *tlsx.ClientHelloBasic
}

func be16(v uint16) []byte { return []byte{byte(v >> 8), byte(v)} }

// c01Build assembles one ClientHello record; tag distinguishes the symbolic inputs of the two hellos.
func c01Build(tag string) c01Hello {
	exp := &tlsx.ClientHelloBasic{}
	ver := vU16(tag + ".version")
	exp.HandshakeVersion = tlsx.Version(ver)
	var body []byte
	body = append(body, be16(ver)...)
	body = append(body, make([]byte, 32)...) // random
	layout := vRange(tag+".layout", 0, 3) // the shape decides session id, cipher count and extensions
	if layout == 1 {
		body = append(body, 32)
		body = append(body, make([]byte, 32)...)
	} else {
		body = append(body, 0)
	}
	nc := []int{1, 2, 0, 2}[layout]
	body = append(body, be16(uint16(2*nc))...)
	for i := 0; i < nc; i++ {
		c := uint16(0x1301) // only the first value of each list is symbolic (GREASE or not)
		if i == 0 {
			c = vU16(tag + ".cipher0")
		}
		exp.CipherSuites = append(exp.CipherSuites, tlsx.CipherSuite(c))
		body = append(body, be16(c)...)
	}
	body = append(body, 1, 0) // one compression method: null
	var exts []byte
	ext := func(t uint16, data []byte) {
		exp.AllExtensions = append(exp.AllExtensions, t)
		exts = append(exts, be16(t)...)
		exts = append(exts, be16(uint16(len(data)))...)
		exts = append(exts, data...)
	}
	groups := func(n int) {
		var d []byte
		d = append(d, be16(uint16(2*n))...)
		exp.SupportedGroups = []uint16{}
		for i := 0; i < n; i++ {
			g := uint16(0x0017)
			if i == 0 {
				g = vU16(tag + ".group0")
			}
			exp.SupportedGroups = append(exp.SupportedGroups, g)
			d = append(d, be16(g)...)
		}
		ext(10, d)
	}
	points := func(n int) {
		d := []byte{byte(n)}
		exp.SupportedPoints = []uint8{}
		for i := 0; i < n; i++ {
			p := vU8(vName(tag+".point", i))
			exp.SupportedPoints = append(exp.SupportedPoints, p)
			d = append(d, p)
		}
		ext(11, d)
	}
	switch layout {
	case 0: // no extension block at all
	case 1:
		groups(2)
		points(1)
	case 2:
		ext(vU16(tag+".otherExt")|0x4000, nil) // some extension the parser does not interpret
		groups(1)
	case 3:
		ext(0, []byte{0, 4, 0, 0, 1, 'a'}) // server_name "a"
		points(2)
	}
	if layout != 0 {
		body = append(body, be16(uint16(len(exts)))...)
		body = append(body, exts...)
	}
	hs := []byte{1, 0, byte(len(body) >> 8), byte(len(body))}
	hs = append(hs, body...)
	rec := []byte{0x16, 3, 1, byte(len(hs) >> 8), byte(len(hs))}
	rec = append(rec, hs...)
	return c01Hello{rec: rec, expect: exp}
}

func c01Check(h c01Hello, tag string) {
	md := &metadata.Metadata{ClientHelloRecord: h.rec}
	md.ConnectionState.NegotiatedProtocol = []string{"h2", "http/1.1"}[vRange("proto", 0, 1)]
	before := string(h.rec)
	got, err := JA3Fingerprint(md)
	vAssert(err == nil, tag+"-parses")
	want := ja3.DigestHex(h.expect)
	vAssert(got == want, tag+"-ja3-of-the-record")
	vAssert(string(md.ClientHelloRecord) == before, tag+"-record-not-modified")
}

func VerifC01_parse_pure() {
	a := c01Build("A")
	b := c01Build("B")
	c01Check(a, "first")
	vReach("first-hello")
	c01Check(b, "second")
	vReach("second-hello-after-first")
}
