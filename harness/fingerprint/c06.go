//go:build verif

package fingerprint

// C06 — the header injector computes a request's fingerprint from the metadata of the connection
// that request arrived on, and from nothing else: two requests with the same peer address
// (source-port reuse) but different connections get their own values, in either order.

import (
	"context"
	"net/http"

	"github.com/wi1dcard/fingerproxy/pkg/metadata"
)

func VerifC06_injector_per_connection() {
	fn := func(md *metadata.Metadata) (string, error) { return "fp:" + string(md.ClientHelloRecord), nil }
	inj := NewFingerprintHeaderInjector("X-Test-Fingerprint", fn)
	mk := func(tag string, addr string) (*http.Request, string) {
		ctx, md := metadata.NewContext(context.Background())
		md.ClientHelloRecord = []byte{0x16, vU8(tag)}
		r := (&http.Request{Method: "GET", Header: http.Header{}, RemoteAddr: addr}).WithContext(ctx)
		return r, "fp:" + string(md.ClientHelloRecord)
	}
	addrB := "192.0.2.9:40000"
	if vBool("differentPeerAddress") {
		addrB = "192.0.2.10:40001"
	}
	ra, wantA := mk("helloA", "192.0.2.9:40000")
	rb, wantB := mk("helloB", addrB)
	vAssume(wantA != wantB)
	gotA, errA := inj.GetHeaderValue(ra)
	gotB, errB := inj.GetHeaderValue(rb)
	gotA2, _ := inj.GetHeaderValue(ra)
	vReach("two-requests")
	vAssert(errA == nil && errB == nil, "fingerprints-computed")
	vAssert(gotA == wantA && gotA2 == wantA, "value-from-the-requests-own-connection")
	vAssert(gotB == wantB, "value-from-the-requests-own-connection")
	// a request without connection metadata gets an error, not somebody else's value
	_, errC := inj.GetHeaderValue(&http.Request{Header: http.Header{}, RemoteAddr: "192.0.2.9:40000"})
	vAssert(errC != nil, "no-metadata-no-value")
}
