//go:build verif

package ja3

// C01 (part 1) — ja3.Bare / DigestHex equal the JA3 definition for every hello within the bound.
// Reference written from the property text: decimal numbers in wire order, GREASE removed from
// ciphers / extensions / groups (not from point formats), values joined by '-', fields by ','.
// GREASE is written arithmetically (both bytes equal, low nibble 0xA), independent of the map.

import (
	"strconv"

	"github.com/dreadl0ck/tlsx"
)

func refIsGrease(v uint16) bool {
	return vAnd(v>>8 == v&0xff, v&0xf == 0xa)
}

func refJoin16(dst []byte, xs []uint16, filter bool) []byte {
	first := true
	for _, x := range xs {
		if filter && refIsGrease(x) {
			continue
		}
		if !first {
			dst = append(dst, '-')
		}
		first = false
		dst = strconv.AppendInt(dst, int64(x), 10)
	}
	return dst
}

func refBare(h *tlsx.ClientHelloBasic) []byte {
	var b []byte
	b = strconv.AppendInt(b, int64(h.HandshakeVersion), 10)
	b = append(b, ',')
	cs := make([]uint16, len(h.CipherSuites))
	for i, c := range h.CipherSuites {
		cs[i] = uint16(c)
	}
	b = refJoin16(b, cs, true)
	b = append(b, ',')
	b = refJoin16(b, h.AllExtensions, true)
	b = append(b, ',')
	b = refJoin16(b, h.SupportedGroups, true)
	b = append(b, ',')
	for i, p := range h.SupportedPoints {
		if i > 0 {
			b = append(b, '-')
		}
		b = strconv.AppendInt(b, int64(p), 10)
	}
	return b
}

func c01Hello(N int) *tlsx.ClientHelloBasic {
	h := &tlsx.ClientHelloBasic{}
	h.HandshakeVersion = tlsx.Version(vU16("version"))
	for i, n := 0, vRange("nciphers", 0, N); i < n; i++ {
		h.CipherSuites = append(h.CipherSuites, tlsx.CipherSuite(vU16(vName("cipher", i))))
	}
	for i, n := 0, vRange("nexts", 0, N); i < n; i++ {
		h.AllExtensions = append(h.AllExtensions, vU16(vName("ext", i)))
	}
	for i, n := 0, vRange("ngroups", 0, N); i < n; i++ {
		h.SupportedGroups = append(h.SupportedGroups, vU16(vName("group", i)))
	}
	for i, n := 0, vRange("npoints", 0, N); i < n; i++ {
		h.SupportedPoints = append(h.SupportedPoints, vU8(vName("point", i)))
	}
	return h
}

func c01Bare(N int) {
	h := c01Hello(N)
	var got []byte
	if vCatch(func() { got = Bare(h) }) {
		vFail("bare-no-panic")
		return
	}
	want := refBare(h)
	vReach("bare-compared")
	vAssert(string(got) == string(want), "bare-equals-reference")
	if n := len(h.CipherSuites); n > 0 {
		if refIsGrease(uint16(h.CipherSuites[n-1])) {
			vReach("grease-last-cipher")
		}
		if n == 1 && refIsGrease(uint16(h.CipherSuites[0])) {
			vReach("grease-only-cipher")
		}
	}
}

func VerifC01_bare_quick()    { c01Bare(2) }
func VerifC01_bare_thorough() { c01Bare(3) }

// The digest is the hex of MD5 (uninterpreted) of exactly the bare string.
func VerifC01_digest() {
	h := c01Hello(1)
	d := DigestHex(h)
	sum := BareToDigestHex(refBare(h))
	vReach("digest")
	vAssert(len(d) == 32, "digest-is-32-hex")
	vAssert(d == sum, "digest-of-bare")
	raw := Digest(h)
	const hexdigits = "0123456789abcdef"
	ok := true
	for i := 0; i < 16; i++ {
		ok = vAnd(ok, vAnd(d[2*i] == hexdigits[raw[i]>>4], d[2*i+1] == hexdigits[raw[i]&15]))
	}
	vAssert(ok, "digest-hex-encoding")
}
