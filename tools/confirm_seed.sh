#!/bin/bash
# usage: confirm_seed.sh <PROP> <mN> <name>  -- confirms a sub-agent's mutation in its scratch worktree and stores it under /verif/seeded/<name>
set -u
prop=$1; m=$2; name=$3
wt=/tmp/mut-$prop; out=/tmp/mut-$prop-out/$m
export GOFLAGS=-mod=mod GOPROXY=off GOSUMDB=off GOTOOLCHAIN=local
cd $wt || exit 9
git checkout -q -- . && git clean -qfd
demo_dir=$(python3 -c "import json;print(json.load(open('$out/meta.json'))['demo_dir'])")
pkgs=$(git apply --numstat $out/patch.diff | awk '{print $3}' | xargs -n1 dirname | sort -u | sed 's|^|./|')
git apply $out/patch.diff || { echo "APPLY-FAIL"; exit 1; }
go build ./... || { echo "BUILD-FAIL"; exit 1; }
existing="pass"
go test -count=1 -vet=off $pkgs ./pkg/proxyserver/ > /tmp/confirm_existing.log 2>&1 || existing="FAIL"
# reverseproxy tests need the network (httpbin.org): they fail on the pinned tree as well and are not in BASELINE stable_pass
if [ "$existing" = FAIL ]; then
  bad=$(grep "^--- FAIL" /tmp/confirm_existing.log | grep -v "TestInjectHeader\|TestPreserveHost\|TestAppendForwardHeader" | wc -l)
  badpkg=$(grep "^FAIL[[:space:]]" /tmp/confirm_existing.log | grep -v "pkg/reverseproxy" | wc -l)
  if [ "$bad" = 0 ] && [ "$badpkg" = 0 ]; then existing="pass (only the three httpbin.org-dependent reverseproxy tests fail, exactly as on the pinned tree; they are not in BASELINE stable_pass)"; fi
fi
cp $out/demo_test.go $demo_dir/zz_seed_demo_test.go
with="pass"; go test -count=1 -vet=off -run 'C[0-9][0-9]|Demo' ./$demo_dir/ > /tmp/confirm_with.log 2>&1 || with="FAIL"
git apply -R $out/patch.diff
without="pass"; go test -count=1 -vet=off -run 'C[0-9][0-9]|Demo' ./$demo_dir/ > /tmp/confirm_without.log 2>&1 || without="FAIL"
git checkout -q -- . && git clean -qfd
echo "$prop/$m existing=$existing demo_with_mutation=$with demo_without=$without"
if [ "$with" = FAIL ] && [ "$without" = pass ] && [ "${existing%% *}" = pass ]; then
  mkdir -p /verif/seeded/$name
  cp $out/patch.diff /verif/seeded/$name/patch.diff
  cp $out/demo_test.go /verif/seeded/$name/demo_test.go.txt
  python3 - "$out/meta.json" "/verif/seeded/$name/meta.json" "$existing" <<'PY'
import json,sys
m=json.load(open(sys.argv[1]))
m['confirmed']={"existing_tests_with_mutation":sys.argv[3],"demo_with_mutation":"FAIL","demo_without_mutation":"pass","how":"tools/confirm_seed.sh in a scratch worktree of /repo HEAD: apply, go build ./..., go test of the touched packages + pkg/proxyserver, demo with and without the patch"}
json.dump(m,open(sys.argv[2],'w'),indent=1)
PY
  echo "  stored /verif/seeded/$name"
else
  echo "  NOT stored"; for f in /tmp/confirm_with.log /tmp/confirm_without.log /tmp/confirm_existing.log; do tail -n 5 $f; done
fi
