#!/usr/bin/env python3
"""Regenerates /verif/MANIFEST.json from checks.json (claimed properties) and na.json (reasons for the rest)."""
import json
props=[json.loads(l) for l in open('/verif/properties.jsonl')]
reg=json.load(open('/verif/checks.json'))
na_reasons=json.load(open('/verif/na.json'))
TECH="SMT-based bounded symbolic execution of go/ssa (own engine, z3) with native counterexample replay"
checks=[]
for p in props:
    pid=p['id']
    if pid not in reg or reg[pid].get('disabled'): continue
    c=reg[pid]
    checks.append({"property_id":pid,
     "quick_cmd":f"./bin/gosmt check {pid} --tier quick",
     "thorough_cmd":f"./bin/gosmt check {pid} --tier thorough",
     "evidence_file":f"/verif/evidence/{pid}.json",
     "replay_cmd_template":"./bin/gosmt replay {path}",
     "engine":"gosmt",
     "level_claimed":{"category":"model_checking","text":c['level_text'],"design_ref":f"DESIGN.md §4 {pid}"},
     "level_note":c['level_note'],
     "technique":c.get('technique',TECH)})
claimed={c['property_id'] for c in checks}
na=[{"property_id":p['id'],"reason":na_reasons.get(p['id'],"check not built yet (planned, DESIGN.md §4)")} for p in props if p['id'] not in claimed]
m={"version":1,
 "setup_cmd":"cd /verif/engine && GOFLAGS=-mod=mod GOPROXY=off GOSUMDB=off GOTOOLCHAIN=local go build -o ../bin/gosmt . && ../bin/gosmt selftest",
 "hooks":{"guard":"verif","enable":"harness files (//go:build verif) from /verif/harness are injected into the package under test with go/packages Overlay and -tags=verif; nothing is committed in /repo","baseline_off_cmd":"/verif/baseline.sh","source_commits":[],"add_only":True},
 "engines":[{"name":"gosmt","path":"/verif/engine","serves_properties":sorted(claimed),"kind_free_text":"symbolic executor for Go SSA (derived from x/tools go/ssa/interp) emitting QF_BV queries to z3 over a pipe; path forking with solver-checked feasibility; native replay of counterexamples and reachability witnesses"}],
 "checks":checks,
 "not_applicable":na,
 "notes":"Every check regenerates its encoding from /repo's working tree on each run. Exit 0 = all obligations discharged within the stated bounds; exit 1 + VIOLATION line = counterexample reproduced against the real code; exit 2 = inconclusive (engine limitation, solver unknown, vacuity guard)."}
json.dump(m,open('/verif/MANIFEST.json','w'),indent=1)
print("claimed:",sorted(claimed))
