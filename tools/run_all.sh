#!/bin/bash
# Runs every registered check (quick by default) on the current tree and reports the verdict lines.
tier=${1:-quick}
cd /verif
for p in $(python3 -c "import json;print(' '.join(c['property_id'] for c in json.load(open('MANIFEST.json'))['checks']))"); do
  timeout 3600 ./bin/gosmt check $p --tier $tier > /tmp/run_all_$p.log 2>&1; rc=$?
  echo "$p exit=$rc $(grep -E '^(OK|VIOLATION|INCONCLUSIVE)' /tmp/run_all_$p.log | head -2 | tr '\n' ' ')"
done
