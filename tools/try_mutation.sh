#!/bin/bash
# usage: try_mutation.sh <patch.diff> <property> [tier]  -- applies the patch to /repo, runs the check, reverts.
set -u
patch=$1; prop=$2; tier=${3:-quick}
cd /repo || exit 9
if [ -n "$(git status --porcelain --untracked-files=no)" ]; then echo "repo dirty"; exit 9; fi
git apply "$patch" || { echo "patch does not apply"; exit 9; }
cd /verif
timeout 1800 ./bin/gosmt check "$prop" --tier "$tier" > /tmp/try_mut.log 2>&1
rc=$?
git -C /repo checkout -- .
git -C /verif checkout -- evidence 2>/dev/null
grep -E "^VIOLATION|^KNOWN|^INCONCLUSIVE|^OK|harness=" /tmp/try_mut.log | head -8
echo "exit=$rc"
