#!/bin/bash
# usage: confirm_seed4.sh <PROP> <N> <name> [demo_dir]
# Confirms a sub-agent's change (layout /tmp/wt4_<PROP>/seed_N.{diff,txt}, seed_N_demo_test.go.txt) in its scratch
# worktree and stores it under /verif/seeded/<name>.
set -u
prop=$1; n=$2; name=$3; demo_dir=${4:-$(cat /tmp/wt4_$1/seed_$2.dir 2>/dev/null || echo pkg/http2)}
wt=/tmp/wt4_$prop
export GOFLAGS=-mod=mod GOPROXY=off GOSUMDB=off GOTOOLCHAIN=local
cd $wt || exit 9
git checkout -q -- . ; rm -f $demo_dir/zz_*_test.go
pkgs=$(git apply --numstat seed_$n.diff | awk '{print $3}' | xargs -n1 dirname | sort -u | sed 's|^|./|')
git apply seed_$n.diff || { echo "APPLY-FAIL"; exit 1; }
go build ./... || { echo "BUILD-FAIL"; exit 1; }
existing="pass"
go test -count=1 -vet=off $pkgs ./pkg/proxyserver/ > /tmp/confirm_existing.log 2>&1 || existing="FAIL"
if [ "$existing" = FAIL ]; then
  bad=$(grep "^--- FAIL" /tmp/confirm_existing.log | grep -v "TestInjectHeader\|TestPreserveHost\|TestAppendForwardHeader" | wc -l)
  badpkg=$(grep "^FAIL[[:space:]]" /tmp/confirm_existing.log | grep -v "pkg/reverseproxy" | wc -l)
  if [ "$bad" = 0 ] && [ "$badpkg" = 0 ]; then existing="pass (only the three httpbin.org-dependent reverseproxy tests fail, exactly as on the pinned tree; they are not in BASELINE stable_pass)"; fi
fi
cp seed_${n}_demo_test.go.txt $demo_dir/zz_seed_demo_test.go
with="pass"; go test -count=1 -vet=off -run 'Demo' ./$demo_dir/ > /tmp/confirm_with.log 2>&1 || with="FAIL"
git apply -R seed_$n.diff
without="pass"; go test -count=1 -vet=off -run 'Demo' ./$demo_dir/ > /tmp/confirm_without.log 2>&1 || without="FAIL"
rm -f $demo_dir/zz_seed_demo_test.go; git checkout -q -- .
echo "$prop/$n existing=$existing demo_with_mutation=$with demo_without=$without"
if [ "$with" = FAIL ] && [ "$without" = pass ] && [ "${existing%% *}" = pass ]; then
  mkdir -p /verif/seeded/$name
  cp seed_$n.diff /verif/seeded/$name/patch.diff
  cp seed_${n}_demo_test.go.txt /verif/seeded/$name/demo_test.go.txt
  python3 - "$prop" "seed_$n.txt" "/verif/seeded/$name/meta.json" "$existing" "$demo_dir" <<'PY'
import json,sys
m={"property":sys.argv[1],"summary":open(sys.argv[2]).read().strip(),"demo_dir":sys.argv[5],
   "confirmed":{"existing_tests_with_mutation":sys.argv[4],"demo_with_mutation":"FAIL","demo_without_mutation":"pass",
   "how":"tools/confirm_seed4.sh in the sub-agent's scratch worktree of /repo HEAD: apply, go build ./..., go test of the touched packages + pkg/proxyserver, demo with and without the patch"}}
json.dump(m,open(sys.argv[3],'w'),indent=1)
PY
  echo "  stored /verif/seeded/$name"
else
  echo "  NOT stored"; for f in /tmp/confirm_with.log /tmp/confirm_without.log /tmp/confirm_existing.log; do tail -n 5 $f; done
fi
