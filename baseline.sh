#!/bin/bash
# Runs the repository's pinned test suite (guard tag OFF) and compares with BASELINE.json's stable_pass list.
set -o pipefail
export GOFLAGS= GOPROXY=off GOSUMDB=off
out=$(mktemp)
for m in . ./e2e/memtest; do
  (cd /repo/$m && go test -mod=mod -json -vet=off -count=1 -timeout 25m ./... 2>&1) >> "$out"
done
python3 - "$out" <<'PY'
import json,sys
base=json.load(open('/root/.vp/BASELINE.json'))
want=set(base['stable_pass'])
got=set()
failed=set()
for l in open(sys.argv[1]):
    try: e=json.loads(l)
    except Exception: continue
    if e.get('Test') and e.get('Action') in('pass','fail'):
        k=e['Package']+'::'+e['Test']
        (got if e['Action']=='pass' else failed).add(k)
missing=sorted(want-got)
print(f"baseline: {len(want)} expected, {len(want&got)} passed, {len(missing)} missing/failed")
for m in missing[:20]: print("  NOT PASSING:",m)
sys.exit(1 if missing else 0)
PY
rc=$?
rm -f "$out"
exit $rc
