package main

// Cooperative goroutines ("thread mode", enabled per path by the vThreads intrinsic).
//
// Every `go` statement of the code under test becomes a modelled thread that runs on its own
// host goroutine, but only one modelled thread executes at any time: a thread runs until it
// blocks (channel operation, select, mutex, WaitGroup, Cond) or ends, then hands the baton to
// the lowest-numbered runnable thread. The schedule is therefore deterministic - ONE schedule
// per input path, the one in which every goroutine runs as far as it can before anyone else
// moves - and path re-execution with a decision prefix reproduces it exactly. Schedule
// nondeterminism is outside what this mode explores (stated with every harness that uses it).
//
//   - unbuffered channels rendezvous: a sender blocks until its value has been received
//   - a select picks the first ready case in source order
//   - a panic that escapes a thread's function ends the path as "unrecovered panic on goroutine"
//     (in Go it would end the process)
//   - when no thread can run, the path ends with the "would block" abort
//   - at the end of the path all parked threads are torn down without running target defers

import (
	"fmt"
	"go/token"
	"go/types"
	"os"
	"strings"
)

type threadKilled struct{}

type gthread struct {
	id      int
	name    string
	fv      value
	args    []value
	resume  chan bool // true = run, false = die
	ready   func() bool
	what    string
	started bool
	done    bool
}

type scheduler struct {
	threads  []*gthread
	cur      int
	fatal    interface{}
	deadlock bool
	// scheduling policy (see pick): 0 lowest-numbered first, 1 highest-numbered first, 2 round robin,
	// 3 explored: every choice among runnable goroutines is a path decision, at most `explore` of
	// them differing from policy 0 (vScheduleExplore)
	policy  int
	explore int  // deviations from lowest-numbered-first still allowed on this path (policy 3)
	preempt bool // policy 3: a goroutine may also be descheduled before a channel / lock operation that would not block
	nchoice int
	base    int // policy 3: the order choice 0 follows - 0 lowest-numbered first, 1 highest-numbered first
	acks    chan struct{}
}

var sch *scheduler

func threadsStart() {
	if sch != nil {
		return
	}
	sch = &scheduler{acks: make(chan struct{})}
	sch.threads = []*gthread{{id: 0, name: "main", resume: make(chan bool), started: true}}
}

func (s *scheduler) spawn(name string, fv value, args []value) {
	s.threads = append(s.threads, &gthread{id: len(s.threads), name: name, fv: fv, args: args, resume: make(chan bool)})
}

func (s *scheduler) me() *gthread { return s.threads[s.cur] }

func (s *scheduler) runnable(t *gthread) bool {
	if t.done {
		return false
	}
	return t.ready == nil || t.ready()
}

// pick returns the next thread to run other than except (nil: any), or nil: the lowest-numbered
// runnable one, or - under the alternative policies a harness may select with vSchedulePolicy -
// the highest-numbered one (the goroutine started last goes first) or the next one in round-robin order.
func (s *scheduler) pick(except *gthread) *gthread {
	switch s.policy {
	case 3:
		var cand []*gthread
		for _, t := range s.threads {
			if t != except && s.runnable(t) {
				cand = append(cand, t)
			}
		}
		if len(cand) == 0 {
			return nil
		}
		s.order(cand)
		if len(cand) == 1 || s.explore <= 0 {
			return cand[0]
		}
		k := s.choice(len(cand))
		if k != 0 {
			s.explore--
			s.debugChoice("block/end of "+s.me().name+" ("+s.me().what+")", cand, k)
		}
		return cand[k]
	case 1:
		for k := len(s.threads) - 1; k >= 0; k-- {
			if t := s.threads[k]; t != except && s.runnable(t) {
				return t
			}
		}
		return nil
	case 2: // round robin: the next runnable one after the thread that stops running
		n := len(s.threads)
		for d := 1; d <= n; d++ {
			if t := s.threads[(s.cur+d)%n]; t != except && s.runnable(t) {
				return t
			}
		}
		return nil
	}
	for _, t := range s.threads {
		if t != except && s.runnable(t) {
			return t
		}
	}
	return nil
}

func (s *scheduler) debugChoice(where string, cand []*gthread, k int) {
	if os.Getenv("GOSMT_THREADDEBUG") == "" {
		return
	}
	var names []string
	for _, t := range cand {
		names = append(names, fmt.Sprintf("%d:%s", t.id, t.name))
	}
	fmt.Fprintf(os.Stderr, "sched.%d: %s -> runs %s (candidates %v) at %s\n", s.nchoice-1, where, names[k], names, dbgWhere())
}

// order puts the candidates of an explored choice into the base order.
func (s *scheduler) order(cand []*gthread) {
	if s.base == 1 {
		for i, j := 0, len(cand)-1; i < j; i, j = i+1, j-1 {
			cand[i], cand[j] = cand[j], cand[i]
		}
	}
}

// anyOther reports whether some thread other than except could run (no decision is taken).
func (s *scheduler) anyOther(except *gthread) bool {
	for _, t := range s.threads {
		if t != except && s.runnable(t) {
			return true
		}
	}
	return false
}

// choice forks the path over 0..n-1 (a named input "sched.<k>", so that a counterexample's schedule
// is part of its model and a pinned replay reproduces it).
func (s *scheduler) choice(n int) int {
	xv := newInput(fmt.Sprintf("sched.%d", s.nchoice), types.Int)
	s.nchoice++
	x, isSym := xv.(sv)
	if !isSym {
		c := int(asInt64(xv))
		if c < 0 || c >= n {
			panic(pathAbort{"infeasible", false})
		}
		return c
	}
	assume(mkAnd(mkCmp(opSle, mkBV(64, 0), x.t), mkCmp(opSlt, x.t, mkBV(64, uint64(n)))))
	return int(concretizeInt(x))
}

// preemptPoint is called before a channel or lock operation: under the explored policy the running
// goroutine may be descheduled here in favour of any other runnable one (costs one deviation).
func (s *scheduler) preemptPoint(what string) {
	if s.policy != 3 || !s.preempt || s.explore <= 0 {
		return
	}
	me := s.me()
	var cand []*gthread
	for _, t := range s.threads {
		if t != me && s.runnable(t) {
			cand = append(cand, t)
		}
	}
	if len(cand) == 0 {
		return
	}
	s.order(cand)
	k := s.choice(len(cand) + 1)
	if k == 0 {
		return
	}
	s.explore--
	s.debugChoice("preempt "+me.name+" before "+what, cand, k-1)
	me.ready = func() bool { return true }
	me.what = "preempted before " + what
	s.transfer(cand[k-1])
	s.wait(me, what)
}

// transfer hands the baton to next (starting its host goroutine on first use).
func (s *scheduler) transfer(next *gthread) {
	s.cur = next.id
	curThread = next.id
	if !next.started {
		next.started = true
		go s.threadMain(next)
	}
	next.resume <- true
}

func (s *scheduler) threadMain(t *gthread) {
	if !<-t.resume {
		s.acks <- struct{}{}
		return
	}
	defer func() {
		r := recover()
		if _, killed := r.(threadKilled); killed {
			s.acks <- struct{}{}
			return
		}
		t.done = true
		if r != nil {
			if !isEnginePanic(r) {
				if tp, ok := normalizePanic(theInterp, r).(targetPanic); ok {
					r = goroutinePanic{"panic on goroutine " + t.name + ": " + panicString(tp)}
				} else {
					r = engineErr(fmt.Sprintf("host panic on modelled goroutine %s: %v", t.name, r))
				}
			}
			s.fatal = r
			s.transfer(s.threads[0])
			return
		}
		// normal end: someone else goes on
		if next := s.pick(t); next != nil {
			s.transfer(next)
			return
		}
		s.deadlock = true
		s.transfer(s.threads[0])
	}()
	call(theInterp, nil, token.NoPos, t.fv, t.args)
}

// block parks the current thread until ready() holds, letting the others run.
func (s *scheduler) block(what string, ready func() bool) {
	me := s.me()
	if ready() {
		return
	}
	me.ready = ready
	me.what = what
	next := s.pick(me)
	if next == nil {
		me.ready = nil
		if me.id == 0 {
			panic(pathAbort{what + " would block (no goroutine can run)", false})
		}
		s.deadlock = true
		next = s.threads[0]
	}
	s.transfer(next)
	s.wait(me, what)
}

// yield lets every other runnable thread go first (used by runtime.Gosched and the harness).
func (s *scheduler) yield() {
	me := s.me()
	next := s.pick(me)
	if next == nil {
		return
	}
	me.ready = func() bool { return true }
	// lowest-numbered first would pick me again if I am thread 0: make the others go by
	// parking until none of them is runnable
	me.ready = func() bool { return !s.anyOther(me) || s.fatal != nil }
	s.transfer(next)
	s.wait(me, "yield")
}

func (s *scheduler) wait(me *gthread, what string) {
	if !<-me.resume {
		panic(threadKilled{})
	}
	me.ready = nil
	if me.id == 0 {
		if s.fatal != nil {
			f := s.fatal
			s.fatal = nil
			panic(f)
		}
		if s.deadlock {
			s.deadlock = false
			panic(pathAbort{what + " would block (no goroutine can run)", false})
		}
	}
}

// threadsEnd tears down what is left at the end of a path. Called on the main host goroutine.
func threadsEnd() {
	s := sch
	if s == nil {
		return
	}
	if os.Getenv("GOSMT_THREADDEBUG") != "" {
		fmt.Fprintln(os.Stderr, "threads at path end:", threadSummary())
	}
	sch = nil
	curThread = 0
	for _, t := range s.threads[1:] {
		if t.started && !t.done {
			t.resume <- false
			<-s.acks
		}
	}
}

func threadSummary() string {
	if sch == nil {
		return ""
	}
	var b strings.Builder
	for _, t := range sch.threads {
		st := "runnable"
		switch {
		case t.done:
			st = "done"
		case !t.started:
			st = "not started"
		case t.ready != nil:
			st = "blocked"
		}
		fmt.Fprintf(&b, "%d:%s:%s(%s) ", t.id, t.name, st, t.what)
	}
	return b.String()
}
