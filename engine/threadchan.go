package main

// Channel operations in thread mode: Go's semantics with atomic rendezvous.
//
// A goroutine that cannot complete a channel operation parks a waiter on the channel(s) involved
// (one waiter per select, entered on every channel of its cases). The peer that later arrives
// completes exactly one case of that waiter - hands it the value or takes its value - and marks
// the waiter done, so a parked select can never "commit" to a case that the other side does not
// honour, and a select whose several cases are ready in source order takes the first.

import (
	"go/types"
)

type selWait struct {
	done   bool
	caseIx int
	val    value
	recvOk bool
}

type waitEntry struct {
	w      *selWait
	caseIx int
	val    value      // parked sender: the value offered
	elem   types.Type // parked receiver: the element type (close hands it the zero value)
}

// closeWake is what close(c) does to the goroutines parked on c, as in Go: every parked receiver -
// a plain receive or a select case - is completed NOW with (zero value, false); a select parked on
// several channels is thereby committed to this case, and a value sent on one of its other channels
// before the goroutine gets to run does not reach it. Parked senders panic when they run.
func (c *chanv) closeWake() {
	for _, e := range c.recvQ {
		if !e.w.done {
			e.w.done, e.w.caseIx, e.w.val, e.w.recvOk = true, e.caseIx, zero(e.elem), false
		}
	}
}

func (c *chanv) firstParked(q []*waitEntry) (int, *waitEntry) {
	for i, e := range q {
		if !e.w.done {
			return i, e
		}
	}
	return -1, nil
}

func removeEntry(q []*waitEntry, w *selWait) []*waitEntry {
	out := q[:0:0]
	for _, e := range q {
		if e.w != w {
			out = append(out, e)
		}
	}
	return out
}

// trySend completes a send without parking, if that is possible now.
func (c *chanv) trySend(v value) bool {
	if c == nil {
		return false
	}
	if c.closed {
		panic(targetPanicStr("send on closed channel"))
	}
	if _, e := c.firstParked(c.recvQ); e != nil {
		e.w.done, e.w.caseIx, e.w.val, e.w.recvOk = true, e.caseIx, v, true
		c.recvQ = removeEntry(c.recvQ, e.w)
		return true
	}
	if c.cap > 0 && len(c.buf) < c.cap {
		c.push(v)
		return true
	}
	return false
}

// tryRecv completes a receive without parking, if that is possible now.
func (c *chanv) tryRecv(elem types.Type) (value, bool, bool) {
	if c == nil {
		return nil, false, false
	}
	if len(c.buf) > 0 {
		old, oldN := c.buf, c.recvCount
		journalFn(func() { c.buf, c.recvCount = old, oldN })
		v := c.buf[0]
		c.buf = c.buf[1:]
		c.recvCount++
		// a sender parked on the full buffer moves up
		if _, e := c.firstParked(c.sendQ); e != nil {
			e.w.done, e.w.caseIx = true, e.caseIx
			c.sendQ = removeEntry(c.sendQ, e.w)
			c.push(e.val)
		}
		return v, true, true
	}
	if _, e := c.firstParked(c.sendQ); e != nil {
		e.w.done, e.w.caseIx = true, e.caseIx
		c.sendQ = removeEntry(c.sendQ, e.w)
		return e.val, true, true
	}
	if c.closed {
		return zero(elem), false, true
	}
	return nil, false, false
}

func (c *chanv) sendT(v value) {
	if c == nil {
		sch.block("send on nil channel", func() bool { return false })
		panic(pathAbort{"send on nil channel blocks forever", false})
	}
	sch.preemptPoint("channel send")
	if c.trySend(v) {
		return
	}
	w := &selWait{}
	c.sendQ = append(c.sendQ, &waitEntry{w: w, val: v})
	defer func() { c.sendQ = removeEntry(c.sendQ, w) }()
	sch.block("channel send", func() bool { return w.done || c.closed })
	if !w.done {
		panic(targetPanicStr("send on closed channel"))
	}
}

func (c *chanv) recvT(elem types.Type) (value, bool) {
	if c == nil {
		sch.block("receive from nil channel", func() bool { return false })
		panic(pathAbort{"receive from nil channel blocks forever", false})
	}
	sch.preemptPoint("channel receive")
	if v, ok, done := c.tryRecv(elem); done {
		return v, ok
	}
	w := &selWait{}
	c.recvQ = append(c.recvQ, &waitEntry{w: w, elem: elem})
	defer func() { c.recvQ = removeEntry(c.recvQ, w) }()
	sch.block("channel receive", func() bool { return w.done || c.closed })
	if w.done {
		return w.val, w.recvOk
	}
	return zero(elem), false
}

// selCase is one case of a select in thread mode.
type selCase struct {
	ch   *chanv
	send bool
	val  value
	elem types.Type
}

// selectT runs a select: the index of the case that fired (-1: default), and for a receive case
// the value and ok.
func selectT(cases []selCase, blocking bool) (chosen int, recv value, recvOk bool) {
	sch.preemptPoint("select")
	for {
		// first ready case in source order
		for i, cs := range cases {
			if cs.ch == nil {
				continue
			}
			if cs.send {
				if cs.ch.closed {
					panic(targetPanicStr("send on closed channel"))
				}
				if cs.ch.trySend(cs.val) {
					return i, nil, false
				}
			} else if v, ok, done := cs.ch.tryRecv(cs.elem); done {
				return i, v, ok
			}
		}
		if !blocking {
			return -1, nil, false
		}
		// park on every case
		w := &selWait{}
		anyChan := false
		for i, cs := range cases {
			if cs.ch == nil {
				continue
			}
			anyChan = true
			if cs.send {
				cs.ch.sendQ = append(cs.ch.sendQ, &waitEntry{w: w, caseIx: i, val: cs.val})
			} else {
				cs.ch.recvQ = append(cs.ch.recvQ, &waitEntry{w: w, caseIx: i, elem: cs.elem})
			}
		}
		if !anyChan {
			sch.block("select without channels", func() bool { return false })
			panic(pathAbort{"select on nil channels blocks forever", false})
		}
		func() {
			defer func() {
				for _, cs := range cases {
					if cs.ch != nil {
						cs.ch.sendQ = removeEntry(cs.ch.sendQ, w)
						cs.ch.recvQ = removeEntry(cs.ch.recvQ, w)
					}
				}
			}()
			sch.block("select", func() bool {
				if w.done {
					return true
				}
				for _, cs := range cases {
					if cs.ch != nil && cs.ch.closed {
						return true
					}
				}
				return false
			})
		}()
		if w.done {
			return w.caseIx, w.val, w.recvOk
		}
		// a channel was closed: evaluate again
	}
}

// offer puts v into c if a receiver is parked or there is room (timer expiry: never blocks).
func (c *chanv) offer(v value) {
	if c != nil && !c.closed {
		c.trySend(v)
	}
}
