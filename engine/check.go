package main

import (
	"encoding/json"
	"flag"
	"fmt"
	"os"
	"os/exec"
	"path/filepath"
	"regexp"
	"runtime"
	"sort"
	"strconv"
	"strings"
	"time"
)

// verifRoot is /verif; GOSMT_VERIF_ROOT points a development run at a scratch copy.
var verifRoot = func() string {
	if d := os.Getenv("GOSMT_VERIF_ROOT"); d != "" {
		return d
	}
	return "/verif"
}()

type jobSpec struct {
	Pkg         string   `json:"pkg"`
	Harness     string   `json:"harness"` // directory relative to /verif
	Quick       []string `json:"quick"`
	Thorough    []string `json:"thorough"`
	ExpectReach []string `json:"expect_reach,omitempty"`
	// abort reasons (regexp) that are part of the harness's stated model, e.g. "would block"
	TolerateAbort     []string   `json:"tolerate_abort,omitempty"`
	NoNative          bool       `json:"no_native_replay,omitempty"` // harness uses stubs of code outside the repo
	NativeDemo        []demoSpec `json:"native_demo,omitempty"`      // end-to-end demonstrations on the real stack, by assertion tag
	TimeoutMs         int        `json:"timeout_ms,omitempty"`
	MaxWorkers        int        `json:"max_workers,omitempty"`
	SkipWitnessReplay bool       `json:"skip_witness_replay,omitempty"` // harnesses shared with another check that validates them natively
	ScheduleDependent bool       `json:"schedule_dependent,omitempty"`  // thread-mode harnesses: native runs take other goroutine schedules
}

type demoSpec struct {
	Tag  string `json:"tag"`            // regexp on the assertion tag
	File string `json:"file"`           // test file relative to /verif, overlaid into the package directory
	Test string `json:"test"`           // test function
	Race bool   `json:"race,omitempty"` // run under the race detector; a reported race counts as reproduction
	Pkg  string `json:"pkg,omitempty"`  // package the demo belongs to when it is not the job's package
	// the demo forces ONE schedule on the real stack; a counterexample whose (explored) schedule it
	// does not cover stays reported on the engine's pinned re-execution instead of becoming a mismatch
	Advisory bool `json:"advisory,omitempty"`
}

type checkSpec struct {
	Title       string            `json:"title"`
	Jobs        []jobSpec         `json:"jobs"`
	Assumptions []string          `json:"assumptions"`
	Bounds      map[string]string `json:"bounds"`
	Rule        string            `json:"rule,omitempty"`
}

type knownFinding struct {
	Property string `json:"property"`
	ID       string `json:"id"`
	Status   string `json:"status"`            // "known" | "fixed"
	Harness  string `json:"harness,omitempty"` // regexp on harness function name
	Tag      string `json:"tag"`               // regexp on assertion tag
	What     string `json:"what"`
	Commit   string `json:"commit,omitempty"`
}

type cexFile struct {
	Property   string            `json:"property"`
	Pkg        string            `json:"pkg"`
	HarnessDir string            `json:"harness_dir"`
	Harness    string            `json:"harness"`
	Tag        string            `json:"tag"`
	Msg        string            `json:"msg,omitempty"`
	Model      map[string]uint64 `json:"model"`
	NoNative   bool              `json:"no_native_replay,omitempty"`
	Trace      []decision        `json:"trace,omitempty"`
}

func loadJSON(path string, v interface{}) error {
	b, err := os.ReadFile(path)
	if err != nil {
		return err
	}
	return json.Unmarshal(b, v)
}

func cmdCheck(args []string) int {
	fs := flag.NewFlagSet("check", flag.ExitOnError)
	tier := fs.String("tier", "", "quick | thorough")
	workers := fs.Int("workers", 0, "worker processes (default: all cores)")
	budget := fs.Int("budget-s", 0, "wall budget per harness in seconds (0: tier default)")
	only := fs.String("only", "", "restrict to harness functions matching this regexp")
	if len(args) < 1 {
		fmt.Fprintln(os.Stderr, "usage: gosmt check <property> [--tier quick|thorough]")
		return 2
	}
	id := args[0]
	fs.Parse(args[1:])
	if *tier == "" {
		*tier = os.Getenv("VERIF_TIER")
	}
	if *tier == "" {
		*tier = "quick"
	}
	seed, _ := strconv.Atoi(os.Getenv("VERIF_SEED"))
	if *tier == "thorough" && os.Getenv("GOSMT_CROSSCHECK") == "" {
		// thorough: every solver-decided obligation is also asked of z3 4.8.12; verdicts must agree
		os.Setenv("GOSMT_CROSSCHECK", "z3")
	}
	if *workers <= 0 {
		*workers = runtime.NumCPU()
	}
	var reg map[string]checkSpec
	if err := loadJSON(filepath.Join(verifRoot, "checks.json"), &reg); err != nil {
		fmt.Fprintln(os.Stderr, "cannot read checks.json:", err)
		return 2
	}
	spec, ok := reg[id]
	if !ok {
		fmt.Fprintln(os.Stderr, "unknown property", id)
		return 2
	}
	var known []knownFinding
	loadJSON(filepath.Join(verifRoot, "known_findings.json"), &known)

	defer closeNativeSessions()
	start := time.Now()
	outDir := filepath.Join(verifRoot, "out", id)
	os.RemoveAll(outDir)
	os.MkdirAll(outDir, 0o755)
	os.MkdirAll(filepath.Join(verifRoot, "evidence"), 0o755)

	var results []*harnessResult
	var problems []string
	notes := &checkNotes
	*notes = nil
	var violLines, knownLines []string
	validated := 0
	var samples []interface{}
	var onlyRe *regexp.Regexp
	if *only != "" {
		onlyRe = regexp.MustCompile(*only)
	}

	for _, job := range spec.Jobs {
		funcs := job.Quick
		if *tier == "thorough" && len(job.Thorough) > 0 {
			funcs = job.Thorough
		}
		tmo := job.TimeoutMs
		if tmo == 0 {
			tmo = 60000
			if *tier == "thorough" {
				tmo = 300000
			}
		}
		hdir := filepath.Join(verifRoot, job.Harness)
		cfg := runConfig{Pkg: job.Pkg, HarnessDir: hdir, TimeoutMs: tmo, Seed: seed, Solver: primarySolver()}
		if *budget == 0 {
			// default wall budget per harness: exploration that does not finish is reported as
			// inconclusive (reduced bound), never as success; violations found so far still count
			*budget = 240
			if *tier == "thorough" {
				*budget = 2400
			}
		}
		b := time.Duration(*budget) * time.Second
		nw := *workers
		if job.MaxWorkers > 0 && job.MaxWorkers < nw {
			nw = job.MaxWorkers
		}
		pool := newPool(cfg, nw)
		defer pool.close()
		jobReach := map[string]bool{}
		ranAll := true
		for _, fn := range funcs {
			if onlyRe != nil && !onlyRe.MatchString(fn) {
				ranAll = false
				continue
			}
			res, err := pool.explore(fn, b)
			if err != nil {
				problems = append(problems, fmt.Sprintf("%s: %v", fn, err))
				continue
			}
			res.ExpectReach = job.ExpectReach
			results = append(results, res)
			// --- inconclusive conditions
			if len(res.EngineErrors) > 0 {
				problems = append(problems, fmt.Sprintf("%s: engine errors: %s", fn, firstLine(res.EngineErrors[0])))
			}
			if res.Truncated {
				problems = append(problems, fmt.Sprintf("%s: exploration truncated by budget", fn))
			}
			if res.Unknowns > 0 {
				for tag, o := range res.Obligations {
					if o.Unknown > 0 {
						problems = append(problems, fmt.Sprintf("%s: %d obligations %q came back unknown/timeout", fn, o.Unknown, tag))
					}
				}
			}
			for reason, n := range res.PathsAborted {
				if reason == "infeasible" || reason == "after violated assertion" {
					continue
				}
				tolerated := false
				for _, pat := range job.TolerateAbort {
					if ok, _ := regexp.MatchString(pat, reason); ok {
						tolerated = true
					}
				}
				if !tolerated {
					problems = append(problems, fmt.Sprintf("%s: %d paths ended outside the model: %s", fn, n, reason))
				}
			}
			for tag := range res.Reach {
				jobReach[tag] = true
			}
			nOblig := 0
			for _, o := range res.Obligations {
				nOblig += o.Reached
			}
			if nOblig == 0 {
				problems = append(problems, fmt.Sprintf("%s: no assertion site was reached (vacuity guard)", fn))
			}
			// --- translator validation: replay reachability witnesses natively
			if !job.NoNative && !job.SkipWitnessReplay {
				// thread-mode jobs: natively the goroutines are real and take whatever schedule the
				// runtime gives them, so a witness of the engine's deterministic schedule need not be one
				// natively; it counts as validated only when it is, and is no mismatch when it is not
				lenient := job.ScheduleDependent
				maxW := 2
				if *tier == "thorough" {
					maxW = 6
				}
				nW := 0
				for _, tag := range sortedKeys(res.Reach) {
					if nW >= maxW {
						break
					}
					nW++
					cf := cexFile{Property: id, Pkg: job.Pkg, HarnessDir: hdir, Harness: fn, Tag: "reach:" + tag, Model: res.Reach[tag]}
					rr := nativeReplay(cf)
					if rr.err != "" {
						problems = append(problems, fmt.Sprintf("%s: native replay of witness %q failed to run: %s", fn, tag, rr.err))
						continue
					}
					if (!rr.reached[tag] || rr.diverged) && lenient {
						continue
					}
					if !rr.reached[tag] || rr.diverged {
						problems = append(problems, fmt.Sprintf("ENGINE-MISMATCH %s: witness %q does not reach the tag natively (diverged=%v)", fn, tag, rr.diverged))
						continue
					}
					bad := false
					for vt := range rr.violated {
						if o := res.Obligations[vt]; o == nil || o.Violated == 0 {
							if lenient {
								// real goroutines, another schedule: only a violation that shows on every one of three
								// native runs is a mismatch to look into; an intermittent one is noted
								again := 0
								for k := 0; k < 2; k++ {
									if r2 := nativeReplay(cf); r2.violated[vt] {
										again++
									}
								}
								if again < 2 {
									*notes = append(*notes, fmt.Sprintf("%s: native run of witness %q violated %q in %d of 3 runs (schedule-dependent; the engine's schedules do not show it)", fn, tag, vt, again+1))
									fmt.Printf("  NOTE %s\n", (*notes)[len(*notes)-1])
									bad = true
									continue
								}
							}
							problems = append(problems, fmt.Sprintf("ENGINE-MISMATCH %s: native run of witness %q violates %q, engine found no such violation", fn, tag, vt))
							bad = true
						}
					}
					if !bad {
						validated++
					}
				}
			}
			for _, tag := range sortedKeys(res.Reach) {
				if len(samples) < 12 {
					samples = append(samples, map[string]interface{}{"harness": fn, "witness_for": tag, "inputs": trimModel(res.Reach[tag])})
				}
			}
			// --- violations: replay, classify
			for _, v := range res.Violations {
				cf := cexFile{Property: id, Pkg: job.Pkg, HarnessDir: hdir, Harness: fn, Tag: v.Tag, Msg: v.Msg, Model: v.Model, NoNative: job.NoNative, Trace: v.Trace}
				path := filepath.Join(outDir, sanitize(fn+"."+v.Tag)+".cex.json")
				b, _ := json.MarshalIndent(cf, "", " ")
				os.WriteFile(path, b, 0o644)
				reproduced := false
				how := ""
				if job.NoNative {
					ok, msg := engineReplay(cf)
					reproduced, how = ok, "engine-concrete: "+msg
					if ok {
						for _, d := range job.NativeDemo {
							if m, _ := regexp.MatchString("^(?:"+d.Tag+")$", v.Tag); !m {
								continue
							}
							demoPkg := job.Pkg
							if d.Pkg != "" {
								demoPkg = d.Pkg
							}
							rr := nativeDemo(demoPkg, d, cf)
							switch {
							case rr.violated[v.Tag]:
								how += "; native end-to-end demo on the real stack reproduces it"
								fmt.Printf("  native demo %s: reproduced on the real stack\n", d.Test)
							case rr.err != "":
								how += "; native demo not applicable: " + rr.err
							case d.Advisory:
								how += "; the native demo (one forced schedule on the real stack) does not show it: reported on the engine's pinned schedule"
							default:
								reproduced = false
								how += "; native end-to-end demo does NOT show the failure"
							}
							break
						}
					}
				} else {
					rr := nativeReplay(cf)
					if rr.err != "" {
						problems = append(problems, fmt.Sprintf("%s: native replay failed to run: %s", fn, rr.err))
						continue
					}
					reproduced = rr.violated[v.Tag] || (v.Tag == "no-panic" && rr.panicked)
					how = "native"
					if !reproduced && job.ScheduleDependent {
						// the native run took another goroutine schedule: fall back to re-executing the real
						// code's SSA with the inputs pinned, under the engine's deterministic schedule
						ok, msg := engineReplay(cf)
						reproduced, how = ok, "native run (real goroutines, other schedule) does not show it; engine-concrete: "+msg
					}
				}
				if !reproduced {
					problems = append(problems, fmt.Sprintf("ENGINE-MISMATCH %s: counterexample for %q does not reproduce (%s) replay=%s", fn, v.Tag, how, path))
					continue
				}
				if kf := matchKnown(known, id, fn, v.Tag); kf != nil {
					knownLines = append(knownLines, fmt.Sprintf("KNOWN-FINDING: property=%s %s [%s] (%s %s)", id, kf.What, kf.ID, fn, v.Tag))
				} else {
					violLines = append(violLines, fmt.Sprintf("VIOLATION property=%s replay=%s", id, path))
					fmt.Printf("  harness=%s tag=%s %s inputs=%s\n", fn, v.Tag, v.Msg, compactModel(v.Model))
				}
				samples = append(samples, map[string]interface{}{"harness": fn, "counterexample_for": v.Tag, "inputs": trimModel(v.Model)})
			}
		}
		if ranAll {
			for _, tag := range job.ExpectReach {
				if !jobReach[tag] {
					problems = append(problems, fmt.Sprintf("%s: reachability witness %q not reached by any harness of the job (vacuity guard)", job.Harness, tag))
				}
			}
		}
		pool.close()
	}

	// ---- evidence
	ev := buildEvidence(id, *tier, seed, spec, results, validated, samples, problems, len(violLines), knownLines, time.Since(start))
	b, _ := json.MarshalIndent(ev, "", " ")
	os.WriteFile(filepath.Join(verifRoot, "evidence", id+".json"), b, 0o644)

	for _, l := range knownLines {
		fmt.Println(l)
	}
	for _, l := range violLines {
		fmt.Println(l)
	}
	summary(id, results, problems)
	if len(violLines) > 0 {
		return 1
	}
	if len(problems) > 0 {
		for _, p := range problems {
			fmt.Printf("INCONCLUSIVE property=%s %s\n", id, p)
		}
		return 2
	}
	fmt.Printf("OK property=%s tier=%s harnesses=%d wall=%.1fs\n", id, *tier, len(results), time.Since(start).Seconds())
	return 0
}

func summary(id string, results []*harnessResult, problems []string) {
	for _, r := range results {
		disc, triv, viol := 0, 0, 0
		for _, o := range r.Obligations {
			disc += o.Discharged
			triv += o.Trivial
			viol += o.Violated
		}
		fmt.Printf("  %s: paths=%d obligations discharged=%d folded=%d violated=%d queries=%d solver=%.1fs wall=%.1fs\n",
			r.Harness, r.Paths, disc, triv, viol, r.Queries, r.SolverTimeS, r.WallS)
	}
}

func sanitize(s string) string {
	return regexp.MustCompile(`[^A-Za-z0-9_.-]+`).ReplaceAllString(s, "_")
}

func trimModel(m map[string]uint64) map[string]uint64 {
	out := map[string]uint64{}
	for k, v := range m {
		if strings.HasPrefix(k, "md5#") || strings.HasPrefix(k, "sha256#") {
			continue
		}
		out[k] = v
	}
	return out
}

func compactModel(m map[string]uint64) string {
	ks := sortedKeys(trimModel(m))
	var sb strings.Builder
	for i, k := range ks {
		if i >= 40 {
			sb.WriteString(" ...")
			break
		}
		fmt.Fprintf(&sb, " %s=%d", k, m[k])
	}
	return strings.TrimSpace(sb.String())
}

func matchKnown(known []knownFinding, id, harness, tag string) *knownFinding {
	for i := range known {
		k := &known[i]
		if k.Property != id || k.Status != "known" {
			continue
		}
		if k.Harness != "" {
			if ok, _ := regexp.MatchString("^(?:"+k.Harness+")$", harness); !ok {
				continue
			}
		}
		if ok, _ := regexp.MatchString("^(?:"+k.Tag+")$", tag); ok {
			return k
		}
	}
	return nil
}

// checkNotes: observations of native (real-goroutine) witness runs that the engine's schedules do not show
var checkNotes []string

func buildEvidence(id, tier string, seed int, spec checkSpec, results []*harnessResult, validated int, samples []interface{},
	problems []string, nViol int, knownLines []string, wall time.Duration) map[string]interface{} {
	states, transitions, queries := 0, int64(0), 0
	solverS := 0.0
	oblig, discharged, folded, violated := 0, 0, 0, 0
	distinct := 0
	funcs := map[string]bool{}
	natives := map[string]bool{}
	stubs := map[string]bool{}
	perHarness := []interface{}{}
	crossTotal := 0
	for _, r := range results {
		crossTotal += r.CrossChecks
		states += r.Paths
		transitions += r.Steps
		queries += r.Queries
		solverS += r.SolverTimeS
		ob := map[string]interface{}{}
		for tag, o := range r.Obligations {
			oblig += o.Reached
			discharged += o.Discharged
			folded += o.Trivial
			violated += o.Violated
			if o.Reached > 0 {
				distinct++
			}
			ob[tag] = o
		}
		for f := range r.Funcs {
			funcs[f] = true
		}
		for f := range r.Natives {
			natives[f] = true
		}
		for _, s := range r.Stubs {
			stubs[s] = true
		}
		perHarness = append(perHarness, map[string]interface{}{
			"harness": r.Harness, "paths": r.Paths, "paths_completed": r.PathsOK, "paths_aborted": r.PathsAborted,
			"paths_panicked": r.PathsPanicked, "obligations": ob, "solver_queries": r.Queries, "solver_time_s": r.SolverTimeS,
			"wall_s": r.WallS, "reach_witnesses": sortedKeys(r.Reach), "reach_counts": r.ReachCount,
			"max_decisions_on_a_path": r.MaxDecisions,
		})
	}
	if len(samples) == 0 {
		samples = append(samples, "no witness produced")
	}
	z3v, _ := exec.Command(primarySolver(), "--version").Output()
	cov := map[string]interface{}{
		"states":                        states,
		"transitions":                   transitions,
		"traces_validated_against_impl": validated,
		"samples":                       samples,
		"evaluations":                   queries,
		"distinct_nontrivial":           distinct,
		"rule": "states = feasible paths of the harness functions explored by symbolic execution of the SSA of /repo's current tree; " +
			"transitions = SSA instructions interpreted; evaluations = SMT queries sent to z3; distinct_nontrivial = distinct assertion sites (harness, tag) reached on at least one " +
			"feasible path with symbolic inputs (each is discharged either by an unsat answer of the solver or, when the two sides are " +
			"syntactically the same hash-consed term, by the term store: see discharged_by_solver / discharged_by_folding); traces_validated_against_impl = reachability " +
			"witness models replayed against the natively compiled package with identical outcome",
		"obligations":               oblig,
		"discharged_by_solver":      discharged,
		"discharged_by_folding":     folded,
		"violated":                  violated,
		"functions_encoded":         sortedSet(funcs),
		"native_models":             sortedSet(natives),
		"stubs":                     sortedSet(stubs),
		"bounds":                    spec.Bounds,
		"solver_time_s":             solverS,
		"solver_versions":           []string{strings.TrimSpace(string(z3v))},
		"per_harness":               perHarness,
		"cross_checked_obligations": crossTotal,
		"cross_check_solver":        os.Getenv("GOSMT_CROSSCHECK"),
		"known_findings_seen":       knownLines,
		"native_schedule_notes":     checkNotes,
		"inconclusive":              problems,
		"exhaustive_within_bound":   len(problems) == 0,
		"explanation": "bounded symbolic execution: every feasible path of each harness (inputs symbolic within the stated bounds) is " +
			"enumerated by solver-checked branching; each assertion is discharged by an unsat answer for its negation under the path condition",
	}
	return map[string]interface{}{
		"property_id": id,
		"tier":        tier,
		"seed":        seed,
		"level":       "model_checking",
		"coverage":    cov,
		"assumptions": spec.Assumptions,
		"wall_s":      wall.Seconds(),
		"violations":  nViol,
	}
}

func sortedSet(m map[string]bool) []string {
	out := make([]string, 0, len(m))
	for k := range m {
		out = append(out, k)
	}
	sort.Strings(out)
	return out
}

// ---------------------------------------------------------------- native replay

type replayResult struct {
	violated map[string]bool
	reached  map[string]bool
	panicked bool
	diverged bool
	output   string
	err      string
}

const nativeRuntime = `//go:build verif

package %s

import (
	"crypto/md5"
	"crypto/sha256"
	"encoding/json"
	"fmt"
	"os"
	"runtime"
	"time"
)

var vModel map[string]uint64

type vStop struct{}

func vGet(name string) uint64 {
	if vModel == nil {
		vModel = map[string]uint64{}
		b, err := os.ReadFile(os.Getenv("GOSMT_MODEL"))
		if err == nil {
			json.Unmarshal(b, &vModel)
		}
	}
	return vModel[name]
}
func vDiverge(why string) { fmt.Println("REPLAY-DIVERGED " + why); panic(vStop{}) }
func vBool(name string) bool   { return vGet(name) != 0 }
func vU8(name string) uint8     { return uint8(vGet(name)) }
func vU16(name string) uint16   { return uint16(vGet(name)) }
func vU32(name string) uint32   { return uint32(vGet(name)) }
func vU64(name string) uint64   { return vGet(name) }
func vUint(name string) uint    { return uint(vGet(name)) }
func vI8(name string) int8      { return int8(vGet(name)) }
func vI16(name string) int16    { return int16(vGet(name)) }
func vI32(name string) int32    { return int32(vGet(name)) }
func vI64(name string) int64    { return int64(vGet(name)) }
func vInt(name string) int      { return int(vGet(name)) }
func vRange(name string, lo, hi int) int {
	if lo == hi {
		return lo
	}
	v := int(int64(vGet(name)))
	if v < lo || v > hi {
		vDiverge("range " + name)
	}
	return v
}
func vConcrete(x int) int { return x }
func vBytes(name string, n int) []byte {
	b := make([]byte, n)
	for i := range b {
		b[i] = uint8(vGet(fmt.Sprintf("%%s[%%d]", name, i)))
	}
	return b
}
func vString(name string, n int) string { return string(vBytes(name, n)) }
func vName(base string, idx ...int) string {
	for _, i := range idx {
		base += fmt.Sprintf("[%%d]", i)
	}
	return base
}
func vAssume(c bool) {
	if !c {
		vDiverge("assume")
	}
}
func vAssert(c bool, tag string) {
	if !c {
		fmt.Println("REPLAY-VIOLATION tag=" + tag)
	}
}
func vFail(tag string)  { fmt.Println("REPLAY-VIOLATION tag=" + tag); panic(vStop{}) }
func vReach(tag string) {
	fmt.Println("REPLAY-REACH tag=" + tag)
	if tag != "" && os.Getenv("GOSMT_STOP_AT") == tag {
		// a reachability witness fixes the inputs up to this point only: stop here
		panic(vStop{})
	}
}
func vAnd(a, b bool) bool     { return a && b }
func vOr(a, b bool) bool      { return a || b }
func vNot(a bool) bool        { return !a }
func vImplies(a, b bool) bool { return !a || b }
func vIteInt(c bool, a, b int) int          { if c { return a }; return b }
func vIteU8(c bool, a, b uint8) uint8       { if c { return a }; return b }
func vIteU16(c bool, a, b uint16) uint16    { if c { return a }; return b }
func vIteU32(c bool, a, b uint32) uint32    { if c { return a }; return b }
func vIteU64(c bool, a, b uint64) uint64    { if c { return a }; return b }
func vIteI64(c bool, a, b int64) int64      { if c { return a }; return b }
func vIteI32(c bool, a, b int32) int32      { if c { return a }; return b }
func vGoCount(sub string) int    { return 0 } // natively goroutines really run: harnesses count them through their own stubs
func vRunSpawned(sub string) int { fmt.Println("REPLAY-UNSUPPORTED vRunSpawned"); panic(vStop{}) }
var vLastPanic string
func vCatch(f func()) (panicked bool) {
	defer func() {
		if r := recover(); r != nil {
			if _, ok := r.(vStop); ok {
				panic(r)
			}
			vLastPanic = fmt.Sprint(r)
			fmt.Println("REPLAY-CAUGHT-PANIC", vLastPanic)
			panicked = true
		}
	}()
	f()
	return false
}
func vPanicMsg() string { return vLastPanic }
func vSameSlice(a, b []byte) bool {
	if len(a) != len(b) || cap(a) != cap(b) {
		return false
	}
	if cap(a) == 0 {
		return (a == nil) == (b == nil)
	}
	return &a[:1][0] == &b[:1][0]
}
func vEventCount(sub string) int { fmt.Println("REPLAY-UNSUPPORTED vEventCount"); panic(vStop{}) }
func vPrint(x any)               { fmt.Println("vPrint:", x) }
func vSchedule()                 {}
// Thread mode natively: the goroutines are real. "Until everyone is blocked" becomes a pause,
// "a timer expires" becomes 2.2 s of real time (enough for the server's fixed 1 s and 2 s timers;
// harnesses that configure their own durations are replayed in the engine only), and the
// goroutines of the connection are counted against the number running when the harness began.
var vBaseGoroutines int
func vThreads()                  { vBaseGoroutines = runtime.NumGoroutine() }
func vSchedulePolicy(k int)      { vThreads() }
func vScheduleExplore(k int, preempt bool) { vThreads() }
func vScheduleBase(b int)        {}
func vYield()                    { time.Sleep(60 * time.Millisecond) }
func vLiveThreads() int {
	for i := 0; i < 100 && runtime.NumGoroutine() > vBaseGoroutines; i++ {
		time.Sleep(10 * time.Millisecond)
	}
	if n := runtime.NumGoroutine() - vBaseGoroutines; n > 0 {
		return n
	}
	return 0
}
func vTimerCount() int           { return 1 }
func vTimerArmed(k int) bool     { return true }
func vTimerFire(k int)           { time.Sleep(2200 * time.Millisecond) }
func vTimerNanos(k int) int64    { fmt.Println("REPLAY-UNSUPPORTED vTimerNanos"); panic(vStop{}) }
func vWatchFields(ptr any)       {}
func vSetAccessHook(f func())    { fmt.Println("REPLAY-UNSUPPORTED interleaving hook"); panic(vStop{}) }
func vClearAccessHook()          {}
func vWatchedReads() int         { return 0 }
func vHash(kind string, data []byte, n int) []byte {
	switch kind {
	case "sha256":
		h := sha256.Sum256(data)
		return h[:n]
	case "md5":
		h := md5.Sum(data)
		return h[:n]
	}
	panic("vHash: unknown kind " + kind)
}
func vCtxTimeout(ctx interface{ Done() <-chan struct{} }) (int64, bool) { fmt.Println("REPLAY-UNSUPPORTED vCtxTimeout"); panic(vStop{}) }
`

const nativeTest = `//go:build verif

package %s

import (
	"fmt"
	"os"
	"testing"
)

var vHarnesses = map[string]func(){
%s}

func TestVerifReplay(t *testing.T) {
	defer func() {
		if r := recover(); r != nil {
			if _, ok := r.(vStop); ok {
				return
			}
			fmt.Println("REPLAY-PANIC", r)
		}
	}()
	f := vHarnesses[os.Getenv("GOSMT_FUNC")]
	if f == nil {
		fmt.Println("REPLAY-UNSUPPORTED no such harness")
		return
	}
	f()
	fmt.Println("REPLAY-END")
}
`

// nativeSession is a compiled test binary of the package under test with the harness files,
// the native intrinsics runtime and a dispatcher test; one per (package, harness dir).
type nativeSession struct {
	tmp string
	bin string
	err string
}

var nativeSessions = map[string]*nativeSession{}

func closeNativeSessions() {
	for _, s := range nativeSessions {
		os.RemoveAll(s.tmp)
	}
	nativeSessions = map[string]*nativeSession{}
}

func getNativeSession(pkg, harnessDir string) *nativeSession {
	key := pkg + "|" + harnessDir
	if s, ok := nativeSessions[key]; ok {
		return s
	}
	s := &nativeSession{}
	nativeSessions[key] = s
	repo := repoDir()
	tmp, err := os.MkdirTemp("", "gosmt-replay-")
	if err != nil {
		s.err = err.Error()
		return s
	}
	s.tmp = tmp
	for _, f := range []string{"go.mod", "go.sum"} {
		b, _ := os.ReadFile(filepath.Join(repo, f))
		os.WriteFile(filepath.Join(tmp, map[string]string{"go.mod": "x.mod", "go.sum": "x.sum"}[f]), b, 0o644)
	}
	pkgDir := filepath.Join(repo, pkg)
	files, _ := filepath.Glob(filepath.Join(harnessDir, "*.go"))
	repl := map[string]string{}
	pkgName := ""
	var table strings.Builder
	fre := regexp.MustCompile(`(?m)^func (Verif\w+)\(\)`)
	for _, f := range files {
		b, _ := os.ReadFile(f)
		if m := regexp.MustCompile(`(?m)^package\s+(\w+)`).FindSubmatch(b); m != nil {
			pkgName = string(m[1])
		}
		for _, m := range fre.FindAllSubmatch(b, -1) {
			fmt.Fprintf(&table, "\t%q: %s,\n", string(m[1]), string(m[1]))
		}
		repl[filepath.Join(pkgDir, "zz_verif_"+filepath.Base(f))] = f
	}
	// the package's own tests are not needed in the replay binary: overlay them with empty files
	// (keeps the build to the package itself plus the harness)
	if own, _ := filepath.Glob(filepath.Join(pkgDir, "*_test.go")); len(own) > 0 {
		pre := regexp.MustCompile(`(?m)^package\s+(\w+)`)
		for k, tf := range own {
			b, err := os.ReadFile(tf)
			if err != nil {
				continue
			}
			m := pre.FindSubmatch(b)
			if m == nil {
				continue
			}
			empty := filepath.Join(tmp, fmt.Sprintf("empty_%d_test.go", k))
			os.WriteFile(empty, []byte("package "+string(m[1])+"\n"), 0o644)
			repl[tf] = empty
		}
	}
	dirs, derr := harnessStubDirectives(files)
	if derr != nil {
		s.err = derr.Error()
		return s
	}
	srepl, fwdFile, serr := buildStubOverlay(pkgDir, pkgName, tmp, dirs)
	if serr != nil {
		s.err = serr.Error()
		return s
	}
	for k, v := range srepl {
		repl[k] = v
	}
	if fwdFile != "" {
		repl[filepath.Join(pkgDir, "zz_verif_forwarders.go")] = fwdFile
	}
	rt := filepath.Join(tmp, "rt.go")
	os.WriteFile(rt, []byte(fmt.Sprintf(nativeRuntime, pkgName)), 0o644)
	repl[filepath.Join(pkgDir, "zz_verif_intrinsics.go")] = rt
	tf := filepath.Join(tmp, "replay_test.go")
	os.WriteFile(tf, []byte(fmt.Sprintf(nativeTest, pkgName, table.String())), 0o644)
	repl[filepath.Join(pkgDir, "zz_verif_replay_test.go")] = tf
	ov, _ := json.Marshal(map[string]interface{}{"Replace": repl})
	ovf := filepath.Join(tmp, "overlay.json")
	os.WriteFile(ovf, ov, 0o644)
	s.bin = filepath.Join(tmp, "replay.test")
	cmd := exec.Command("go", "test", "-c", "-o", s.bin, "-tags=verif", "-overlay="+ovf, "-modfile="+filepath.Join(tmp, "x.mod"), "-vet=off", pkg)
	cmd.Dir = repo
	cmd.Env = append(os.Environ(), "GOFLAGS=-mod=mod", "GOPROXY=off", "GOSUMDB=off", "GOTOOLCHAIN=local")
	out, err := cmd.CombinedOutput()
	if err != nil {
		s.err = "native build failed: " + lastLines(string(out), 15)
	}
	return s
}

func nativeReplay(cf cexFile) replayResult {
	rr := replayResult{violated: map[string]bool{}, reached: map[string]bool{}}
	s := getNativeSession(cf.Pkg, cf.HarnessDir)
	if s.err != "" {
		rr.err = s.err
		return rr
	}
	mf, err := os.CreateTemp(s.tmp, "model-*.json")
	if err != nil {
		rr.err = err.Error()
		return rr
	}
	mb, _ := json.Marshal(cf.Model)
	mf.Write(mb)
	mf.Close()
	defer os.Remove(mf.Name())
	cmd := exec.Command(s.bin, "-test.run", "^TestVerifReplay$", "-test.v", "-test.timeout", "120s")
	cmd.Dir = filepath.Join(repoDir(), cf.Pkg)
	cmd.Env = append(os.Environ(), "GOSMT_MODEL="+mf.Name(), "GOSMT_FUNC="+cf.Harness)
	if strings.HasPrefix(cf.Tag, "reach:") {
		cmd.Env = append(cmd.Env, "GOSMT_STOP_AT="+strings.TrimPrefix(cf.Tag, "reach:"))
	}
	out, _ := cmd.CombinedOutput()
	rr.output = string(out)
	if !strings.Contains(rr.output, "REPLAY-") {
		rr.err = "no replay output: " + lastLines(rr.output, 12)
		return rr
	}
	for _, l := range strings.Split(rr.output, "\n") {
		l = strings.TrimSpace(l)
		switch {
		case strings.HasPrefix(l, "REPLAY-VIOLATION tag="):
			rr.violated[strings.TrimPrefix(l, "REPLAY-VIOLATION tag=")] = true
		case strings.HasPrefix(l, "REPLAY-REACH tag="):
			rr.reached[strings.TrimPrefix(l, "REPLAY-REACH tag=")] = true
		case strings.HasPrefix(l, "REPLAY-PANIC"):
			rr.panicked = true
		case strings.HasPrefix(l, "REPLAY-DIVERGED"):
			rr.diverged = true
		case strings.HasPrefix(l, "REPLAY-UNSUPPORTED"):
			rr.err = l
		}
	}
	return rr
}

// nativeDemo runs a hand-written end-to-end test against the real package with the model.
func nativeDemo(pkg string, d demoSpec, cf cexFile) replayResult {
	rr := replayResult{violated: map[string]bool{}, reached: map[string]bool{}}
	repo := repoDir()
	tmp, err := os.MkdirTemp("", "gosmt-demo-")
	if err != nil {
		rr.err = err.Error()
		return rr
	}
	defer os.RemoveAll(tmp)
	for _, f := range []string{"go.mod", "go.sum"} {
		b, _ := os.ReadFile(filepath.Join(repo, f))
		os.WriteFile(filepath.Join(tmp, map[string]string{"go.mod": "x.mod", "go.sum": "x.sum"}[f]), b, 0o644)
	}
	repl := map[string]string{filepath.Join(repo, pkg, "zz_verif_demo_test.go"): filepath.Join(verifRoot, d.File)}
	ov, _ := json.Marshal(map[string]interface{}{"Replace": repl})
	ovf := filepath.Join(tmp, "overlay.json")
	os.WriteFile(ovf, ov, 0o644)
	mf := filepath.Join(tmp, "model.json")
	mb, _ := json.Marshal(cf.Model)
	os.WriteFile(mf, mb, 0o644)
	argv := []string{"test", "-tags=verif", "-overlay=" + ovf, "-modfile=" + filepath.Join(tmp, "x.mod"),
		"-run", "^" + d.Test + "$", "-count=1", "-v", "-vet=off", "-timeout", "180s"}
	if d.Race {
		argv = append(argv, "-race")
	}
	cmd := exec.Command("go", append(argv, pkg)...)
	cmd.Dir = repo
	cmd.Env = append(os.Environ(), "GOFLAGS=-mod=mod", "GOPROXY=off", "GOSUMDB=off", "GOTOOLCHAIN=local", "GOSMT_MODEL="+mf)
	out, _ := cmd.CombinedOutput()
	rr.output = string(out)
	if d.Race && strings.Contains(rr.output, "WARNING: DATA RACE") {
		rr.violated[cf.Tag] = true
		return rr
	}
	if !strings.Contains(rr.output, "REPLAY-") {
		rr.err = "no demo output: " + lastLines(rr.output, 8)
		return rr
	}
	for _, l := range strings.Split(rr.output, "\n") {
		l = strings.TrimSpace(l)
		switch {
		case strings.HasPrefix(l, "REPLAY-VIOLATION tag="):
			rr.violated[strings.TrimPrefix(l, "REPLAY-VIOLATION tag=")] = true
		case strings.HasPrefix(l, "REPLAY-UNSUPPORTED"):
			rr.err = l
		}
	}
	return rr
}

func lastLines(s string, n int) string {
	ls := strings.Split(strings.TrimSpace(s), "\n")
	if len(ls) > n {
		ls = ls[len(ls)-n:]
	}
	return strings.Join(ls, " | ")
}

// engineReplay re-executes the harness inside the engine with every input pinned to the
// model's value (used where native replay is impossible because code outside the repo is stubbed).
func engineReplay(cf cexFile) (bool, string) {
	self, _ := os.Executable()
	mf, err := os.CreateTemp("", "gosmt-model-*.json")
	if err != nil {
		return false, err.Error()
	}
	defer os.Remove(mf.Name())
	b, _ := json.Marshal(cf)
	mf.Write(b)
	mf.Close()
	out, err := exec.Command(self, "pinned", mf.Name()).CombinedOutput()
	s := string(out)
	if strings.Contains(s, "PINNED-VIOLATION tag="+cf.Tag) {
		return true, "assertion fails under the pinned inputs"
	}
	return false, lastLines(s, 5)
}

// cmdPinned runs one harness with inputs pinned to a model (concrete execution inside the engine).
func cmdPinned(args []string) int {
	var cf cexFile
	if err := loadJSON(args[0], &cf); err != nil {
		fmt.Println("cannot read", args[0], err)
		return 2
	}
	pinnedModel = cf.Model
	lh, err := loadHarness(cf.Pkg, cf.HarnessDir)
	if lh != nil {
		defer os.RemoveAll(lh.scratch)
	}
	if err != nil {
		fmt.Println(err)
		return 2
	}
	i := newInterpreter(lh)
	solver = NewSolver(primarySolver(), 60000, 0)
	defer solver.Close()
	i.ensureInit(lh.pkg)
	fn := lh.pkg.Func(cf.Harness)
	res := exploreHarness(i, cf.Harness, fn, 0)
	for _, v := range res.Violations {
		fmt.Println("PINNED-VIOLATION tag=" + v.Tag)
	}
	fmt.Printf("PINNED-END paths=%d\n", res.Paths)
	return 0
}

var pinnedModel map[string]uint64

func cmdReplay(args []string) int {
	if len(args) < 1 {
		fmt.Fprintln(os.Stderr, "usage: gosmt replay <cex.json>")
		return 2
	}
	var cf cexFile
	if err := loadJSON(args[0], &cf); err != nil {
		fmt.Fprintln(os.Stderr, err)
		return 2
	}
	fmt.Printf("property=%s harness=%s tag=%s\ninputs: %s\n", cf.Property, cf.Harness, cf.Tag, compactModel(cf.Model))
	if cf.NoNative {
		ok, msg := engineReplay(cf)
		fmt.Println("engine-concrete replay:", msg)
		if ok {
			fmt.Println("REPRODUCED")
			return 1
		}
		fmt.Println("NOT REPRODUCED")
		return 0
	}
	defer closeNativeSessions()
	rr := nativeReplay(cf)
	fmt.Println(rr.output)
	if rr.err != "" {
		fmt.Println("replay error:", rr.err)
		return 2
	}
	if rr.violated[cf.Tag] || (cf.Tag == "no-panic" && rr.panicked) {
		fmt.Println("REPRODUCED")
		return 1
	}
	fmt.Println("NOT REPRODUCED")
	return 0
}

func cmdSelftest(args []string) int {
	fmt.Println("selftest: solver round trip")
	s := NewSolver("z3", 10000, 0)
	defer s.Close()
	x := mkVar("x", 8)
	s.Push()
	s.Assert(mkEq(mkBin(opAdd, x, mkBV(8, 1)), mkBV(8, 0)))
	if s.Check() != resSat || s.Values([]*Term{x})[0] != 255 {
		fmt.Println("selftest FAILED")
		return 2
	}
	s.Pop()
	fmt.Println("selftest ok")
	return 0
}

// primarySolver: z3 5.1 (z3-new) decides the wide bit-vector sums of the ledger obligations about
// six times faster than z3 4.8.12; the other installed solvers serve as portfolio for unknowns
// and as cross-check in the thorough tier. GOSMT_SOLVER overrides.
func primarySolver() string {
	if s := os.Getenv("GOSMT_SOLVER"); s != "" {
		return s
	}
	return "z3-new"
}
