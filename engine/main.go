package main

import (
	"encoding/json"
	"flag"
	"fmt"
	"go/ast"
	"go/parser"
	"go/token"
	"go/types"
	"os"
	"path/filepath"
	"sort"
	"strings"
	"time"

	"golang.org/x/tools/go/packages"
	"golang.org/x/tools/go/ssa"
	"golang.org/x/tools/go/ssa/ssautil"
)

const intrinsicDecls = `//go:build verif

package %s

func vBool(name string) bool
func vU8(name string) uint8
func vU16(name string) uint16
func vU32(name string) uint32
func vU64(name string) uint64
func vUint(name string) uint
func vI8(name string) int8
func vI16(name string) int16
func vI32(name string) int32
func vI64(name string) int64
func vInt(name string) int
func vRange(name string, lo, hi int) int
func vConcrete(x int) int
func vBytes(name string, n int) []byte
func vString(name string, n int) string
func vName(base string, idx ...int) string
func vAssume(c bool)
func vAssert(c bool, tag string)
func vFail(tag string)
func vReach(tag string)
func vAnd(a, b bool) bool
func vOr(a, b bool) bool
func vNot(a bool) bool
func vImplies(a, b bool) bool
func vIteInt(c bool, a, b int) int
func vIteU8(c bool, a, b uint8) uint8
func vIteU16(c bool, a, b uint16) uint16
func vIteU32(c bool, a, b uint32) uint32
func vIteU64(c bool, a, b uint64) uint64
func vIteI64(c bool, a, b int64) int64
func vIteI32(c bool, a, b int32) int32
func vGoCount(sub string) int
func vRunSpawned(sub string) int
func vCatch(f func()) bool
func vPanicMsg() string
func vSameSlice(a, b []byte) bool
func vEventCount(sub string) int
func vPrint(x any)
func vWatchFields(ptr any)
func vSetAccessHook(f func())
func vClearAccessHook()
func vWatchedReads() int
func vHash(kind string, data []byte, n int) []byte
func vSchedule()
func vThreads()
func vSchedulePolicy(k int)
func vScheduleExplore(k int, preempt bool)
func vScheduleBase(b int)
func vYield()
func vLiveThreads() int
func vTimerCount() int
func vTimerNanos(k int) int64
func vTimerArmed(k int) bool
func vTimerFire(k int)
func vCtxTimeout(ctx interface{ Done() <-chan struct{} }) (int64, bool)
`

type loadedHarness struct {
	prog    *ssa.Program
	pkg     *ssa.Package
	ppkg    *packages.Package
	stubs   map[string]*ssa.Function
	stubDoc map[string]string
	scratch string
}

func repoDir() string {
	if d := os.Getenv("GOSMT_REPO"); d != "" {
		return d
	}
	return "/repo"
}

// loadHarness loads package pkgPath (relative to the repo, e.g. "./pkg/hack") from the
// repo's current working tree with the harness files of harnessDir injected by overlay.
func loadHarness(pkgRel string, harnessDir string) (*loadedHarness, error) {
	repo := repoDir()
	scratch, err := os.MkdirTemp("", "gosmt-load-")
	if err != nil {
		return nil, err
	}
	// private copy of go.mod/go.sum so that the go command never writes into the repo
	for _, f := range []string{"go.mod", "go.sum"} {
		b, err := os.ReadFile(filepath.Join(repo, f))
		if err != nil {
			return nil, err
		}
		name := map[string]string{"go.mod": "x.mod", "go.sum": "x.sum"}[f]
		os.WriteFile(filepath.Join(scratch, name), b, 0o644)
	}
	pkgDir := filepath.Join(repo, pkgRel)
	overlay := map[string][]byte{}
	files, _ := filepath.Glob(filepath.Join(harnessDir, "*.go"))
	sort.Strings(files)
	pkgName := ""
	fset := token.NewFileSet()
	stubDoc := map[string]string{}
	type stubDecl struct{ target, fn string }
	var stubDecls []stubDecl
	for _, f := range files {
		b, err := os.ReadFile(f)
		if err != nil {
			return nil, err
		}
		if strings.HasSuffix(f, "_native.go") {
			continue // replay-only support
		}
		af, err := parser.ParseFile(fset, f, b, parser.ParseComments)
		if err != nil {
			return nil, err
		}
		pkgName = af.Name.Name
		// "//verif:init <import path>": run that package's initialiser although the engine skips it
		// by default (harness directories that run net/http's server need its package state)
		for _, cg := range af.Comments {
			for _, c := range cg.List {
				if rest, ok := strings.CutPrefix(c.Text, "//verif:init "); ok {
					forceInitPkgs[strings.TrimSpace(rest)] = true
				}
			}
		}
		for _, d := range af.Decls {
			fd, ok := d.(*ast.FuncDecl)
			if !ok || fd.Doc == nil {
				continue
			}
			for _, c := range fd.Doc.List {
				if rest, ok := strings.CutPrefix(c.Text, "//verif:replace "); ok {
					stubDecls = append(stubDecls, stubDecl{strings.TrimSpace(rest), fd.Name.Name})
				}
			}
		}
		overlay[filepath.Join(pkgDir, "zz_verif_"+filepath.Base(f))] = b
	}
	if pkgName == "" {
		return nil, fmt.Errorf("no harness files in %s", harnessDir)
	}
	overlay[filepath.Join(pkgDir, "zz_verif_intrinsics.go")] = []byte(fmt.Sprintf(intrinsicDecls, pkgName))

	cfg := &packages.Config{
		Mode:       packages.LoadAllSyntax,
		Dir:        repo,
		Overlay:    overlay,
		BuildFlags: []string{"-tags=verif", "-modfile=" + filepath.Join(scratch, "x.mod")},
		Env:        append(os.Environ(), "GOFLAGS=-mod=mod", "GOPROXY=off", "GOSUMDB=off", "GOTOOLCHAIN=local"),
	}
	initial, err := packages.Load(cfg, pkgRel)
	if err != nil {
		return nil, err
	}
	if len(initial) != 1 {
		return nil, fmt.Errorf("expected one package, got %d", len(initial))
	}
	var errs []string
	packages.Visit(initial, nil, func(p *packages.Package) {
		for _, e := range p.Errors {
			errs = append(errs, e.Error())
		}
	})
	if len(errs) > 0 {
		return nil, fmt.Errorf("load errors:\n%s", strings.Join(errs, "\n"))
	}
	prog, pkgs := ssautil.AllPackages(initial, ssa.InstantiateGenerics)
	lh := &loadedHarness{prog: prog, pkg: pkgs[0], ppkg: initial[0], stubs: map[string]*ssa.Function{}, stubDoc: stubDoc, scratch: scratch}
	lh.pkg.Build()
	pkgPath := initial[0].PkgPath
	for _, sd := range stubDecls {
		fn := lh.pkg.Func(sd.fn)
		if fn == nil {
			return nil, fmt.Errorf("stub function %s not found", sd.fn)
		}
		target := sd.target
		// package-local short names: "(*T).m", "(T).m", "f"
		if !strings.Contains(target, "/") && !strings.Contains(target, ".") || strings.HasPrefix(target, "(") && !strings.Contains(strings.SplitN(target, ")", 2)[0], ".") {
			if strings.HasPrefix(target, "(*") {
				target = "(*" + pkgPath + "." + target[2:]
			} else if strings.HasPrefix(target, "(") {
				target = "(" + pkgPath + "." + target[1:]
			} else {
				target = pkgPath + "." + target
			}
		}
		lh.stubs[target] = fn
		stubDoc[target] = sd.fn
	}
	return lh, nil
}

func newInterpreter(lh *loadedHarness) *interpreter {
	i := &interpreter{
		prog:    lh.prog,
		globals: make(map[*ssa.Global]*value),
		sizes:   &types.StdSizes{WordSize: 8, MaxAlign: 8},
		inited:  map[*ssa.Package]bool{},
		stubs:   lh.stubs,
		stubUse: map[string]int{},
	}
	runtimePkg := i.prog.ImportedPackage("runtime")
	if runtimePkg == nil {
		panic("ssa.Program doesn't include runtime package")
	}
	i.runtimeErrorString = runtimePkg.Type("errorString").Object().Type()
	theInterp = i
	return i
}

type runConfig struct {
	Pkg        string
	HarnessDir string
	Funcs      []string
	TimeoutMs  int
	Seed       int
	BudgetS    int
	Solver     string
}

type runOutput struct {
	Results      []*harnessResult `json:"results"`
	LoadS        float64          `json:"load_s"`
	InitProblems []string         `json:"init_problems,omitempty"`
	Error        string           `json:"error,omitempty"`
}

func runHarnesses(cfg runConfig) *runOutput {
	out := &runOutput{}
	t0 := time.Now()
	lh, err := loadHarness(cfg.Pkg, cfg.HarnessDir)
	if lh != nil {
		defer os.RemoveAll(lh.scratch)
	}
	if err != nil {
		out.Error = err.Error()
		return out
	}
	out.LoadS = time.Since(t0).Seconds()
	i := newInterpreter(lh)
	if os.Getenv("GOSMT_TRACE") != "" {
		i.trace = true
	}
	solver = NewSolver(cfg.Solver, cfg.TimeoutMs, cfg.Seed)
	defer solver.Close()
	i.ensureInit(lh.pkg)
	for _, name := range cfg.Funcs {
		fn := lh.pkg.Func(name)
		if fn == nil {
			out.Error = "harness function not found: " + name
			return out
		}
		for k := range i.stubUse {
			delete(i.stubUse, k)
		}
		res := exploreHarness(i, name, fn, time.Duration(cfg.BudgetS)*time.Second)
		for k, n := range i.stubUse {
			res.Stubs = append(res.Stubs, fmt.Sprintf("%s -> %s (%d calls)", k, lh.stubDoc[k], n))
		}
		sort.Strings(res.Stubs)
		out.Results = append(out.Results, res)
	}
	out.InitProblems = initProblems
	return out
}

func main() {
	if len(os.Args) < 2 {
		fmt.Fprintln(os.Stderr, "usage: gosmt run|check|replay|selftest ...")
		os.Exit(2)
	}
	switch os.Args[1] {
	case "run":
		fs := flag.NewFlagSet("run", flag.ExitOnError)
		pkg := fs.String("pkg", "", "package relative to the repo, e.g. ./pkg/hack")
		hdir := fs.String("harness", "", "directory with harness files")
		funcs := fs.String("funcs", "", "comma-separated harness functions")
		timeout := fs.Int("timeout-ms", 60000, "per-query solver timeout")
		seed := fs.Int("seed", 0, "seed")
		budget := fs.Int("budget-s", 0, "wall budget per harness (0 = none)")
		slv := fs.String("solver", "z3-new", "z3 | z3-new | cvc5")
		outp := fs.String("out", "", "write JSON result here (default stdout)")
		fs.Parse(os.Args[2:])
		res := runHarnesses(runConfig{Pkg: *pkg, HarnessDir: *hdir, Funcs: strings.Split(*funcs, ","), TimeoutMs: *timeout, Seed: *seed, BudgetS: *budget, Solver: *slv})
		b, _ := json.MarshalIndent(res, "", " ")
		if *outp != "" {
			os.WriteFile(*outp, b, 0o644)
		} else {
			os.Stdout.Write(b)
			fmt.Println()
		}
		if res.Error != "" {
			os.Exit(2)
		}
	case "worker":
		fs := flag.NewFlagSet("worker", flag.ExitOnError)
		pkg := fs.String("pkg", "", "")
		hdir := fs.String("harness", "", "")
		timeout := fs.Int("timeout-ms", 60000, "")
		seed := fs.Int("seed", 0, "")
		slv := fs.String("solver", "z3-new", "")
		fs.Parse(os.Args[2:])
		os.Exit(cmdWorker(runConfig{Pkg: *pkg, HarnessDir: *hdir, TimeoutMs: *timeout, Seed: *seed, Solver: *slv}))
	case "pinned":
		os.Exit(cmdPinned(os.Args[2:]))
	case "check":
		os.Exit(cmdCheck(os.Args[2:]))
	case "replay":
		os.Exit(cmdReplay(os.Args[2:]))
	case "selftest":
		os.Exit(cmdSelftest(os.Args[2:]))
	default:
		fmt.Fprintln(os.Stderr, "unknown command", os.Args[1])
		os.Exit(2)
	}
}
