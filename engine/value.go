// Copyright 2013 The Go Authors. All rights reserved.
// Use of this source code is governed by a BSD-style
// license that can be found in the LICENSE file (LICENSE.x-tools).
//
// Derived from golang.org/x/tools/go/ssa/interp (v0.29.0), extended with
// symbolic scalars, symbolic strings, guarded pointers, association-list maps,
// modelled channels and a write journal.

package main

// Values
//
// All interpreter values are "boxed" in the empty interface, value.
// The range of possible dynamic types within value are:
//
// - bool, numbers (all built-in int/float/complex types are distinguished), string  -- concrete
// - sv        --- symbolic scalar (bool or integer) carrying an SMT term
// - symstr    --- string of concrete length whose bytes may be symbolic (uint8 | sv | tokv)
// - tokv      --- a formatted-number cell inside a byte sequence (see native models)
// - *smap     --- maps
// - *chanv    --- channels (modelled, never blocking)
// - []value   --- slices
// - iface, structure, array
// - *value    --- pointers; symptr --- guarded choice among pointers
// - *ssa.Function, *ssa.Builtin, *closure
// - tuple, iter, bad, **deferred

import (
	"bytes"
	"fmt"
	"go/types"
	"unsafe"

	"golang.org/x/tools/go/ssa"
	"golang.org/x/tools/go/types/typeutil"
)

type value interface{}

type tuple []value

type array []value

type iface struct {
	t types.Type // never an "untyped" type
	v value
}

type structure []value

// sv is a symbolic scalar of basic kind k (types.Bool or an integer kind).
type sv struct {
	t *Term
	k types.BasicKind
}

// symstr is a string with concrete length; each element is uint8, sv(Uint8) or tokv.
type symstr []value

// tokv is an opaque "formatted number" cell: it stands for the digits of v rendered in
// base 10 ('d') or 16 ('x'). It occupies one position in the byte sequence model.
type tokv struct {
	kind byte
	v    *Term // always widened to 64 bits
}

// symptr is a guarded choice among cells: exactly one guard holds on the current path.
type symptr struct {
	cells  []*value
	guards []*Term
}

// chanv models a channel: a FIFO that never blocks the sender.
type chanv struct {
	buf    []value
	cap    int
	closed bool
	id     int
	// thread mode (threads.go): rendezvous bookkeeping
	sendCount, recvCount int
	recvWaiters          int
	recvQ, sendQ         []*waitEntry // parked receivers / senders (threadchan.go)
}

// For map, array, *array, slice, string or channel.
type iter interface {
	// next returns a Tuple (key, value, ok).
	next() tuple
}

type closure struct {
	Fn  *ssa.Function
	Env []value
}

type bad struct{}

// slicedata is what unsafe.SliceData / unsafe.StringData return.
type slicedata struct {
	s value
}

var hasher = typeutil.MakeHasher()

func hashType(t types.Type) int { return int(hasher.Hash(t)) }

// nil-tolerant variant of types.Identical.
func sameType(x, y types.Type) bool {
	if x == nil {
		return y == nil
	}
	return y != nil && types.Identical(x, y)
}

func isSym(x value) bool {
	switch x.(type) {
	case sv, symstr, tokv:
		return true
	}
	return false
}

// containsSym reports whether x (a scalar, string or aggregate) has symbolic parts.
func containsSym(x value) bool {
	switch x := x.(type) {
	case sv, symstr, tokv, symptr:
		return true
	case structure:
		for _, e := range x {
			if containsSym(e) {
				return true
			}
		}
	case array:
		for _, e := range x {
			if containsSym(e) {
				return true
			}
		}
	case iface:
		return containsSym(x.v)
	}
	return false
}

// equals returns true iff x and y are equal according to Go's
// linguistic equivalence relation for type t. Concrete values only.
func equals(t types.Type, x, y value) bool {
	r := eqVal(t, x, y)
	b, ok := r.(bool)
	if !ok {
		panic(engineErr("equals: symbolic comparison in concrete-only context"))
	}
	return b
}

// eqVal returns x == y as a bool or a symbolic bool.
func eqVal(t types.Type, x, y value) value {
	if isSym(x) || isSym(y) {
		return symEq(x, y)
	}
	switch x := x.(type) {
	case bool:
		return x == y.(bool)
	case int:
		return x == y.(int)
	case int8:
		return x == y.(int8)
	case int16:
		return x == y.(int16)
	case int32:
		return x == y.(int32)
	case int64:
		return x == y.(int64)
	case uint:
		return x == y.(uint)
	case uint8:
		return x == y.(uint8)
	case uint16:
		return x == y.(uint16)
	case uint32:
		return x == y.(uint32)
	case uint64:
		return x == y.(uint64)
	case uintptr:
		return x == y.(uintptr)
	case float32:
		return x == y.(float32)
	case float64:
		return x == y.(float64)
	case complex64:
		return x == y.(complex64)
	case complex128:
		return x == y.(complex128)
	case string:
		return x == y.(string)
	case *value:
		if yp, ok := y.(symptr); ok {
			return symptrEq(yp, x)
		}
		return x == y.(*value)
	case symptr:
		if yp, ok := y.(*value); ok {
			return symptrEq(x, yp)
		}
		panic(engineErr("comparison of two guarded pointers"))
	case *chanv:
		return x == y.(*chanv)
	case unsafe.Pointer:
		return x == y.(unsafe.Pointer)
	case structure:
		ys := y.(structure)
		tStruct := t.Underlying().(*types.Struct)
		var acc value = true
		for i, n := 0, tStruct.NumFields(); i < n; i++ {
			if f := tStruct.Field(i); f.Name() != "_" {
				acc = andVal(acc, eqVal(f.Type(), x[i], ys[i]))
				if b, ok := acc.(bool); ok && !b {
					return false
				}
			}
		}
		return acc
	case array:
		ya := y.(array)
		tElt := t.Underlying().(*types.Array).Elem()
		var acc value = true
		for i := range x {
			acc = andVal(acc, eqVal(tElt, x[i], ya[i]))
			if b, ok := acc.(bool); ok && !b {
				return false
			}
		}
		return acc
	case iface:
		yi := y.(iface)
		if !sameType(x.t, yi.t) {
			return false
		}
		if x.t == nil {
			return true
		}
		return eqVal(x.t, x.v, yi.v)
	}

	// Since map, func and slice don't support comparison, this
	// case is only reachable if one of x or y is literally nil
	// (handled in eqnil) or via interface{} values.
	panic(targetPanicStr(fmt.Sprintf("runtime error: comparing uncomparable type %s", t)))
}

func symptrEq(p symptr, q *value) value {
	acc := termFalse
	for i, c := range p.cells {
		if c == q {
			acc = mkOr(acc, p.guards[i])
		}
	}
	return termToBoolVal(acc)
}

func termToBoolVal(t *Term) value {
	if t.isConst() {
		return t.val != 0
	}
	return sv{t, types.Bool}
}

func boolTerm(v value) *Term {
	switch v := v.(type) {
	case bool:
		return mkBool(v)
	case sv:
		if v.k != types.Bool {
			panic(engineErr("boolTerm: not a bool"))
		}
		return v.t
	}
	panic(engineErr(fmt.Sprintf("boolTerm: %T", v)))
}

func andVal(a, b value) value { return termToBoolVal(mkAnd(boolTerm(a), boolTerm(b))) }
func notVal(a value) value    { return termToBoolVal(mkNot(boolTerm(a))) }

// hashKey returns a Go-comparable key for concrete map keys, or ok=false
// when the key has symbolic parts.
func hashKey(t types.Type, x value) (k interface{}, ok bool) {
	switch x := x.(type) {
	case bool, int, int8, int16, int32, int64, uint, uint8, uint16, uint32, uint64, uintptr,
		float32, float64, complex64, complex128, string, *value, *chanv, unsafe.Pointer:
		return x, true
	case sv, symstr, tokv, symptr:
		return nil, false
	case structure:
		var sb bytes.Buffer
		sb.WriteString("S{")
		for _, e := range x {
			ek, ok := hashKey(nil, e)
			if !ok {
				return nil, false
			}
			fmt.Fprintf(&sb, "%T:%v;", ek, ek)
		}
		return sb.String(), true
	case array:
		var sb bytes.Buffer
		sb.WriteString("A{")
		for _, e := range x {
			ek, ok := hashKey(nil, e)
			if !ok {
				return nil, false
			}
			fmt.Fprintf(&sb, "%T:%v;", ek, ek)
		}
		return sb.String(), true
	case iface:
		if x.t == nil {
			return "I<nil>", true
		}
		ek, ok := hashKey(x.t, x.v)
		if !ok {
			return nil, false
		}
		return fmt.Sprintf("I%d:%T:%v", hashType(x.t), ek, ek), true
	}
	panic(targetPanicStr(fmt.Sprintf("runtime error: hash of unhashable type %T", x)))
}

// ------------------------------------------------------------------------
// Write journal: every mutation of a pre-existing cell is recorded so that the
// heap can be rolled back to the post-initialisation state between paths.

type undoRec struct {
	addr *value
	old  value
}

var (
	journal    []undoRec
	journalFns []func()
	journalOn  bool
)

func setCell(addr *value, v value) {
	if journalOn {
		journal = append(journal, undoRec{addr, *addr})
	}
	*addr = v
}

func journalFn(f func()) {
	if journalOn {
		journalFns = append(journalFns, f)
	}
}

func rollback() {
	for i := len(journalFns) - 1; i >= 0; i-- {
		journalFns[i]()
	}
	journalFns = journalFns[:0]
	for i := len(journal) - 1; i >= 0; i-- {
		*journal[i].addr = journal[i].old
	}
	journal = journal[:0]
}

// load returns the value of type T in *addr.
func load(T types.Type, addr *value) value {
	switch T := T.Underlying().(type) {
	case *types.Struct:
		v := (*addr).(structure)
		a := make(structure, len(v))
		for i := range a {
			a[i] = load(T.Field(i).Type(), &v[i])
		}
		return a
	case *types.Array:
		v := (*addr).(array)
		a := make(array, len(v))
		for i := range a {
			a[i] = load(T.Elem(), &v[i])
		}
		return a
	default:
		return *addr
	}
}

// store stores value v of type T into *addr.
func store(T types.Type, addr *value, v value) {
	switch T := T.Underlying().(type) {
	case *types.Struct:
		lhs := (*addr).(structure)
		rhs := v.(structure)
		for i := range lhs {
			store(T.Field(i).Type(), &lhs[i], rhs[i])
		}
	case *types.Array:
		lhs := (*addr).(array)
		rhs := v.(array)
		for i := range lhs {
			store(T.Elem(), &lhs[i], rhs[i])
		}
	default:
		setCell(addr, v)
	}
}

// loadPtr loads through a plain or guarded pointer.
func loadPtr(T types.Type, p value) value {
	switch p := p.(type) {
	case *value:
		return load(T, p)
	case symptr:
		// reference-typed cells: merge candidates that hold the same reference first, so that the
		// path forks once per distinct target rather than once per index
		switch T.Underlying().(type) {
		case *types.Pointer, *types.Slice, *types.Map, *types.Chan, *types.Signature, *types.Interface:
			type group struct {
				v value
				g *Term
			}
			var groups []group
			for i, c := range p.cells {
				v := *c
				found := false
				for k := range groups {
					if sameRef(groups[k].v, v) {
						groups[k].g = mkOr(groups[k].g, p.guards[i])
						found = true
						break
					}
				}
				if !found {
					groups = append(groups, group{v, p.guards[i]})
				}
			}
			if len(groups) == 1 {
				return groups[0].v
			}
			gs := make([]*Term, len(groups))
			for k := range groups {
				gs[k] = groups[k].g
			}
			return groups[chooseOne(gs)].v
		}
		if !scalarOnly(T) {
			// aggregates with strings or references inside do not merge into one ite value:
			// pick the cell by a model-guided choice (one fork per feasible cell)
			return load(T, p.cells[chooseOne(p.guards)])
		}
		var acc value
		for i := len(p.cells) - 1; i >= 0; i-- {
			v := load(T, p.cells[i])
			if acc == nil {
				acc = v
			} else {
				acc = iteVal(T, p.guards[i], v, acc)
			}
		}
		return acc
	}
	panic(engineErr(fmt.Sprintf("load through %T", p)))
}

// storePtr stores through a plain or guarded pointer.
func storePtr(T types.Type, p value, v value) {
	switch p := p.(type) {
	case *value:
		store(T, p, v)
	case symptr:
		for i, c := range p.cells {
			old := load(T, c)
			store(T, c, iteVal(T, p.guards[i], v, old))
		}
	default:
		panic(engineErr(fmt.Sprintf("store through %T", p)))
	}
}

// iteVal builds "if g then a else b" for values of type T.
func iteVal(T types.Type, g *Term, a, b value) value {
	if g.isTrue() {
		return a
	}
	if g.isFalse() {
		return b
	}
	switch ut := T.Underlying().(type) {
	case *types.Basic:
		if ut.Info()&(types.IsInteger|types.IsBoolean) != 0 {
			ta, tb := scalarTerm(a, ut.Kind()), scalarTerm(b, ut.Kind())
			return termToVal(mkIte(g, ta, tb), ut.Kind())
		}
		if ut.Info()&types.IsString != 0 {
			sa, sb := strCells(a), strCells(b)
			if len(sa) == len(sb) {
				out := make(symstr, len(sa))
				for i := range sa {
					out[i] = iteByte(g, sa[i], sb[i])
				}
				return normStr(out)
			}
		}
	case *types.Struct:
		sa, sb := a.(structure), b.(structure)
		out := make(structure, len(sa))
		for i := range sa {
			out[i] = iteVal(ut.Field(i).Type(), g, sa[i], sb[i])
		}
		return out
	case *types.Array:
		sa, sb := a.(array), b.(array)
		out := make(array, len(sa))
		for i := range sa {
			out[i] = iteVal(ut.Elem(), g, sa[i], sb[i])
		}
		return out
	}
	// Non-mergeable (pointers, slices, interfaces, ...): identical values merge trivially,
	// otherwise the path forks on the guard.
	if sameRef(a, b) {
		return a
	}
	if decide(g) {
		return a
	}
	return b
}

func sameRef(a, b value) (same bool) {
	defer func() {
		if recover() != nil {
			same = false
		}
	}()
	switch a := a.(type) {
	case *value:
		bp, ok := b.(*value)
		return ok && a == bp
	case []value:
		bs, ok := b.([]value)
		if !ok || len(a) != len(bs) || cap(a) != cap(bs) {
			return false
		}
		if cap(a) == 0 {
			return (a == nil) == (bs == nil)
		}
		return &a[:1][0] == &bs[:1][0]
	case iface:
		bi, ok := b.(iface)
		return ok && sameType(a.t, bi.t) && (a.t == nil || sameRef(a.v, bi.v))
	case *smap:
		bm, ok := b.(*smap)
		return ok && a == bm
	case *chanv:
		bc, ok := b.(*chanv)
		return ok && a == bc
	case *ssa.Function:
		bf, ok := b.(*ssa.Function)
		return ok && a == bf
	case *closure:
		bc, ok := b.(*closure)
		return ok && a == bc
	case string:
		bs, ok := b.(string)
		return ok && a == bs
	case bool, int, int8, int16, int32, int64, uint, uint8, uint16, uint32, uint64, uintptr, float32, float64:
		return a == b
	}
	return false
}

// Prints in the style of built-in println.
func writeValue(buf *bytes.Buffer, v value) {
	switch v := v.(type) {
	case nil, bool, int, int8, int16, int32, int64, uint, uint8, uint16, uint32, uint64, uintptr, float32, float64, complex64, complex128, string:
		fmt.Fprintf(buf, "%v", v)
	case sv:
		fmt.Fprintf(buf, "<sym#%d>", v.t.id)
	case symstr:
		fmt.Fprintf(buf, "<symstr len=%d>", len(v))
	case tokv:
		fmt.Fprintf(buf, "<tok %c #%d>", v.kind, v.v.id)
	case *smap:
		if v == nil {
			buf.WriteString("map[]")
			return
		}
		buf.WriteString("map[")
		sep := ""
		for _, e := range v.entries {
			buf.WriteString(sep)
			sep = " "
			writeValue(buf, e.key)
			buf.WriteString(":")
			writeValue(buf, e.val)
		}
		buf.WriteString("]")
	case *chanv:
		fmt.Fprintf(buf, "%p", v)
	case *value:
		if v == nil {
			buf.WriteString("<nil>")
		} else {
			fmt.Fprintf(buf, "%p", v)
		}
	case symptr:
		fmt.Fprintf(buf, "<symptr %d>", len(v.cells))
	case iface:
		fmt.Fprintf(buf, "(%s, ", v.t)
		writeValue(buf, v.v)
		buf.WriteString(")")
	case structure:
		buf.WriteString("{")
		for i, e := range v {
			if i > 0 {
				buf.WriteString(" ")
			}
			writeValue(buf, e)
		}
		buf.WriteString("}")
	case array:
		buf.WriteString("[")
		for i, e := range v {
			if i > 0 {
				buf.WriteString(" ")
			}
			writeValue(buf, e)
		}
		buf.WriteString("]")
	case []value:
		buf.WriteString("[")
		for i, e := range v {
			if i > 0 {
				buf.WriteString(" ")
			}
			writeValue(buf, e)
		}
		buf.WriteString("]")
	case *ssa.Function, *ssa.Builtin, *closure:
		fmt.Fprintf(buf, "%p", v) // (an address)
	case tuple:
		buf.WriteString("(")
		for i, e := range v {
			if i > 0 {
				buf.WriteString(", ")
			}
			writeValue(buf, e)
		}
		buf.WriteString(")")
	default:
		fmt.Fprintf(buf, "<%T>", v)
	}
}

// Implements printing of Go values in the style of built-in println.
func toString(v value) string {
	var b bytes.Buffer
	writeValue(&b, v)
	return b.String()
}

// ------------------------------------------------------------------------
// Iterators

type stringIter struct {
	s []value // bytes
	i int
}

func (it *stringIter) next() tuple {
	okv := make(tuple, 3)
	if it.i >= len(it.s) {
		okv[0] = false
		return okv
	}
	okv[0] = true
	okv[1] = it.i
	b := it.s[it.i]
	switch b := b.(type) {
	case uint8:
		if b < 0x80 {
			okv[2] = int32(b)
			it.i++
			return okv
		}
		// decode a concrete multi-byte sequence if all bytes are concrete
		var raw []byte
		for j := it.i; j < len(it.s) && j < it.i+4; j++ {
			c, ok := it.s[j].(uint8)
			if !ok {
				break
			}
			raw = append(raw, c)
		}
		r, n := decodeRune(raw)
		okv[2] = r
		it.i += n
		return okv
	case sv:
		// symbolic byte: require ASCII on this path (fork otherwise: non-ASCII is outside the model)
		if decide(mkCmp(opUlt, b.t, mkBV(8, 0x80))) {
			okv[2] = sv{mkZext(32, b.t), types.Int32}
			it.i++
			return okv
		}
		panic(pathAbort{"range over string with symbolic non-ASCII byte (outside model)", true})
	}
	panic(engineErr("range over string containing a token cell"))
}

type mapIter struct {
	m    *smap
	keys []*mentry
	i    int
}

func (it *mapIter) next() tuple {
	for it.i < len(it.keys) {
		e := it.keys[it.i]
		it.i++
		if e.deleted {
			continue
		}
		return []value{true, e.key, e.val}
	}
	return []value{false, nil, nil}
}

// scalarOnly reports whether values of type T consist of integers and booleans only (so that a
// guarded choice among them merges into ite terms without forking).
func scalarOnly(T types.Type) bool {
	switch ut := T.Underlying().(type) {
	case *types.Basic:
		return ut.Info()&(types.IsInteger|types.IsBoolean) != 0
	case *types.Struct:
		for i := 0; i < ut.NumFields(); i++ {
			if !scalarOnly(ut.Field(i).Type()) {
				return false
			}
		}
		return true
	case *types.Array:
		return scalarOnly(ut.Elem())
	}
	return false
}
