package main

// Native replay support for //verif:replace stubs of functions that live in the package
// under test: the declaring source file is copied with the function renamed, and a
// forwarder with the original name and signature calls the harness stub. The replay binary
// is therefore the real package except for exactly the stated stubs.

import (
	"bytes"
	"fmt"
	"go/ast"
	"go/parser"
	"go/printer"
	"go/token"
	"os"
	"path/filepath"
	"strings"
)

type stubDirective struct {
	target string // as written
	stubFn string
}

func harnessStubDirectives(files []string) ([]stubDirective, error) {
	var out []stubDirective
	fset := token.NewFileSet()
	for _, f := range files {
		af, err := parser.ParseFile(fset, f, nil, parser.ParseComments)
		if err != nil {
			return nil, err
		}
		for _, d := range af.Decls {
			fd, ok := d.(*ast.FuncDecl)
			if !ok || fd.Doc == nil {
				continue
			}
			for _, c := range fd.Doc.List {
				if rest, ok := strings.CutPrefix(c.Text, "//verif:replace "); ok {
					out = append(out, stubDirective{strings.TrimSpace(rest), fd.Name.Name})
				}
			}
		}
	}
	return out, nil
}

// parseLocalTarget splits "(*T).m" / "(T).m" / "f" into receiver type name and function name.
func parseLocalTarget(t string) (recv string, name string, ok bool) {
	if strings.Contains(t, "/") {
		return "", "", false
	}
	if strings.HasPrefix(t, "(") {
		i := strings.Index(t, ").")
		if i < 0 {
			return "", "", false
		}
		r := strings.TrimPrefix(t[1:i], "*")
		if strings.Contains(r, ".") {
			return "", "", false
		}
		return r, t[i+2:], true
	}
	if strings.Contains(t, ".") {
		return "", "", false
	}
	return "", t, true
}

func recvTypeName(fd *ast.FuncDecl) string {
	if fd.Recv == nil || len(fd.Recv.List) == 0 {
		return ""
	}
	e := fd.Recv.List[0].Type
	if s, ok := e.(*ast.StarExpr); ok {
		e = s.X
	}
	if id, ok := e.(*ast.Ident); ok {
		return id.Name
	}
	return ""
}

// buildStubOverlay returns overlay replacements (original path -> rewritten copy) and the
// path of a generated forwarders file content.
func buildStubOverlay(pkgDir, pkgName, tmp string, dirs []stubDirective) (map[string]string, string, error) {
	repl := map[string]string{}
	if len(dirs) == 0 {
		return repl, "", nil
	}
	fset := token.NewFileSet()
	entries, _ := filepath.Glob(filepath.Join(pkgDir, "*.go"))
	type parsed struct {
		path  string
		file  *ast.File
		dirty bool
	}
	var files []*parsed
	for _, p := range entries {
		if strings.HasSuffix(p, "_test.go") {
			continue
		}
		af, err := parser.ParseFile(fset, p, nil, parser.ParseComments)
		if err != nil {
			return nil, "", err
		}
		files = append(files, &parsed{path: p, file: af})
	}
	var fwd bytes.Buffer
	fmt.Fprintf(&fwd, "//go:build verif\n\npackage %s\n\n", pkgName)
	imports := map[string]bool{}
	for _, d := range dirs {
		recv, name, ok := parseLocalTarget(d.target)
		if !ok {
			// stubs of code outside the package are engine-only: natively the real callee runs and
			// the harness observes it through its own recording environment (stated per harness)
			continue
		}
		found := false
		for _, pf := range files {
			for _, decl := range pf.file.Decls {
				fd, ok := decl.(*ast.FuncDecl)
				if !ok || fd.Name.Name != name || recvTypeName(fd) != recv {
					continue
				}
				if pf.file.Name.Name != pkgName {
					continue
				}
				found = true
				// forwarder
				var args []string
				fwdDecl := &ast.FuncDecl{Name: ast.NewIdent(name), Type: &ast.FuncType{Params: &ast.FieldList{}, Results: fd.Type.Results}}
				n := 0
				if fd.Recv != nil {
					rf := *fd.Recv.List[0]
					rf.Names = []*ast.Ident{ast.NewIdent("vrecv")}
					fwdDecl.Recv = &ast.FieldList{List: []*ast.Field{&rf}}
					args = append(args, "vrecv")
				}
				for _, p := range fd.Type.Params.List {
					cnt := len(p.Names)
					if cnt == 0 {
						cnt = 1
					}
					nf := &ast.Field{Type: p.Type}
					for k := 0; k < cnt; k++ {
						pn := fmt.Sprintf("vp%d", n)
						n++
						nf.Names = append(nf.Names, ast.NewIdent(pn))
						if _, variadic := p.Type.(*ast.Ellipsis); variadic {
							args = append(args, pn+"...")
						} else {
							args = append(args, pn)
						}
					}
					fwdDecl.Type.Params.List = append(fwdDecl.Type.Params.List, nf)
				}
				callSrc := fmt.Sprintf("%s(%s)", d.stubFn, strings.Join(args, ", "))
				var body string
				if fd.Type.Results != nil && len(fd.Type.Results.List) > 0 {
					body = "return " + callSrc
				} else {
					body = callSrc
				}
				var sig bytes.Buffer
				printer.Fprint(&sig, fset, fwdDecl)
				fmt.Fprintf(&fwd, "%s {\n\t%s\n}\n\n", strings.TrimSuffix(strings.TrimSpace(sig.String()), "{}"), body)
				// imports needed by the signature: copy all imports of the declaring file (unused ones are blanked below)
				for _, im := range pf.file.Imports {
					imports[importSpecString(im)] = true
				}
				fd.Name = ast.NewIdent(name + "__verifOrig")
				pf.dirty = true
			}
		}
		if !found {
			return nil, "", fmt.Errorf("stub target %s not found in %s", d.target, pkgDir)
		}
	}
	for i, pf := range files {
		if !pf.dirty {
			continue
		}
		var buf bytes.Buffer
		if err := printer.Fprint(&buf, fset, pf.file); err != nil {
			return nil, "", err
		}
		out := filepath.Join(tmp, fmt.Sprintf("rewritten_%d_%s", i, filepath.Base(pf.path)))
		os.WriteFile(out, buf.Bytes(), 0o644)
		repl[pf.path] = out
	}
	// The forwarders file re-parses itself to find which imports it really uses.
	src := fwd.String()
	var hdr bytes.Buffer
	fmt.Fprintf(&hdr, "//go:build verif\n\npackage %s\n\nimport (\n", pkgName)
	for im := range imports {
		name, path := splitImportSpec(im)
		local := name
		if local == "" {
			local = filepath.Base(path)
		}
		if strings.Contains(src, local+".") {
			fmt.Fprintf(&hdr, "\t%s\n", im)
		}
	}
	hdr.WriteString(")\n\n")
	body := strings.SplitN(src, "\n\n", 3)[2]
	fp := filepath.Join(tmp, "forwarders.go")
	os.WriteFile(fp, append(hdr.Bytes(), []byte(body)...), 0o644)
	return repl, fp, nil
}

func importSpecString(im *ast.ImportSpec) string {
	if im.Name != nil {
		return im.Name.Name + " " + im.Path.Value
	}
	return im.Path.Value
}

func splitImportSpec(s string) (name, path string) {
	parts := strings.Fields(s)
	if len(parts) == 2 {
		return parts[0], strings.Trim(parts[1], `"`)
	}
	return "", strings.Trim(parts[0], `"`)
}
