package main

import (
	"fmt"
	"go/types"
)

func mustDeref(t types.Type) types.Type {
	if p, ok := t.Underlying().(*types.Pointer); ok {
		return p.Elem()
	}
	panic(engineErr(fmt.Sprintf("mustDeref: %s", t)))
}

// symConv handles conversions that involve symbolic values; ok=false means "not mine".
func symConv(utDst, utSrc types.Type, x value) (value, bool) {
	switch x := x.(type) {
	case sv:
		if b, ok := utDst.(*types.Basic); ok && b.Info()&types.IsInteger != 0 {
			return symConvInt(b.Kind(), x), true
		}
		if b, ok := utDst.(*types.Basic); ok && b.Info()&types.IsBoolean != 0 {
			return x, true
		}
		if b, ok := utDst.(*types.Basic); ok && b.Kind() == types.String {
			// string(integer): the UTF-8 encoding of the code point
			w, _ := kindInfo(x.k)
			t := x.t
			if decide(mkCmp(opUlt, t, mkBV(w, 0x80))) {
				return symstr{termToVal(mkExtract(7, 0, t), types.Uint8)}, true
			}
			if w == 8 || decide(mkCmp(opUlt, t, mkBV(w, 0x800))) {
				t16 := mkZext(16, mkExtract(minInt(w, 16)-1, 0, t))
				b0 := mkBin(opBvOr, mkBV(8, 0xC0), mkExtract(7, 0, mkBin(opLshr, t16, mkBV(16, 6))))
				b1 := mkBin(opBvOr, mkBV(8, 0x80), mkBin(opBvAnd, mkExtract(7, 0, t16), mkBV(8, 0x3f)))
				return symstr{termToVal(b0, types.Uint8), termToVal(b1, types.Uint8)}, true
			}
			panic(pathAbort{"string(rune) of a symbolic code point >= 0x800 (outside model)", true})
		}
		panic(engineErr(fmt.Sprintf("unsupported conversion of symbolic %v to %s", x.k, utDst)))
	case symstr:
		switch d := utDst.(type) {
		case *types.Basic:
			if d.Kind() == types.String {
				return x, true
			}
		case *types.Slice:
			if d.Elem().Underlying().(*types.Basic).Kind() == types.Byte {
				out := make([]value, len(x))
				copy(out, x)
				return out, true
			}
		}
		panic(engineErr(fmt.Sprintf("unsupported conversion of symbolic string to %s", utDst)))
	case []value:
		if s, ok := utSrc.(*types.Slice); ok {
			if b, ok := s.Elem().Underlying().(*types.Basic); ok && b.Kind() == types.Byte {
				if d, ok := utDst.(*types.Basic); ok && d.Kind() == types.String {
					return normStr(x), true
				}
			}
		}
	case slicedata:
		if _, isPtr := utDst.(*types.Pointer); isPtr {
			if p, ok := x.s.(*value); ok {
				return p, true
			}
		}
		if b, isB := utDst.(*types.Basic); isB && b.Kind() == types.UnsafePointer {
			return x, true
		}
		panic(engineErr("unsupported unsafe.Pointer conversion"))
	case *value, symptr:
		if b, isB := utDst.(*types.Basic); isB && b.Kind() == types.UnsafePointer {
			return slicedata{x}, true
		}
	}
	return nil, false
}

// appendSlice implements append with Go's in-place-or-reallocate semantics, journaled.
func appendSlice(s []value, add []value) []value {
	if len(add) == 0 {
		return s
	}
	n := len(s) + len(add)
	if n <= cap(s) {
		out := s[:n]
		for i, v := range add {
			setCell(&out[len(s)+i], copyVal(v))
		}
		return out
	}
	// reallocate with Go-like growth (exact factor is unspecified by the language)
	newCap := cap(s) * 2
	if newCap < n {
		newCap = n
	}
	if newCap < 8 && n <= 8 {
		newCap = 8
	}
	out := make([]value, n, newCap)
	for i, v := range s {
		out[i] = copyVal(v)
	}
	for i, v := range add {
		out[len(s)+i] = copyVal(v)
	}
	// spare capacity must hold zero values of the element type; callers reslice only after
	// storing, and zero cells are filled lazily by fillSpare when the element type is known.
	return out
}

// fillSpare sets the cells between len and cap of a freshly grown slice to zero values.
func fillSpare(s []value, elem types.Type) {
	full := s[:cap(s)]
	for i := len(s); i < len(full); i++ {
		if full[i] == nil {
			full[i] = zero(elem)
		}
	}
}

// concretizeInt returns a concrete value for symbolic integer x, forking over its feasible values.
func concretizeInt(x sv) int64 {
	w, signed := kindInfo(x.k)
	v := concretize(x.t)
	if signed {
		return signExt(v, w)
	}
	return int64(v)
}

// ---------------------------------------------------------------- channels

var chanSeq int

func makeChan(capacity int) *chanv {
	chanSeq++
	return &chanv{cap: capacity, id: chanSeq}
}

func (c *chanv) send(v value) {
	if c == nil {
		if sch != nil {
			sch.block("send on nil channel", func() bool { return false })
		}
		panic(pathAbort{"send on nil channel blocks forever", false})
	}
	if c.closed {
		panic(targetPanicStr("send on closed channel"))
	}
	if sch != nil {
		c.sendT(v) // thread mode: threadchan.go
		return
	}
	c.push(v)
}

func (c *chanv) push(v value) {
	old, oldN := c.buf, c.sendCount
	journalFn(func() { c.buf, c.sendCount = old, oldN })
	c.buf = append(c.buf[:len(c.buf):len(c.buf)], v)
	c.sendCount++
}

func (c *chanv) recv(elem types.Type) (value, bool) {
	if sch != nil {
		return c.recvT(elem) // thread mode: threadchan.go
	}
	if c == nil {
		if sch != nil {
			sch.block("receive from nil channel", func() bool { return false })
		}
		panic(pathAbort{"receive from nil channel blocks forever", false})
	}
	if sch != nil && len(c.buf) == 0 && !c.closed {
		c.recvWaiters++
		func() {
			defer func() { c.recvWaiters-- }()
			sch.block("channel receive", func() bool { return len(c.buf) > 0 || c.closed })
		}()
	}
	if len(c.buf) > 0 {
		old, oldN := c.buf, c.recvCount
		journalFn(func() { c.buf, c.recvCount = old, oldN })
		v := c.buf[0]
		c.buf = c.buf[1:]
		c.recvCount++
		return v, true
	}
	if c.closed {
		return zero(elem), false
	}
	if tryRunGoroutines() {
		return c.recv(elem)
	}
	panic(pathAbort{"receive would block", false})
}

// sendReady: can a select's send case on c fire now (thread mode)?
func (c *chanv) sendReady() bool {
	if c == nil {
		return false
	}
	if c.closed {
		return true // fires and panics, as in Go
	}
	if c.cap > 0 {
		return len(c.buf) < c.cap
	}
	return len(c.buf) == 0 && c.recvWaiters > 0
}

func (c *chanv) ready() bool { return c != nil && (len(c.buf) > 0 || c.closed) }

func (c *chanv) close() {
	if c == nil {
		panic(targetPanicStr("close of nil channel"))
	}
	if c.closed {
		panic(targetPanicStr("close of closed channel"))
	}
	journalFn(func() { c.closed = false })
	c.closed = true
	if sch != nil {
		c.closeWake()
	}
}

// copyVal returns a copy of v that shares no mutable aggregate storage with it: cells hold
// structs and arrays by reference to a Go slice that store() updates in place, so a value
// placed into a second cell must get its own storage.
func copyVal(v value) value {
	switch v := v.(type) {
	case structure:
		out := make(structure, len(v))
		for i, e := range v {
			out[i] = copyVal(e)
		}
		return out
	case array:
		out := make(array, len(v))
		for i, e := range v {
			out[i] = copyVal(e)
		}
		return out
	}
	return v
}

func minInt(a, b int) int {
	if a < b {
		return a
	}
	return b
}
