package main

// Process-level parallel exploration: a coordinator owns the work list of decision
// prefixes; each worker process loads the package itself (own SSA, own solver) and runs one
// path per request.

import (
	"bufio"
	"encoding/json"
	"fmt"
	"io"
	"os"
	"os/exec"
	"strconv"
	"sync"
	"time"
)

type workerReq struct {
	Prefix []decision `json:"p,omitempty"`
	Done   bool       `json:"done,omitempty"`
}

type workerResp struct {
	New    [][]decision   `json:"n,omitempty"`
	Ready  bool           `json:"ready,omitempty"`
	Result *harnessResult `json:"result,omitempty"`
	Err    string         `json:"err,omitempty"`
	Init   []string       `json:"init,omitempty"`
}

// cmdWorker: gosmt worker --pkg P --harness DIR --func F --timeout-ms N --seed S --solver z3
func cmdWorker(cfg runConfig) int {
	enc := json.NewEncoder(os.Stdout)
	lh, err := loadHarness(cfg.Pkg, cfg.HarnessDir)
	if lh != nil {
		defer os.RemoveAll(lh.scratch)
	}
	if err != nil {
		enc.Encode(workerResp{Err: err.Error()})
		return 2
	}
	i := newInterpreter(lh)
	solver = NewSolver(cfg.Solver, cfg.TimeoutMs, cfg.Seed)
	defer solver.Close()
	i.ensureInit(lh.pkg)
	fn := lh.pkg.Func(cfg.Funcs[0])
	if fn == nil {
		enc.Encode(workerResp{Err: "harness function not found: " + cfg.Funcs[0]})
		return 2
	}
	name := cfg.Funcs[0]
	start := time.Now()
	hres = &harnessResult{Harness: name, Obligations: map[string]*obligationStat{}, Reach: map[string]map[string]uint64{},
		ReachCount: map[string]int{}, PathsAborted: map[string]int{}, Funcs: map[string]int{}, Natives: map[string]int{}}
	enc.Encode(workerResp{Ready: true})
	in := bufio.NewReaderSize(os.Stdin, 1<<20)
	for {
		line, err := in.ReadBytes('\n')
		if err != nil {
			return 2
		}
		var req workerReq
		if err := json.Unmarshal(line, &req); err != nil {
			enc.Encode(workerResp{Err: "bad request: " + err.Error()})
			return 2
		}
		if req.Done {
			break
		}
		out := runPath(i, fn, req.Prefix)
		accountPath(name, out)
		nw := px.newWork
		px = nil
		enc.Encode(workerResp{New: nw})
	}
	hres.Queries = solver.queries
	hres.SolverTimeS = solver.solveTime.Seconds()
	hres.Unknowns = solver.unknowns
	hres.WallS = time.Since(start).Seconds()
	for k, n := range i.stubUse {
		hres.Stubs = append(hres.Stubs, fmt.Sprintf("%s -> %s (%d calls)", k, lh.stubDoc[k], n))
	}
	enc.Encode(workerResp{Result: hres, Init: initProblems})
	return 0
}

// accountPath folds one path outcome into hres (shared by sequential and worker modes).
func accountPath(name string, out pathOutcome) {
	hres.Paths++
	hres.Steps += int64(px.steps)
	if len(px.trace) > hres.MaxDecisions {
		hres.MaxDecisions = len(px.trace)
	}
	switch out.kind {
	case "ok":
		hres.PathsOK++
	case "abort", "abort-outside-model":
		key := out.detail
		if out.kind == "abort-outside-model" {
			key = "OUTSIDE-MODEL: " + key
		}
		hres.PathsAborted[key]++
	case "panic":
		hres.PathsPanicked++
		tag := "no-panic"
		o := oblig(tag)
		o.Reached++
		o.Violated++
		if o.Violated == 1 {
			solver.Push()
			for _, c := range px.pc {
				solver.Assert(c)
			}
			m := map[string]uint64{}
			if solver.Check() == resSat {
				m = currentModel()
			}
			solver.Pop()
			hres.Violations = append(hres.Violations, violation{Tag: tag, Model: m, Msg: out.detail, Harness: name,
				Trace: append([]decision{}, px.trace...)})
		}
	case "engine":
		msg := out.detail
		if len(hres.EngineErrors) < 5 {
			hres.EngineErrors = append(hres.EngineErrors, msg)
		}
		hres.PathsAborted["ENGINE: "+firstLine(msg)]++
	}
}

type workerProc struct {
	cmd *exec.Cmd
	in  io.WriteCloser
	out *bufio.Reader
	id  int
}

func mergeResult(dst, src *harnessResult) {
	dst.Paths += src.Paths
	dst.PathsOK += src.PathsOK
	dst.PathsPanicked += src.PathsPanicked
	dst.Steps += src.Steps
	dst.Queries += src.Queries
	dst.SolverTimeS += src.SolverTimeS
	dst.Unknowns += src.Unknowns
	if src.MaxDecisions > dst.MaxDecisions {
		dst.MaxDecisions = src.MaxDecisions
	}
	for k, v := range src.PathsAborted {
		dst.PathsAborted[k] += v
	}
	for k, v := range src.Funcs {
		dst.Funcs[k] += v
	}
	for k, v := range src.Natives {
		dst.Natives[k] += v
	}
	for k, v := range src.ReachCount {
		dst.ReachCount[k] += v
	}
	for k, v := range src.Reach {
		if _, ok := dst.Reach[k]; !ok {
			dst.Reach[k] = v
		}
	}
	for k, o := range src.Obligations {
		d := dst.Obligations[k]
		if d == nil {
			d = &obligationStat{}
			dst.Obligations[k] = d
		}
		d.Reached += o.Reached
		d.Trivial += o.Trivial
		d.Discharged += o.Discharged
		d.Violated += o.Violated
		d.Unknown += o.Unknown
	}
	seen := map[string]bool{}
	for _, v := range dst.Violations {
		seen[v.Tag] = true
	}
	for _, v := range src.Violations {
		if !seen[v.Tag] {
			dst.Violations = append(dst.Violations, v)
			seen[v.Tag] = true
		}
	}
	for _, e := range src.EngineErrors {
		if len(dst.EngineErrors) < 5 {
			dst.EngineErrors = append(dst.EngineErrors, e)
		}
	}
	stubs := map[string]bool{}
	for _, s := range dst.Stubs {
		stubs[s] = true
	}
	for _, s := range src.Stubs {
		if !stubs[s] {
			dst.Stubs = append(dst.Stubs, s)
		}
	}
}

// parallelExplore explores harness fn with nWorkers worker processes.
func parallelExplore(cfg runConfig, fn string, nWorkers int, budget time.Duration) (*harnessResult, error) {
	start := time.Now()
	self, _ := os.Executable()
	total := &harnessResult{Harness: fn, Obligations: map[string]*obligationStat{}, Reach: map[string]map[string]uint64{},
		ReachCount: map[string]int{}, PathsAborted: map[string]int{}, Funcs: map[string]int{}, Natives: map[string]int{}}

	var mu sync.Mutex
	cond := sync.NewCond(&mu)
	work := [][]decision{nil}
	busy := 0
	dispatched := 0
	var firstErr error
	truncated := false

	var wg sync.WaitGroup
	results := make([]*harnessResult, nWorkers)
	for w := 0; w < nWorkers; w++ {
		wg.Add(1)
		go func(w int) {
			defer wg.Done()
			cmd := exec.Command(self, "worker", "--pkg", cfg.Pkg, "--harness", cfg.HarnessDir, "--funcs", fn,
				"--timeout-ms", strconv.Itoa(cfg.TimeoutMs), "--seed", strconv.Itoa(cfg.Seed+w), "--solver", cfg.Solver)
			cmd.Stderr = os.Stderr
			stdin, _ := cmd.StdinPipe()
			stdout, _ := cmd.StdoutPipe()
			if err := cmd.Start(); err != nil {
				mu.Lock()
				firstErr = err
				cond.Broadcast()
				mu.Unlock()
				return
			}
			defer cmd.Wait()
			rd := bufio.NewReaderSize(stdout, 1<<20)
			enc := json.NewEncoder(stdin)
			readResp := func() (*workerResp, error) {
				line, err := rd.ReadBytes('\n')
				if err != nil {
					return nil, fmt.Errorf("worker %d died: %v", w, err)
				}
				var r workerResp
				if err := json.Unmarshal(line, &r); err != nil {
					return nil, err
				}
				if r.Err != "" {
					return nil, fmt.Errorf("worker %d: %s", w, r.Err)
				}
				return &r, nil
			}
			fail := func(err error) {
				mu.Lock()
				if firstErr == nil {
					firstErr = err
				}
				cond.Broadcast()
				mu.Unlock()
				cmd.Process.Kill()
			}
			if _, err := readResp(); err != nil { // ready
				fail(err)
				return
			}
			for {
				mu.Lock()
				for len(work) == 0 && busy > 0 && firstErr == nil {
					cond.Wait()
				}
				if firstErr != nil || (len(work) == 0 && busy == 0) {
					cond.Broadcast()
					mu.Unlock()
					break
				}
				if (budget > 0 && time.Since(start) > budget) || dispatched >= maxPaths {
					truncated = true
					work = nil
					cond.Broadcast()
					mu.Unlock()
					break
				}
				p := work[len(work)-1]
				work = work[:len(work)-1]
				busy++
				dispatched++
				mu.Unlock()
				if err := enc.Encode(workerReq{Prefix: p}); err != nil {
					fail(err)
					return
				}
				r, err := readResp()
				if err != nil {
					fail(err)
					return
				}
				mu.Lock()
				busy--
				work = append(work, r.New...)
				cond.Broadcast()
				mu.Unlock()
			}
			enc.Encode(workerReq{Done: true})
			r, err := readResp()
			if err != nil {
				fail(err)
				return
			}
			results[w] = r.Result
			stdin.Close()
		}(w)
	}
	wg.Wait()
	if firstErr != nil {
		return nil, firstErr
	}
	for _, r := range results {
		if r != nil {
			mergeResult(total, r)
		}
	}
	total.Truncated = truncated
	total.WallS = time.Since(start).Seconds()
	return total, nil
}
