package main

// Process-level parallel exploration: a coordinator owns the work list of decision
// prefixes; each worker process loads the package itself (own SSA, own solver) and runs one
// path per request. Workers are started lazily and reused across harness functions of a job.

import (
	"bufio"
	"encoding/json"
	"fmt"
	"io"
	"os"
	"os/exec"
	"strconv"
	"sync"
	"time"

	"golang.org/x/tools/go/ssa"
)

type workerReq struct {
	Func    string     `json:"f,omitempty"`
	Prefix  []decision `json:"p,omitempty"`
	Collect bool       `json:"collect,omitempty"`
	Done    bool       `json:"done,omitempty"`
}

type workerResp struct {
	New    [][]decision   `json:"n,omitempty"`
	Ready  bool           `json:"ready,omitempty"`
	Result *harnessResult `json:"result,omitempty"`
	Err    string         `json:"err,omitempty"`
	Init   []string       `json:"init,omitempty"`
}

func newHarnessResult(name string) *harnessResult {
	return &harnessResult{Harness: name, Obligations: map[string]*obligationStat{}, Reach: map[string]map[string]uint64{},
		ReachCount: map[string]int{}, PathsAborted: map[string]int{}, Funcs: map[string]int{}, Natives: map[string]int{}}
}

// cmdWorker: gosmt worker --pkg P --harness DIR --timeout-ms N --seed S --solver z3
func cmdWorker(cfg runConfig) int {
	enc := json.NewEncoder(os.Stdout)
	lh, err := loadHarness(cfg.Pkg, cfg.HarnessDir)
	if lh != nil {
		defer os.RemoveAll(lh.scratch)
	}
	if err != nil {
		enc.Encode(workerResp{Err: err.Error()})
		return 2
	}
	i := newInterpreter(lh)
	solver = NewSolver(cfg.Solver, cfg.TimeoutMs, cfg.Seed)
	defer solver.Close()
	if cc := os.Getenv("GOSMT_CROSSCHECK"); cc != "" && cc != cfg.Solver {
		newSolver2 = func() *Solver { return NewCappedSolver(cc, crossCheckTimeoutMs(cfg.TimeoutMs), cfg.Seed, 2500) }
		solver2 = newSolver2()
		defer func() { solver2.Close() }()
	}
	i.ensureInit(lh.pkg)
	enc.Encode(workerResp{Ready: true})
	in := bufio.NewReaderSize(os.Stdin, 1<<20)
	var cur string
	var fn *ssa.Function
	var q0, u0, cc0, cu0 int
	var t0 time.Duration
	var start time.Time
	for {
		line, err := in.ReadBytes('\n')
		if err != nil {
			return 2
		}
		var req workerReq
		if err := json.Unmarshal(line, &req); err != nil {
			enc.Encode(workerResp{Err: "bad request: " + err.Error()})
			return 2
		}
		if req.Done {
			return 0
		}
		if req.Collect {
			if hres == nil || cur != req.Func {
				enc.Encode(workerResp{Result: nil})
				continue
			}
			hres.Queries = solver.queries - q0
			hres.SolverTimeS = (solver.solveTime - t0).Seconds()
			hres.Unknowns = solver.unknowns - u0
			hres.WallS = time.Since(start).Seconds()
			hres.CrossChecks, hres.CrossUnknown = crossChecks-cc0, crossUnknown-cu0
			for k, n := range i.stubUse {
				hres.Stubs = append(hres.Stubs, fmt.Sprintf("%s -> %s (%d calls)", k, lh.stubDoc[k], n))
			}
			enc.Encode(workerResp{Result: hres, Init: initProblems})
			hres, cur = nil, ""
			continue
		}
		if cur != req.Func {
			fn = lh.pkg.Func(req.Func)
			if fn == nil {
				enc.Encode(workerResp{Err: "harness function not found: " + req.Func})
				return 2
			}
			cur = req.Func
			hres = newHarnessResult(cur)
			for k := range i.stubUse {
				delete(i.stubUse, k)
			}
			q0, u0, t0, start = solver.queries, solver.unknowns, solver.solveTime, time.Now()
			cc0, cu0 = crossChecks, crossUnknown
			crossTime = 0
		}
		out := runPath(i, fn, req.Prefix)
		accountPath(cur, out)
		nw := px.newWork
		px = nil
		enc.Encode(workerResp{New: nw})
	}
}

// accountPath folds one path outcome into hres (shared by sequential and worker modes).
func accountPath(name string, out pathOutcome) {
	hres.Paths++
	hres.Steps += int64(px.steps)
	if len(px.trace) > hres.MaxDecisions {
		hres.MaxDecisions = len(px.trace)
	}
	switch out.kind {
	case "ok":
		hres.PathsOK++
	case "abort", "abort-outside-model":
		key := out.detail
		if out.kind == "abort-outside-model" {
			key = "OUTSIDE-MODEL: " + key
		}
		hres.PathsAborted[key]++
	case "panic":
		hres.PathsPanicked++
		tag := "no-panic"
		o := oblig(tag)
		o.Reached++
		o.Violated++
		if o.Violated == 1 {
			solver.Push()
			for _, c := range px.pc {
				solver.Assert(c)
			}
			m := map[string]uint64{}
			if solver.Check() == resSat {
				m = currentModel()
			}
			solver.Pop()
			hres.Violations = append(hres.Violations, violation{Tag: tag, Model: m, Msg: out.detail, Harness: name,
				Trace: append([]decision{}, px.trace...)})
		}
	case "engine":
		msg := out.detail
		if len(hres.EngineErrors) < 5 {
			hres.EngineErrors = append(hres.EngineErrors, msg)
		}
		hres.PathsAborted["ENGINE: "+firstLine(msg)]++
	}
}

func mergeResult(dst, src *harnessResult) {
	dst.Paths += src.Paths
	dst.PathsOK += src.PathsOK
	dst.PathsPanicked += src.PathsPanicked
	dst.Steps += src.Steps
	dst.Queries += src.Queries
	dst.SolverTimeS += src.SolverTimeS
	dst.Unknowns += src.Unknowns
	dst.CrossChecks += src.CrossChecks
	dst.CrossUnknown += src.CrossUnknown
	if src.MaxDecisions > dst.MaxDecisions {
		dst.MaxDecisions = src.MaxDecisions
	}
	for k, v := range src.PathsAborted {
		dst.PathsAborted[k] += v
	}
	for k, v := range src.Funcs {
		dst.Funcs[k] += v
	}
	for k, v := range src.Natives {
		dst.Natives[k] += v
	}
	for k, v := range src.ReachCount {
		dst.ReachCount[k] += v
	}
	for k, v := range src.Reach {
		if _, ok := dst.Reach[k]; !ok {
			dst.Reach[k] = v
		}
	}
	for k, o := range src.Obligations {
		d := dst.Obligations[k]
		if d == nil {
			d = &obligationStat{}
			dst.Obligations[k] = d
		}
		d.Reached += o.Reached
		d.Trivial += o.Trivial
		d.Discharged += o.Discharged
		d.Violated += o.Violated
		d.Unknown += o.Unknown
	}
	seen := map[string]bool{}
	for _, v := range dst.Violations {
		seen[v.Tag] = true
	}
	for _, v := range src.Violations {
		if !seen[v.Tag] {
			dst.Violations = append(dst.Violations, v)
			seen[v.Tag] = true
		}
	}
	for _, e := range src.EngineErrors {
		if len(dst.EngineErrors) < 5 {
			dst.EngineErrors = append(dst.EngineErrors, e)
		}
	}
	stubs := map[string]bool{}
	for _, s := range dst.Stubs {
		stubs[s] = true
	}
	for _, s := range src.Stubs {
		if !stubs[s] {
			dst.Stubs = append(dst.Stubs, s)
		}
	}
}

type workerProc struct {
	cmd   *exec.Cmd
	in    io.WriteCloser
	enc   *json.Encoder
	rd    *bufio.Reader
	id    int
	ready bool
}

func (w *workerProc) read() (*workerResp, error) {
	line, err := w.rd.ReadBytes('\n')
	if err != nil {
		return nil, fmt.Errorf("worker %d died: %v", w.id, err)
	}
	var r workerResp
	if err := json.Unmarshal(line, &r); err != nil {
		return nil, err
	}
	if r.Err != "" {
		return nil, fmt.Errorf("worker %d: %s", w.id, r.Err)
	}
	return &r, nil
}

type workerPool struct {
	cfg     runConfig
	max     int
	workers []*workerProc
}

func newPool(cfg runConfig, max int) *workerPool { return &workerPool{cfg: cfg, max: max} }

func (p *workerPool) spawn() (*workerProc, error) {
	self, _ := os.Executable()
	id := len(p.workers)
	cmd := exec.Command(self, "worker", "--pkg", p.cfg.Pkg, "--harness", p.cfg.HarnessDir,
		"--timeout-ms", strconv.Itoa(p.cfg.TimeoutMs), "--seed", strconv.Itoa(p.cfg.Seed+id), "--solver", p.cfg.Solver)
	cmd.Stderr = os.Stderr
	stdin, _ := cmd.StdinPipe()
	stdout, _ := cmd.StdoutPipe()
	if err := cmd.Start(); err != nil {
		return nil, err
	}
	w := &workerProc{cmd: cmd, in: stdin, enc: json.NewEncoder(stdin), rd: bufio.NewReaderSize(stdout, 1<<20), id: id}
	p.workers = append(p.workers, w)
	return w, nil
}

func (p *workerPool) close() {
	for _, w := range p.workers {
		w.enc.Encode(workerReq{Done: true})
		w.in.Close()
		done := make(chan struct{})
		go func() { w.cmd.Wait(); close(done) }()
		select {
		case <-done:
		case <-time.After(3 * time.Second):
			w.cmd.Process.Kill()
		}
	}
	p.workers = nil
}

// explore runs every feasible path of harness fn over the pool.
func (p *workerPool) explore(fn string, budget time.Duration) (*harnessResult, error) {
	start := time.Now()
	total := newHarnessResult(fn)
	var mu sync.Mutex
	cond := sync.NewCond(&mu)
	work := [][]decision{nil}
	busy := 0
	dispatched := 0
	var firstErr error
	truncated := false
	active := 0 // worker goroutines running
	var wg sync.WaitGroup

	fail := func(err error) {
		mu.Lock()
		if firstErr == nil {
			firstErr = err
		}
		cond.Broadcast()
		mu.Unlock()
	}

	var runWorker func(w *workerProc)
	runWorker = func(w *workerProc) {
		defer wg.Done()
		if !w.ready {
			if _, err := w.read(); err != nil {
				fail(err)
				return
			}
			w.ready = true
		}
		for {
			mu.Lock()
			for len(work) == 0 && busy > 0 && firstErr == nil {
				cond.Wait()
			}
			if firstErr != nil || (len(work) == 0 && busy == 0) {
				cond.Broadcast()
				mu.Unlock()
				return
			}
			if (budget > 0 && time.Since(start) > budget) || dispatched >= maxPaths {
				truncated = true
				work = nil
				cond.Broadcast()
				mu.Unlock()
				return
			}
			pfx := work[len(work)-1]
			work = work[:len(work)-1]
			busy++
			dispatched++
			// scale the pool up while there is a backlog
			if len(work) > 2 && active < p.max && len(p.workers) < p.max {
				if nw, err := p.spawn(); err == nil {
					active++
					wg.Add(1)
					go runWorker(nw)
				}
			}
			mu.Unlock()
			if err := w.enc.Encode(workerReq{Func: fn, Prefix: pfx}); err != nil {
				fail(err)
				return
			}
			r, err := w.read()
			if err != nil {
				fail(err)
				return
			}
			mu.Lock()
			busy--
			work = append(work, r.New...)
			cond.Broadcast()
			mu.Unlock()
		}
	}

	mu.Lock()
	if len(p.workers) == 0 {
		if _, err := p.spawn(); err != nil {
			mu.Unlock()
			return nil, err
		}
	}
	for _, w := range p.workers {
		active++
		wg.Add(1)
		go runWorker(w)
	}
	mu.Unlock()
	wg.Wait()
	if firstErr != nil {
		return nil, firstErr
	}
	for _, w := range p.workers {
		if !w.ready {
			continue
		}
		if err := w.enc.Encode(workerReq{Func: fn, Collect: true}); err != nil {
			return nil, err
		}
		r, err := w.read()
		if err != nil {
			return nil, err
		}
		if r.Result != nil {
			mergeResult(total, r.Result)
		}
	}
	total.Truncated = truncated
	total.WallS = time.Since(start).Seconds()
	return total, nil
}
