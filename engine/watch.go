package main

// Two-thread interleaving at shared-access granularity: a harness registers the cells of a
// shared object and an access hook; while the harness entry goroutine ("thread 0") executes,
// every load from a registered cell first runs the hook, which may execute steps of a second
// thread ("thread 1"). With the hook's choices symbolic this yields every sequentially
// consistent interleaving of thread 1's steps with thread 0's reads of the shared object.
// If a hook step needs a lock that thread 0 holds, the step is undone (the write journal is
// rolled back to the hook's start) - the second thread would have blocked.

type hookBlocked struct{}

var (
	watched    = map[*value]bool{}
	watchHook  value
	inHook     bool
	curThread  int
	lockOwner  = map[*value]int{}
	watchReads int
)

func resetWatch() {
	watched = map[*value]bool{}
	watchHook = nil
	inHook = false
	curThread = 0
	lockOwner = map[*value]int{}
	watchReads = 0
}

// onLoad is called by the interpreter before a load through p.
func onLoad(i *interpreter, fr *frame, p *value) {
	if watchHook == nil || inHook || !watched[p] {
		return
	}
	watchReads++
	inHook = true
	curThread = 1
	markJ, markF := len(journal), len(journalFns)
	func() {
		defer func() {
			inHook = false
			curThread = 0
			if r := recover(); r != nil {
				if _, ok := r.(hookBlocked); ok {
					rollbackTo(markJ, markF)
					return
				}
				panic(r)
			}
		}()
		call(i, fr, 0, watchHook, nil)
	}()
}

func rollbackTo(nj, nf int) {
	for k := len(journalFns) - 1; k >= nf; k-- {
		journalFns[k]()
	}
	journalFns = journalFns[:nf]
	for k := len(journal) - 1; k >= nj; k-- {
		*journal[k].addr = journal[k].old
	}
	journal = journal[:nj]
}
