// Copyright 2013 The Go Authors. All rights reserved.
// Use of this source code is governed by a BSD-style
// license that can be found in the LICENSE file (LICENSE.x-tools).
//
// Derived from golang.org/x/tools/go/ssa/interp (v0.29.0): the SSA interpreter
// extended into a symbolic executor. Differences from upstream: symbolic scalars
// and strings, guarded pointers for symbolic indices, path forking through
// explore.go, lazy package initialisation, stubs / native models, modelled
// channels and goroutines (recorded, not run), explicit run-time checks.

package main

import (
	"fmt"
	"go/token"
	"go/types"
	"os"
	"runtime"
	"slices"
	"strings"

	"golang.org/x/tools/go/ssa"
)

type continuation int

const (
	kNext continuation = iota
	kReturn
	kJump
)

type spawnRec struct {
	fn   string
	args []value
	fv   value
}

// State of the interpreter.
type interpreter struct {
	prog               *ssa.Program
	globals            map[*ssa.Global]*value // addresses of global variables (immutable)
	runtimeErrorString types.Type             // the runtime.errorString type
	sizes              types.Sizes
	inited             map[*ssa.Package]bool
	initDepth          int
	stubs              map[string]*ssa.Function // function name -> harness stub
	stubUse            map[string]int
	spawned            []spawnRec
	schedOn            bool // run recorded goroutines when the current one blocks (opt-in per harness)
	schedFrom          int  // only goroutines spawned at or after this index
	nextGo             int
	trace              bool
	callDepth          int
}

type deferred struct {
	fn    value
	args  []value
	instr *ssa.Defer
	tail  *deferred
}

type frame struct {
	i                *interpreter
	caller           *frame
	fn               *ssa.Function
	block, prevBlock *ssa.BasicBlock
	env              map[ssa.Value]value // dynamic values of SSA variables
	locals           []value
	defers           *deferred
	result           value
	panicking        bool
	panic            interface{}
	phitemps         []value // temporaries for parallel phi assignment
	isInit           bool
	curInstr         ssa.Instruction
}

func (fr *frame) get(key ssa.Value) value {
	switch key := key.(type) {
	case nil:
		// Hack; simplifies handling of optional attributes
		// such as ssa.Slice.{Low,High}.
		return nil
	case *ssa.Function, *ssa.Builtin:
		return key
	case *ssa.Const:
		return constValue(key)
	case *ssa.Global:
		if r, ok := fr.i.globals[key]; ok {
			fr.i.ensureInit(key.Pkg)
			return r
		}
		return fr.i.globalCell(key)
	}
	if r, ok := fr.env[key]; ok {
		return r
	}
	panic(engineErr(fmt.Sprintf("get: no value for %T: %v", key, key.Name())))
}

func (i *interpreter) globalCell(g *ssa.Global) *value {
	if r, ok := i.globals[g]; ok {
		return r
	}
	cell := zero(mustDeref(g.Type()))
	i.globals[g] = &cell
	i.ensureInit(g.Pkg)
	return &cell
}

// ensureInit runs the package initializer of pkg on first use (lazily, concretely).
func (i *interpreter) ensureInit(pkg *ssa.Package) {
	if pkg == nil || i.inited[pkg] {
		return
	}
	i.inited[pkg] = true
	if noInitPkgs[pkg.Pkg.Path()] && !forceInitPkgs[pkg.Pkg.Path()] {
		return
	}
	pkg.Build()
	for _, m := range pkg.Members {
		if g, ok := m.(*ssa.Global); ok {
			if _, ok := i.globals[g]; !ok {
				cell := zero(mustDeref(g.Type()))
				i.globals[g] = &cell
			}
		}
	}
	init := pkg.Func("init")
	if init == nil || init.Blocks == nil {
		return
	}
	savedPx, savedJ := px, journalOn
	px, journalOn = nil, false
	i.initDepth++
	defer func() {
		i.initDepth--
		px, journalOn = savedPx, savedJ
		if r := recover(); r != nil {
			if os.Getenv("GOSMT_INITDEBUG") != "" {
				fmt.Fprintf(os.Stderr, "gosmt: init of %s stopped: %v\n", pkg.Pkg.Path(), r)
			}
			initProblems = append(initProblems, fmt.Sprintf("%s: %v", pkg.Pkg.Path(), r))
		}
	}()
	callSSA(i, nil, token.NoPos, init, nil, nil)
}

var initProblems []string

// packages whose initializers are never run (their functions are modelled natively or unused)
// forceInitPkgs: packages a harness directory asked to have initialised ("//verif:init").
var forceInitPkgs = map[string]bool{}

var noInitPkgs = map[string]bool{
	"errors": true, "runtime": true, "os": true, "syscall": true, "net": true, "reflect": true,
	"internal/reflectlite": true, "sync": true, "sync/atomic": true, "internal/cpu": true,
	"internal/poll": true, "internal/godebug": true, "crypto/tls": true, "net/http": true, "log": true,
	"fmt": true, "crypto/md5": true, "crypto/sha256": true, "crypto": true, "math/rand": true,
	"internal/bytealg": true, "unsafe": true, "testing": true, "crypto/x509": true,
	"github.com/prometheus/client_golang/prometheus":          true,
	"github.com/prometheus/client_golang/prometheus/promauto": true,
	"golang.org/x/net/http2":                                  true,
}

// runDefer runs a deferred call d.
// It always returns normally, but may set or clear fr.panic.
func (fr *frame) runDefer(d *deferred) {
	var ok bool
	defer func() {
		if !ok {
			// Deferred call created a new state of panic.
			r := recover()
			if isEnginePanic(r) {
				panic(r)
			}
			fr.panicking = true
			fr.panic = normalizePanic(fr.i, r)
		}
	}()
	call(fr.i, fr, d.instr.Pos(), d.fn, d.args)
	ok = true
}

// isEnginePanic reports whether r must propagate through the target program's
// defer/recover machinery untouched.
var dbgFrame *frame

func dbgWhere() string {
	fr := dbgFrame
	if fr == nil || fr.curInstr == nil {
		return "?"
	}
	return fmt.Sprintf("%s [%s] at %s", fr.fn, fr.curInstr, fr.fn.Prog.Fset.Position(fr.curInstr.Pos()))
}

func isEnginePanic(r interface{}) bool {
	switch r.(type) {
	case engineError, pathAbort, goroutinePanic, threadKilled:
		return true
	case *runtime.TypeAssertionError:
		return true
	}
	return false
}

func normalizePanic(i *interpreter, r interface{}) interface{} {
	switch r := r.(type) {
	case targetPanic:
		return r
	case runtime.Error:
		return targetPanic{iface{i.runtimeErrorString, "runtime error: " + strings.TrimPrefix(r.Error(), "runtime error: ")}}
	case string:
		return targetPanic{iface{i.runtimeErrorString, r}}
	}
	return r
}

func targetPanicStr(s string) targetPanic {
	return targetPanic{iface{theInterp.runtimeErrorString, s}}
}

var theInterp *interpreter

// runDefers executes fr's deferred function calls in LIFO order.
//
// On entry, fr.panicking indicates a state of panic; if
// true, fr.panic contains the panic value.
//
// On completion, if a deferred call started a panic, or if no
// deferred call recovered from a previous state of panic, then
// runDefers itself panics after the last deferred call has run.
//
// If there was no initial state of panic, or it was recovered from,
// runDefers returns normally.
func (fr *frame) runDefers() {
	for d := fr.defers; d != nil; d = d.tail {
		fr.runDefer(d)
	}
	fr.defers = nil
	if fr.panicking {
		panic(fr.panic) // new panic, or still panicking
	}
}

// lookupMethod returns the method set for type typ.
func lookupMethod(i *interpreter, typ types.Type, meth *types.Func) *ssa.Function {
	return i.prog.LookupMethod(typ, meth.Pkg(), meth.Name())
}

func asPtr(p value) value {
	switch p.(type) {
	case *value, symptr:
		return p
	}
	panic(engineErr(fmt.Sprintf("expected pointer, have %T", p)))
}

// visitInstr interprets a single ssa.Instruction within the activation
// record frame.  It returns a continuation value indicating where to
// read the next instruction from.
func visitInstr(fr *frame, instr ssa.Instruction) continuation {
	switch instr := instr.(type) {
	case *ssa.DebugRef:
		// no-op

	case *ssa.UnOp:
		fr.env[instr] = unop(instr, fr.get(instr.X))

	case *ssa.BinOp:
		fr.env[instr] = binop(instr.Op, instr.X.Type(), fr.get(instr.X), fr.get(instr.Y))

	case *ssa.Call:
		fn, args := prepareCall(fr, &instr.Call)
		fr.env[instr] = call(fr.i, fr, instr.Pos(), fn, args)

	case *ssa.ChangeInterface:
		fr.env[instr] = fr.get(instr.X)

	case *ssa.ChangeType:
		fr.env[instr] = fr.get(instr.X) // (can't fail)

	case *ssa.Convert:
		fr.env[instr] = conv(instr.Type(), instr.X.Type(), fr.get(instr.X))

	case *ssa.SliceToArrayPointer:
		fr.env[instr] = sliceToArrayPointer(instr.Type(), instr.X.Type(), fr.get(instr.X))

	case *ssa.MakeInterface:
		fr.env[instr] = iface{t: instr.X.Type(), v: fr.get(instr.X)}

	case *ssa.Extract:
		fr.env[instr] = fr.get(instr.Tuple).(tuple)[instr.Index]

	case *ssa.Slice:
		fr.env[instr] = slice(fr.get(instr.X), fr.get(instr.Low), fr.get(instr.High), fr.get(instr.Max))

	case *ssa.Return:
		switch len(instr.Results) {
		case 0:
		case 1:
			fr.result = fr.get(instr.Results[0])
		default:
			var res []value
			for _, r := range instr.Results {
				res = append(res, fr.get(r))
			}
			fr.result = tuple(res)
		}
		fr.block = nil
		return kReturn

	case *ssa.RunDefers:
		fr.runDefers()

	case *ssa.Panic:
		panic(targetPanic{fr.get(instr.X)})

	case *ssa.Send:
		fr.get(instr.Chan).(*chanv).send(fr.get(instr.X))

	case *ssa.Store:
		storePtr(mustDeref(instr.Addr.Type()), asPtr(fr.get(instr.Addr)), fr.get(instr.Val))

	case *ssa.If:
		succ := 1
		if decideVal(fr.get(instr.Cond)) {
			succ = 0
		}
		fr.prevBlock, fr.block = fr.block, fr.block.Succs[succ]
		return kJump

	case *ssa.Jump:
		fr.prevBlock, fr.block = fr.block, fr.block.Succs[0]
		return kJump

	case *ssa.Defer:
		fn, args := prepareCall(fr, &instr.Call)
		defers := &fr.defers
		if into := fr.get(instr.DeferStack); into != nil {
			defers = into.(**deferred)
		}
		*defers = &deferred{
			fn:    fn,
			args:  args,
			instr: instr,
			tail:  *defers,
		}

	case *ssa.Go:
		// goroutines are not run: the spawn is recorded so harnesses can assert on it
		fn, args := prepareCall(fr, &instr.Call)
		name := "?"
		switch f := fn.(type) {
		case *ssa.Function:
			name = f.String()
		case *closure:
			name = f.Fn.String()
		}
		old := fr.i.spawned
		fr.i.spawned = append(old[:len(old):len(old)], spawnRec{name, args, fn})
		if sch != nil {
			sch.spawn(name, fn, args)
		}

	case *ssa.MakeChan:
		fr.env[instr] = makeChan(int(asInt64(fr.get(instr.Size))))

	case *ssa.Alloc:
		var addr *value
		if instr.Heap {
			// new
			addr = new(value)
			fr.env[instr] = addr
		} else {
			// local
			addr = fr.env[instr].(*value)
		}
		*addr = zero(mustDeref(instr.Type()))

	case *ssa.MakeSlice:
		c := asInt64(fr.get(instr.Cap))
		l := asInt64(fr.get(instr.Len))
		if l < 0 || c < l {
			panic(targetPanicStr("runtime error: makeslice: len out of range"))
		}
		if c > 1<<24 {
			panic(pathAbort{fmt.Sprintf("make of %d elements exceeds the engine's allocation bound", c), true})
		}
		slice := make([]value, c)
		tElt := instr.Type().Underlying().(*types.Slice).Elem()
		for i := range slice {
			slice[i] = zero(tElt)
		}
		fr.env[instr] = slice[:l]

	case *ssa.MakeMap:
		fr.env[instr] = makeMap(instr.Type().Underlying().(*types.Map))

	case *ssa.Range:
		fr.env[instr] = rangeIter(fr.get(instr.X), instr.X.Type())

	case *ssa.Next:
		fr.env[instr] = fr.get(instr.Iter).(iter).next()

	case *ssa.FieldAddr:
		switch p := fr.get(instr.X).(type) {
		case *value:
			fr.env[instr] = &(*p).(structure)[instr.Field]
		case symptr:
			out := symptr{guards: p.guards}
			for _, c := range p.cells {
				out.cells = append(out.cells, &(*c).(structure)[instr.Field])
			}
			fr.env[instr] = out
		default:
			panic(engineErr(fmt.Sprintf("FieldAddr of %T", p)))
		}

	case *ssa.Field:
		fr.env[instr] = fr.get(instr.X).(structure)[instr.Field]

	case *ssa.IndexAddr:
		x := fr.get(instr.X)
		idx := fr.get(instr.Index)
		var cells []value
		switch x := x.(type) {
		case []value:
			cells = x
		case *value: // *array
			cells = (*x).(array)
		default:
			panic(engineErr(fmt.Sprintf("unexpected x type in IndexAddr: %T", x)))
		}
		if si, ok := idx.(sv); ok {
			fr.env[instr] = symIndexAddr(cells, si)
		} else {
			i := asInt64(idx)
			if i < 0 || i >= int64(len(cells)) {
				panic(targetPanicStr(fmt.Sprintf("runtime error: index out of range [%d] with length %d", i, len(cells))))
			}
			fr.env[instr] = &cells[i]
		}

	case *ssa.Index:
		x := fr.get(instr.X)
		idx := fr.get(instr.Index)
		var cells []value
		var elemT types.Type
		switch x := x.(type) {
		case array:
			cells = x
			elemT = instr.X.Type().Underlying().(*types.Array).Elem()
		case string, symstr:
			cells = strCells(x)
			elemT = types.Typ[types.Uint8]
		default:
			panic(engineErr(fmt.Sprintf("unexpected x type in Index: %T", x)))
		}
		if si, ok := idx.(sv); ok {
			fr.env[instr] = loadPtr(elemT, symIndexAddr(cells, si))
		} else {
			i := asInt64(idx)
			if i < 0 || i >= int64(len(cells)) {
				panic(targetPanicStr(fmt.Sprintf("runtime error: index out of range [%d] with length %d", i, len(cells))))
			}
			fr.env[instr] = cells[i]
		}

	case *ssa.Lookup:
		x := fr.get(instr.X)
		switch x.(type) {
		case string, symstr:
			// string indexing through Lookup (s[i] in non-addressable context)
			cells := strCells(x)
			idx := fr.get(instr.Index)
			if si, ok := idx.(sv); ok {
				fr.env[instr] = loadPtr(types.Typ[types.Uint8], symIndexAddr(cells, si))
			} else {
				i := asInt64(idx)
				if i < 0 || i >= int64(len(cells)) {
					panic(targetPanicStr(fmt.Sprintf("runtime error: index out of range [%d] with length %d", i, len(cells))))
				}
				fr.env[instr] = cells[i]
			}
		default:
			fr.env[instr] = lookup(instr, x, fr.get(instr.Index))
		}

	case *ssa.MapUpdate:
		m := fr.get(instr.Map)
		key := fr.get(instr.Key)
		v := fr.get(instr.Value)
		m.(*smap).insert(key, v)

	case *ssa.TypeAssert:
		fr.env[instr] = typeAssert(fr.i, instr, fr.get(instr.X).(iface))

	case *ssa.MakeClosure:
		var bindings []value
		for _, binding := range instr.Bindings {
			bindings = append(bindings, fr.get(binding))
		}
		fr.env[instr] = &closure{instr.Fn.(*ssa.Function), bindings}

	case *ssa.Phi:
		panic(engineErr("unreachable: phi")) // phis are processed at block entry

	case *ssa.Select:
		// modelled channels: the first ready case in source order wins; otherwise default;
		// a blocking select with nothing ready ends the path ("would block").
		var chosen int
		var recv value
		recvOk := false
		if sch != nil {
			// thread mode: threadchan.go
			cases := make([]selCase, len(instr.States))
			for i, st := range instr.States {
				ch := fr.get(st.Chan).(*chanv)
				cases[i] = selCase{ch: ch, send: st.Dir != types.RecvOnly, elem: st.Chan.Type().Underlying().(*types.Chan).Elem()}
				if cases[i].send {
					cases[i].val = fr.get(st.Send)
				}
			}
			chosen, recv, recvOk = selectT(cases, instr.Blocking)
		} else {
			chosen = -1
			for i, st := range instr.States {
				ch := fr.get(st.Chan).(*chanv)
				if st.Dir == types.RecvOnly {
					if ch.ready() {
						chosen = i
						break
					}
				} else if ch != nil {
					chosen = i
					break
				}
			}
			if chosen < 0 && instr.Blocking {
				if tryRunGoroutines() {
					return visitInstr(fr, instr)
				}
				panic(pathAbort{"select would block", false})
			}
			if chosen >= 0 {
				st := instr.States[chosen]
				ch := fr.get(st.Chan).(*chanv)
				if st.Dir == types.RecvOnly {
					recv, recvOk = ch.recv(st.Chan.Type().Underlying().(*types.Chan).Elem())
				} else {
					ch.send(fr.get(st.Send))
				}
			}
		}
		r := tuple{chosen, recvOk}
		for i, st := range instr.States {
			if st.Dir == types.RecvOnly {
				var v value
				if i == chosen && recvOk {
					v = recv
				} else {
					v = zero(st.Chan.Type().Underlying().(*types.Chan).Elem())
				}
				r = append(r, v)
			}
		}
		fr.env[instr] = r

	default:
		panic(engineErr(fmt.Sprintf("unexpected instruction: %T", instr)))
	}

	return kNext
}

// symIndexAddr returns a guarded pointer to cells[idx] for symbolic idx, forking once on
// the bounds check (out of range => run-time panic path).
func symIndexAddr(cells []value, idx sv) value {
	w, signed := kindInfo(idx.k)
	n := len(cells)
	var inRange *Term
	if signed {
		inRange = mkCmp(opSle, mkBV(w, 0), idx.t)
		if w == 64 || uint64(n) <= mask(w-1) { // otherwise every non-negative value of the type is in range
			inRange = mkAnd(inRange, mkCmp(opSlt, idx.t, mkBV(w, uint64(n))))
		}
	} else if w == 64 || uint64(n) <= mask(w) {
		inRange = mkCmp(opUlt, idx.t, mkBV(w, uint64(n)))
	} else {
		inRange = termTrue // the index type cannot express an out-of-range value
	}
	if !decide(inRange) {
		panic(targetPanicStr(fmt.Sprintf("runtime error: index out of range [symbolic] with length %d", n)))
	}
	p := symptr{}
	rlo, rhi, rok := urange(idx.t)
	for i := 0; i < n; i++ {
		if rok && (uint64(i) < rlo || uint64(i) > rhi) {
			continue // outside the cheaply known range of the index
		}
		g := mkEq(idx.t, mkBV(w, uint64(i)))
		if g.isFalse() {
			continue
		}
		if g.isTrue() {
			return &cells[i]
		}
		p.cells = append(p.cells, &cells[i])
		p.guards = append(p.guards, g)
	}
	if len(p.cells) == 1 {
		return p.cells[0]
	}
	if len(p.cells) == 0 {
		panic(pathAbort{"infeasible", false})
	}
	return p
}

// prepareCall determines the function value and argument values for a
// function call in a Call, Go or Defer instruction, performing
// interface method lookup if needed.
func prepareCall(fr *frame, call *ssa.CallCommon) (fn value, args []value) {
	v := fr.get(call.Value)
	if call.Method == nil {
		// Function call.
		fn = v
	} else {
		// Interface method invocation.
		recv := v.(iface)
		if recv.t == nil {
			panic(targetPanicStr("runtime error: invalid memory address or nil pointer dereference (method invoked on nil interface)"))
		}
		if f := lookupMethod(fr.i, recv.t, call.Method); f == nil {
			// Unreachable in well-typed programs.
			panic(engineErr(fmt.Sprintf("method set for dynamic type %v does not contain %s", recv.t, call.Method)))
		} else {
			fn = f
		}
		args = append(args, recv.v)
	}
	for _, arg := range call.Args {
		args = append(args, fr.get(arg))
	}
	return
}

// call interprets a call to a function (function, builtin or closure)
// fn with arguments args, returning its result.
// callpos is the position of the callsite.
func call(i *interpreter, caller *frame, callpos token.Pos, fn value, args []value) value {
	switch fn := fn.(type) {
	case *ssa.Function:
		if fn == nil {
			panic(targetPanicStr("runtime error: invalid memory address or nil pointer dereference (call of nil func)"))
		}
		return callSSA(i, caller, callpos, fn, args, nil)
	case *closure:
		return callSSA(i, caller, callpos, fn.Fn, args, fn.Env)
	case *ssa.Builtin:
		return callBuiltin(caller, callpos, fn, args)
	}
	panic(engineErr(fmt.Sprintf("cannot call %T", fn)))
}

func loc(fset *token.FileSet, pos token.Pos) string {
	if pos == token.NoPos {
		return ""
	}
	return " at " + fset.Position(pos).String()
}

// callSSA interprets a call to function fn with arguments args,
// and lexical environment env, returning its result.
// callpos is the position of the callsite.
func callSSA(i *interpreter, caller *frame, callpos token.Pos, fn *ssa.Function, args []value, env []value) value {
	fr := &frame{
		i:      i,
		caller: caller, // for panic/recover
		fn:     fn,
	}
	name := fn.String()
	if i.trace {
		fmt.Fprintf(os.Stderr, "%*sEntering %s\n", i.callDepth, "", name)
	}
	if fn.Parent() == nil {
		if caller != nil && caller.isInit && fn.Name() == "init" && fn.Synthetic != "" && fn.Pkg != nil && fn.Pkg != caller.fn.Pkg {
			return nil // dependency initialisers run lazily on first use
		}
		if stub := i.stubs[name]; stub != nil && (caller == nil || !within(caller, stub)) {
			i.stubUse[name]++
			return callSSA(i, caller, callpos, stub, args, nil)
		}
		if fn.Blocks == nil && len(fn.Name()) > 1 && fn.Name()[0] == 'v' {
			if in := intrinsics[fn.Name()]; in != nil {
				return in(fr, args)
			}
		}
		if nat := lookupNative(name); nat != nil {
			if hres != nil {
				hres.Natives[name]++
			}
			return nat(fr, args)
		}
		if fn.Pkg != nil {
			i.ensureInit(fn.Pkg)
		}
		if fn.Blocks == nil && fn.Pkg != nil {
			fn.Pkg.Build()
		}
		if fn.Blocks == nil {
			if i.initDepth > 0 {
				// lenient during lazy initialisation: unknown externals yield zero values
				return zero(fn.Signature.Results())
			}
			panic(engineErr("no code for function: " + name))
		}
	}
	if fn.Synthetic == "package initializer" {
		fr.isInit = true
	}

	// generic function body?
	if fn.TypeParams().Len() > 0 && len(fn.TypeArgs()) == 0 {
		panic(engineErr("interp requires ssa.BuilderMode to include InstantiateGenerics to execute generics"))
	}
	if hres != nil && i.initDepth == 0 {
		hres.Funcs[name]++
	}
	i.callDepth++
	if i.callDepth > 3000 {
		panic(pathAbort{"call depth bound exceeded", true})
	}
	defer func() { i.callDepth-- }()

	fr.env = make(map[ssa.Value]value)
	fr.block = fn.Blocks[0]
	fr.locals = make([]value, len(fn.Locals))
	for i, l := range fn.Locals {
		fr.locals[i] = zero(mustDeref(l.Type()))
		fr.env[l] = &fr.locals[i]
	}
	for i, p := range fn.Params {
		fr.env[p] = args[i]
	}
	for i, fv := range fn.FreeVars {
		fr.env[fv] = env[i]
	}
	for fr.block != nil {
		runFrame(fr)
	}
	return fr.result
}

// within reports whether the stub itself is on the call stack (a stub may call the
// function it replaces to delegate to the real implementation).
func within(fr *frame, stub *ssa.Function) bool {
	for f := fr; f != nil; f = f.caller {
		if f.fn == stub {
			return true
		}
	}
	return false
}

// runFrame executes SSA instructions starting at fr.block and
// continuing until a return, a panic, or a recovered panic.
//
// After a panic, runFrame panics.
//
// After a normal return, fr.result contains the result of the call
// and fr.block is nil.
//
// A recovered panic in a function without named return parameters
// (NRPs) becomes a normal return of the zero value of the function's
// result type.
//
// After a recovered panic in a function with NRPs, fr.result is
// undefined and fr.block contains the block at which to resume
// control.
func runFrame(fr *frame) {
	defer func() {
		if fr.block == nil {
			return // normal return
		}
		r := recover()
		if isEnginePanic(r) {
			if ta, ok := r.(*runtime.TypeAssertionError); ok {
				buf := make([]byte, 4096)
				buf = buf[:runtime.Stack(buf, false)]
				panic(engineErr(fmt.Sprintf("unsupported value in %s: %v\n%s", fr.fn, ta, buf)))
			}
			if ee, ok := r.(engineError); ok && !strings.Contains(ee.msg, "\n  in ") {
				pos := ""
				if fr.curInstr != nil {
					pos = fmt.Sprintf(" [%s] at %s", fr.curInstr, fr.fn.Prog.Fset.Position(fr.curInstr.Pos()))
				}
				panic(engineErr(ee.msg + "\n  in " + fr.fn.String() + pos))
			}
			panic(r)
		}
		if fr.i.initDepth > 0 && fr.isInit {
			panic(r)
		}
		fr.panicking = true
		fr.panic = normalizePanic(fr.i, r)
		if _, ok := fr.panic.(targetPanic); !ok {
			panic(engineErr(fmt.Sprintf("host panic in %s: %v", fr.fn, r)))
		}
		fr.runDefers()
		fr.block = fr.fn.Recover
		if fr.block == nil {
			// recovered in a function without named results: return zero values
			fr.result = zero(fr.fn.Signature.Results())
		}
	}()

	for {
		if fr.i.trace {
			fmt.Fprintf(os.Stderr, "%*s.%s:\n", fr.i.callDepth, "", fr.block)
		}
		nonPhis := executePhis(fr)
		for _, instr := range nonPhis {
			if px != nil {
				px.steps++
				if px.steps > maxStepsPerPath {
					panic(pathAbort{"instruction bound exceeded (unwinding failure)", true})
				}
			}
			if fr.i.trace {
				if v, ok := instr.(ssa.Value); ok {
					fmt.Fprintln(os.Stderr, "\t", v.Name(), "=", instr)
				} else {
					fmt.Fprintln(os.Stderr, "\t", instr)
				}
			}
			fr.curInstr = instr
			dbgFrame = fr
			if visitInstr(fr, instr) == kReturn {
				return
			}
			// Inv: kNext (continue) or kJump (last instr)
		}
	}
}

// executePhis executes the phi-nodes at the start of the current
// block and returns the non-phi instructions.
func executePhis(fr *frame) []ssa.Instruction {
	firstNonPhi := -1
	for i, instr := range fr.block.Instrs {
		if _, ok := instr.(*ssa.Phi); !ok {
			firstNonPhi = i
			break
		}
	}
	// Inv: 0 <= firstNonPhi; every block contains a non-phi.

	nonPhis := fr.block.Instrs[firstNonPhi:]
	if firstNonPhi > 0 {
		phis := fr.block.Instrs[:firstNonPhi]
		// Execute parallel assignment of phis.
		predIndex := slices.Index(fr.block.Preds, fr.prevBlock)
		fr.phitemps = fr.phitemps[:0]
		for _, phi := range phis {
			phi := phi.(*ssa.Phi)
			fr.phitemps = append(fr.phitemps, fr.get(phi.Edges[predIndex]))
		}
		for i, phi := range phis {
			fr.env[phi.(*ssa.Phi)] = fr.phitemps[i]
		}
	}
	return nonPhis
}

// doRecover implements the recover() built-in.
func doRecover(caller *frame) value {
	// recover() must be exactly one level beneath the deferred
	// function (two levels beneath the panicking function) to
	// have any effect.  Thus we ignore both "defer recover()" and
	// "defer f() -> g() -> recover()".
	if caller != nil && !caller.panicking &&
		caller.caller != nil && caller.caller.panicking {
		caller.caller.panicking = false
		p := caller.caller.panic
		caller.caller.panic = nil

		switch p := p.(type) {
		case targetPanic:
			// The target program explicitly called panic().
			return p.v
		default:
			panic(engineErr(fmt.Sprintf("unexpected panic type %T in target call to recover()", p)))
		}
	}
	return iface{}
}

// goroutinePanic: a panic left a goroutine other than the one running the harness entry; no
// recover of the main goroutine can stop it, so it passes through the target's defer machinery.
type goroutinePanic struct{ msg string }

// tryRunGoroutines runs, to completion or until they block, the goroutines recorded since the
// harness enabled scheduling. Reports whether any ran.
func tryRunGoroutines() bool {
	i := theInterp
	if i == nil || !i.schedOn {
		return false
	}
	ran := false
	for i.nextGo < len(i.spawned) {
		s := i.spawned[i.nextGo]
		i.nextGo++
		if i.nextGo-1 < i.schedFrom {
			continue
		}
		ran = true
		runGoroutine(i, s)
	}
	return ran
}

func runGoroutine(i *interpreter, s spawnRec) {
	defer func() {
		r := recover()
		if r == nil {
			return
		}
		if pa, ok := r.(pathAbort); ok && !pa.outsideModel && strings.Contains(pa.reason, "block") {
			return // the goroutine is parked forever; others go on
		}
		if isEnginePanic(r) {
			panic(r)
		}
		if tp, ok := normalizePanic(i, r).(targetPanic); ok {
			panic(goroutinePanic{"panic on goroutine " + s.fn + ": " + panicString(tp)})
		}
		panic(r)
	}()
	call(i, nil, token.NoPos, s.fv, s.args)
}
