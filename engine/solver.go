package main

// One long-lived solver process (z3 -in / z3-new -in / cvc5 --incremental), SMT-LIB2 text protocol.

import (
	"bufio"
	"fmt"
	"io"
	"os"
	"os/exec"
	"strconv"
	"strings"
	"time"
)

type Solver struct {
	name    string
	cmd     *exec.Cmd
	in      io.WriteCloser
	out     *bufio.Reader
	defined []map[int]bool // stack of scopes: term ids defined/declared
	log     io.Writer

	queries   int
	solveTime time.Duration
	timeoutMs int
	unknowns  int
}

func solverArgv(name string, seed int) []string {
	switch name {
	case "z3":
		return []string{"z3", "-in", "-smt2"}
	case "z3-new":
		return []string{"z3-new", "-in", "-smt2"}
	case "cvc5":
		return []string{"cvc5", "--incremental", "--lang=smt2", "--produce-models"}
	}
	panic("unknown solver " + name)
}

// NewCappedSolver is NewSolver with a memory cap in MB (z3 only): beyond it the process gives up.
func NewCappedSolver(name string, timeoutMs int, seed int, memMB int) *Solver {
	solverMemMB = memMB
	defer func() { solverMemMB = 0 }()
	return NewSolver(name, timeoutMs, seed)
}

var solverMemMB int

func NewSolver(name string, timeoutMs int, seed int) *Solver {
	argv := solverArgv(name, seed)
	if solverMemMB > 0 && name != "cvc5" {
		argv = append(argv, fmt.Sprintf("-memory:%d", solverMemMB))
	}
	cmd := exec.Command(argv[0], argv[1:]...)
	in, _ := cmd.StdinPipe()
	outp, _ := cmd.StdoutPipe()
	cmd.Stderr = os.Stderr
	if err := cmd.Start(); err != nil {
		panic(engineErr("cannot start solver: " + err.Error()))
	}
	s := &Solver{name: name, cmd: cmd, in: in, out: bufio.NewReaderSize(outp, 1<<20), timeoutMs: timeoutMs}
	s.defined = []map[int]bool{{}}
	if f := os.Getenv("GOSMT_SMTLOG"); f != "" {
		w, _ := os.Create(f + "." + strconv.Itoa(os.Getpid()) + "." + name)
		s.log = w
	}
	s.send("(set-option :produce-models true)")
	if name != "cvc5" {
		s.send(fmt.Sprintf("(set-option :timeout %d)", timeoutMs))
		s.send(fmt.Sprintf("(set-option :random-seed %d)", seed&0x7fffffff))
	} else {
		s.send(fmt.Sprintf("(set-option :tlimit-per %d)", timeoutMs))
		s.send("(set-logic QF_BV)")
	}
	return s
}

func (s *Solver) Close() {
	s.in.Close()
	s.cmd.Process.Kill()
	s.cmd.Wait()
}

func (s *Solver) send(line string) {
	if s.log != nil {
		fmt.Fprintln(s.log, line)
	}
	io.WriteString(s.in, line)
	io.WriteString(s.in, "\n")
}

func (s *Solver) readLine() string {
	l, err := s.out.ReadString('\n')
	if err != nil {
		panic(engineErr("solver died: " + err.Error()))
	}
	l = strings.TrimSpace(l)
	if s.log != nil {
		fmt.Fprintln(s.log, "; -> "+l)
	}
	return l
}

func (s *Solver) Push() {
	s.send("(push 1)")
	s.defined = append(s.defined, map[int]bool{})
}

func (s *Solver) Pop() {
	s.send("(pop 1)")
	s.defined = s.defined[:len(s.defined)-1]
}

func (s *Solver) isDefined(id int) bool {
	for _, m := range s.defined {
		if m[id] {
			return true
		}
	}
	return false
}

// ref returns the SMT-LIB text that denotes t, emitting definitions as needed.
func (s *Solver) ref(t *Term) string {
	switch t.op {
	case opConst:
		return constStr(t)
	case opVar:
		if !s.isDefined(t.id) {
			s.send(fmt.Sprintf("(declare-const |%s| %s)", t.name, sortStr(t.sort)))
			s.defined[len(s.defined)-1][t.id] = true
		}
		return "|" + t.name + "|"
	}
	if s.isDefined(t.id) {
		return "t" + strconv.Itoa(t.id)
	}
	// iterative post-order to avoid deep recursion on long chains
	type fr struct {
		t *Term
		i int
	}
	stack := []fr{{t, 0}}
	for len(stack) > 0 {
		top := &stack[len(stack)-1]
		if top.i < len(top.t.args) {
			a := top.t.args[top.i]
			top.i++
			if a.op != opConst && !(a.op == opVar && s.isDefined(a.id)) && !(a.op != opVar && s.isDefined(a.id)) {
				if a.op == opVar {
					s.ref(a)
				} else {
					stack = append(stack, fr{a, 0})
				}
			}
			continue
		}
		cur := top.t
		stack = stack[:len(stack)-1]
		if s.isDefined(cur.id) {
			continue
		}
		var sb strings.Builder
		switch cur.op {
		case opExtract:
			fmt.Fprintf(&sb, "((_ extract %d %d) %s)", cur.hi, cur.lo, s.leaf(cur.args[0]))
		case opZext:
			fmt.Fprintf(&sb, "((_ zero_extend %d) %s)", cur.lo, s.leaf(cur.args[0]))
		case opSext:
			fmt.Fprintf(&sb, "((_ sign_extend %d) %s)", cur.lo, s.leaf(cur.args[0]))
		default:
			sb.WriteString("(" + opNames[cur.op])
			for _, a := range cur.args {
				sb.WriteString(" " + s.leaf(a))
			}
			sb.WriteString(")")
		}
		s.send(fmt.Sprintf("(define-fun t%d () %s %s)", cur.id, sortStr(cur.sort), sb.String()))
		s.defined[len(s.defined)-1][cur.id] = true
	}
	return "t" + strconv.Itoa(t.id)
}

func (s *Solver) leaf(t *Term) string {
	switch t.op {
	case opConst:
		return constStr(t)
	case opVar:
		return s.ref(t)
	}
	return "t" + strconv.Itoa(t.id)
}

func (s *Solver) Assert(t *Term) {
	if t.isTrue() {
		return
	}
	s.send("(assert " + s.ref(t) + ")")
}

type satResult int

const (
	resUnsat satResult = iota
	resSat
	resUnknown
)

func (r satResult) String() string { return [...]string{"unsat", "sat", "unknown"}[r] }

// Check runs check-sat under the current assertions plus extra (not retained).
func (s *Solver) Check(extra ...*Term) satResult {
	s.queries++
	start := time.Now()
	defer func() { s.solveTime += time.Since(start) }()
	lits := []string{}
	for _, e := range extra {
		if e.isTrue() {
			continue
		}
		if e.isFalse() {
			return resUnsat
		}
		if e.op == opNot && !e.args[0].isConst() {
			lits = append(lits, "(not "+s.refLit(e.args[0])+")")
		} else {
			lits = append(lits, s.refLit(e))
		}
	}
	if len(lits) == 0 {
		s.send("(check-sat)")
	} else {
		s.send("(check-sat-assuming (" + strings.Join(lits, " ") + "))")
	}
	for {
		l := s.readLine()
		switch {
		case l == "sat":
			return resSat
		case l == "unsat":
			return resUnsat
		case l == "unknown" || l == "timeout":
			s.unknowns++
			return resUnknown
		case strings.HasPrefix(l, "(error"):
			panic(engineErr("solver error: " + l))
		case l == "":
		default:
			panic(engineErr("unexpected solver output: " + l))
		}
	}
}

// refLit returns a symbol naming boolean term t (check-sat-assuming needs literals).
func (s *Solver) refLit(t *Term) string {
	r := s.ref(t)
	if t.op == opVar || (t.op != opConst && strings.HasPrefix(r, "t")) {
		return r
	}
	panic(engineErr("refLit on constant"))
}

// Values returns model values for the given terms after a sat answer.
func (s *Solver) Values(ts []*Term) []uint64 {
	out := make([]uint64, len(ts))
	for i, t := range ts {
		if t.isConst() {
			out[i] = t.val
			continue
		}
		s.send("(get-value (" + s.ref(t) + "))")
		l := s.readLine()
		for strings.Count(l, "(") > strings.Count(l, ")") {
			l += " " + s.readLine()
		}
		if strings.HasPrefix(l, "(error") {
			panic(engineErr("solver error in get-value: " + l))
		}
		// ((name value))
		l = strings.TrimSuffix(strings.TrimSpace(l), "))")
		idx := strings.LastIndexAny(l, " ")
		tok := l[idx+1:]
		out[i] = parseSMTValue(tok, l)
	}
	return out
}

func parseSMTValue(tok, whole string) uint64 {
	switch {
	case tok == "true":
		return 1
	case tok == "false":
		return 0
	case strings.HasPrefix(tok, "#x"):
		v, err := strconv.ParseUint(tok[2:], 16, 64)
		if err != nil {
			panic(engineErr("bad value " + whole))
		}
		return v
	case strings.HasPrefix(tok, "#b"):
		v, err := strconv.ParseUint(tok[2:], 2, 64)
		if err != nil {
			panic(engineErr("bad value " + whole))
		}
		return v
	}
	// (_ bv123 8) form
	if i := strings.Index(whole, "(_ bv"); i >= 0 {
		rest := whole[i+5:]
		j := strings.IndexByte(rest, ' ')
		v, err := strconv.ParseUint(rest[:j], 10, 64)
		if err == nil {
			return v
		}
	}
	panic(engineErr("cannot parse solver value: " + whole))
}
