package main

// Harness intrinsics: bodyless functions declared in the injected harness support file.

import (
	"fmt"
	"go/types"
	"os"
	"strings"
)

var intrinsics = map[string]nativeFn{}

func nameArg(v value) string {
	s, ok := v.(string)
	if !ok {
		panic(engineErr("intrinsic name must be a concrete string"))
	}
	return s
}

var lastPanicMsg string

func init() {
	mkIn := func(k types.BasicKind) nativeFn {
		return func(fr *frame, args []value) value { return newInput(nameArg(args[0]), k) }
	}
	intrinsics["vBool"] = func(fr *frame, args []value) value {
		name := nameArg(args[0])
		if pinnedModel != nil {
			return pinnedModel[name] != 0
		}
		if i, ok := px.inputIx[name]; ok {
			return sv{px.inputs[i].t, types.Bool}
		}
		t := mkVar(name, 0)
		px.inputIx[name] = len(px.inputs)
		px.inputs = append(px.inputs, inputVar{name, t, types.Bool})
		return sv{t, types.Bool}
	}
	intrinsics["vU8"] = mkIn(types.Uint8)
	intrinsics["vU16"] = mkIn(types.Uint16)
	intrinsics["vU32"] = mkIn(types.Uint32)
	intrinsics["vU64"] = mkIn(types.Uint64)
	intrinsics["vUint"] = mkIn(types.Uint)
	intrinsics["vI8"] = mkIn(types.Int8)
	intrinsics["vI16"] = mkIn(types.Int16)
	intrinsics["vI32"] = mkIn(types.Int32)
	intrinsics["vI64"] = mkIn(types.Int64)
	intrinsics["vInt"] = mkIn(types.Int)
	// vRange(name, lo, hi) int: concrete on every path (forks over lo..hi)
	intrinsics["vRange"] = func(fr *frame, args []value) value {
		lo, hi := asInt64(args[1]), asInt64(args[2])
		if lo == hi {
			return int(lo)
		}
		xv := newInput(nameArg(args[0]), types.Int)
		x, isSym := xv.(sv)
		if !isSym {
			c := asInt64(xv)
			if c < lo || c > hi {
				panic(pathAbort{"infeasible", false})
			}
			return int(c)
		}
		assume(mkAnd(mkCmp(opSle, mkBV(64, uint64(lo)), x.t), mkCmp(opSle, x.t, mkBV(64, uint64(hi)))))
		return int(concretizeInt(x))
	}
	intrinsics["vConcrete"] = func(fr *frame, args []value) value {
		if x, ok := args[0].(sv); ok {
			return int(concretizeInt(x))
		}
		return args[0]
	}
	intrinsics["vBytes"] = func(fr *frame, args []value) value {
		name, n := nameArg(args[0]), int(asInt64(args[1]))
		out := make([]value, n)
		for i := range out {
			out[i] = newInput(fmt.Sprintf("%s[%d]", name, i), types.Uint8)
		}
		return out
	}
	intrinsics["vString"] = func(fr *frame, args []value) value {
		name, n := nameArg(args[0]), int(asInt64(args[1]))
		out := make([]value, n)
		for i := range out {
			out[i] = newInput(fmt.Sprintf("%s[%d]", name, i), types.Uint8)
		}
		return normStr(out)
	}
	intrinsics["vName"] = func(fr *frame, args []value) value {
		s := nameArg(args[0])
		for _, ix := range variadicArgs(args[1]) {
			s += fmt.Sprintf("[%d]", asInt64(ix))
		}
		return s
	}
	intrinsics["vAssume"] = func(fr *frame, args []value) value { assume(boolTerm(args[0])); return nil }
	intrinsics["vAssert"] = func(fr *frame, args []value) value {
		assertProp(boolTerm(args[0]), nameArg(args[1]))
		return nil
	}
	intrinsics["vFail"] = func(fr *frame, args []value) value {
		assertProp(termFalse, nameArg(args[0]))
		return nil
	}
	intrinsics["vReach"] = func(fr *frame, args []value) value { reach(nameArg(args[0])); return nil }
	intrinsics["vAnd"] = func(fr *frame, args []value) value { return termToBoolVal(mkAnd(boolTerm(args[0]), boolTerm(args[1]))) }
	intrinsics["vOr"] = func(fr *frame, args []value) value { return termToBoolVal(mkOr(boolTerm(args[0]), boolTerm(args[1]))) }
	intrinsics["vNot"] = func(fr *frame, args []value) value { return termToBoolVal(mkNot(boolTerm(args[0]))) }
	intrinsics["vImplies"] = func(fr *frame, args []value) value {
		return termToBoolVal(mkImplies(boolTerm(args[0]), boolTerm(args[1])))
	}
	ite := func(k types.BasicKind) nativeFn {
		return func(fr *frame, args []value) value {
			return termToVal(mkIte(boolTerm(args[0]), scalarTerm(args[1], k), scalarTerm(args[2], k)), k)
		}
	}
	intrinsics["vIteInt"] = ite(types.Int)
	intrinsics["vIteU8"] = ite(types.Uint8)
	intrinsics["vIteU16"] = ite(types.Uint16)
	intrinsics["vIteU32"] = ite(types.Uint32)
	intrinsics["vIteU64"] = ite(types.Uint64)
	intrinsics["vIteI64"] = ite(types.Int64)
	intrinsics["vIteI32"] = ite(types.Int32)
	intrinsics["vGoCount"] = func(fr *frame, args []value) value {
		sub := nameArg(args[0])
		n := 0
		for _, s := range fr.i.spawned {
			if strings.Contains(s.fn, sub) {
				n++
			}
		}
		return n
	}
	// vRunSpawned(sub) runs, in spawn order, the recorded goroutines whose function name contains sub
	intrinsics["vRunSpawned"] = func(fr *frame, args []value) value {
		sub := nameArg(args[0])
		list := fr.i.spawned
		n := 0
		for _, s := range list {
			if strings.Contains(s.fn, sub) {
				call(fr.i, fr, 0, s.fv, s.args)
				n++
			}
		}
		return n
	}
	// vCatch(f) runs f and reports whether it panicked (the panic is swallowed).
	intrinsics["vCatch"] = func(fr *frame, args []value) (res value) {
		defer func() {
			if r := recover(); r != nil {
				if isEnginePanic(r) {
					panic(r)
				}
				p := normalizePanic(fr.i, r)
				tp, ok := p.(targetPanic)
				if !ok {
					panic(r)
				}
				lastPanicMsg = panicString(tp)
				res = true
			}
		}()
		call(fr.i, fr, 0, args[0], nil)
		return false
	}
	intrinsics["vPanicMsg"] = func(fr *frame, args []value) value { return lastPanicMsg }
	// vSameSlice(a, b []byte) bool: same backing array start, len
	intrinsics["vSameSlice"] = func(fr *frame, args []value) value {
		return sameRef(args[0], args[1])
	}
	intrinsics["vEventCount"] = func(fr *frame, args []value) value {
		sub := nameArg(args[0])
		n := 0
		for _, e := range px.events {
			if strings.Contains(e, sub) {
				n++
			}
		}
		return n
	}
	// vCtxTimeout(ctx) (int64, bool): the timeout a context (or an ancestor) was created with
	intrinsics["vCtxTimeout"] = func(fr *frame, args []value) value {
		c := args[0].(iface)
		for depth := 0; depth < 20 && c.t != nil; depth++ {
			p, ok := c.v.(*value)
			if !ok {
				break
			}
			if d, ok := ctxTimeouts[p]; ok {
				return tuple{d, true}
			}
			st, ok := (*p).(structure)
			if !ok || len(st) == 0 {
				break
			}
			parent, ok := st[0].(iface) // embedded Context is the first field of cancelCtx / valueCtx
			if !ok {
				break
			}
			c = parent
		}
		return tuple{int64(0), false}
	}
	// vSchedule(): from now on, goroutines started by the code under test are run when the
	// current goroutine blocks; a panic escaping one of them ends the path as a violation.
	intrinsics["vSchedule"] = func(fr *frame, args []value) value {
		fr.i.schedOn = true
		fr.i.schedFrom = len(fr.i.spawned)
		fr.i.nextGo = len(fr.i.spawned)
		return nil
	}
	// ---- thread mode (threads.go)
	intrinsics["vThreads"] = func(fr *frame, args []value) value { threadsStart(); return nil }
	// vSchedulePolicy(k): 0 = lowest-numbered runnable goroutine next (default), 1 = highest-numbered next, 2 = round robin
	intrinsics["vSchedulePolicy"] = func(fr *frame, args []value) value {
		threadsStart()
		sch.policy = int(asInt64(args[0]))
		return nil
	}
	// vScheduleExplore(k, preempt): every choice among runnable goroutines becomes a path decision;
	// explored are all schedules that differ from lowest-numbered-first at no more than k scheduling
	// points (blocking operations; with preempt also before every channel / lock operation)
	intrinsics["vScheduleExplore"] = func(fr *frame, args []value) value {
		threadsStart()
		sch.policy = 3
		sch.explore = int(asInt64(args[0]))
		sch.preempt = args[1].(bool)
		return nil
	}
	// vScheduleBase(b): the order that choice 0 of the explored policy follows: 0 = lowest-numbered
	// runnable goroutine first, 1 = highest-numbered (most recently started) first
	intrinsics["vScheduleBase"] = func(fr *frame, args []value) value {
		threadsStart()
		sch.base = int(asInt64(args[0]))
		return nil
	}
	intrinsics["vYield"] = func(fr *frame, args []value) value {
		if sch != nil {
			sch.yield()
		}
		return nil
	}
	intrinsics["vLiveThreads"] = func(fr *frame, args []value) value {
		n := 0
		if sch != nil {
			for _, t := range sch.threads[1:] {
				if !t.done {
					n++
				}
			}
		}
		return n
	}
	intrinsics["vTimerCount"] = func(fr *frame, args []value) value { return len(timerRecs) }
	intrinsics["vTimerNanos"] = func(fr *frame, args []value) value { return timerRecs[asInt64(args[0])].d }
	intrinsics["vTimerArmed"] = func(fr *frame, args []value) value { return timerRecs[asInt64(args[0])].armed }
	// vTimerFire(k): the k-th timer created on this path expires now: its AfterFunc callback is
	// started on a goroutine of its own (thread mode), as the runtime does
	intrinsics["vTimerFire"] = func(fr *frame, args []value) value {
		t := timerRecs[asInt64(args[0])]
		if !t.armed || (t.f == nil && t.c == nil) {
			return nil
		}
		was := t.armed
		journalFn(func() { t.armed = was })
		t.armed = false
		if t.f == nil {
			// a NewTimer: the expiry time arrives on C (dropped when nobody took the previous one)
			if sch != nil {
				t.c.offer(zero(t.elem))
			} else if len(t.c.buf) == 0 {
				t.c.push(zero(t.elem))
			}
			return nil
		}
		if sch == nil {
			panic(engineErr("vTimerFire needs vThreads()"))
		}
		sch.spawn("timer callback", t.f, nil)
		return nil
	}
	// vHash(kind, data, n): n bytes of an uninterpreted hash of data (functionally consistent per path)
	intrinsics["vHash"] = func(fr *frame, args []value) value {
		return uninterpretedHash(nameArg(args[0]), cellsOf(args[1]), int(asInt64(args[2])))
	}
	// vWatchFields(ptr): register every field cell of the struct ptr points to as shared
	intrinsics["vWatchFields"] = func(fr *frame, args []value) value {
		p := args[0].(iface).v.(*value)
		st, ok := (*p).(structure)
		if !ok {
			panic(engineErr("vWatchFields: not a pointer to struct"))
		}
		for k := range st {
			watched[&st[k]] = true
		}
		return nil
	}
	// vSetAccessHook(f): f runs (as the second thread) before every load from a watched cell
	intrinsics["vSetAccessHook"] = func(fr *frame, args []value) value {
		watchHook = args[0]
		return nil
	}
	intrinsics["vClearAccessHook"] = func(fr *frame, args []value) value {
		watchHook = nil
		return nil
	}
	intrinsics["vWatchedReads"] = func(fr *frame, args []value) value { return watchReads }
	intrinsics["vPrint"] = func(fr *frame, args []value) value {
		fmt.Fprintln(os.Stderr, "vPrint:", toString(args[0]))
		return nil
	}
}
