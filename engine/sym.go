package main

// Symbolic scalar and string operations.

import (
	"fmt"
	"go/token"
	"go/types"
	"unicode/utf8"
)

func kindInfo(k types.BasicKind) (w int, signed bool) {
	switch k {
	case types.Bool, types.UntypedBool:
		return 0, false
	case types.Int, types.UntypedInt:
		return 64, true
	case types.Int8:
		return 8, true
	case types.Int16:
		return 16, true
	case types.Int32, types.UntypedRune:
		return 32, true
	case types.Int64:
		return 64, true
	case types.Uint, types.Uintptr:
		return 64, false
	case types.Uint8:
		return 8, false
	case types.Uint16:
		return 16, false
	case types.Uint32:
		return 32, false
	case types.Uint64:
		return 64, false
	}
	panic(engineErr(fmt.Sprintf("kindInfo: unsupported kind %v", k)))
}

func basicKind(t types.Type) types.BasicKind {
	b, ok := t.Underlying().(*types.Basic)
	if !ok {
		panic(engineErr(fmt.Sprintf("basicKind: %s is not basic", t)))
	}
	k := b.Kind()
	switch k {
	case types.UntypedBool:
		return types.Bool
	case types.UntypedInt:
		return types.Int
	case types.UntypedRune:
		return types.Int32
	}
	return k
}

func valKind(v value) types.BasicKind {
	switch v := v.(type) {
	case bool:
		return types.Bool
	case int:
		return types.Int
	case int8:
		return types.Int8
	case int16:
		return types.Int16
	case int32:
		return types.Int32
	case int64:
		return types.Int64
	case uint:
		return types.Uint
	case uint8:
		return types.Uint8
	case uint16:
		return types.Uint16
	case uint32:
		return types.Uint32
	case uint64:
		return types.Uint64
	case uintptr:
		return types.Uintptr
	case sv:
		return v.k
	}
	panic(engineErr(fmt.Sprintf("valKind: %T", v)))
}

// scalarTerm returns the term for scalar v of kind k.
func scalarTerm(v value, k types.BasicKind) *Term {
	switch v := v.(type) {
	case sv:
		return v.t
	case bool:
		return mkBool(v)
	}
	w, _ := kindInfo(k)
	if w == 0 {
		panic(engineErr(fmt.Sprintf("scalarTerm: %T as bool", v)))
	}
	return mkBV(w, uint64(asInt64(v)))
}

// svTerm returns the term of v using its own dynamic kind.
func svTerm(v value) *Term { return scalarTerm(v, valKind(v)) }

// termToVal converts a term back to a value of kind k (concrete when constant).
func termToVal(t *Term, k types.BasicKind) value {
	if !t.isConst() {
		return sv{t, k}
	}
	switch k {
	case types.Bool:
		return t.val != 0
	case types.Int:
		return int(t.val)
	case types.Int8:
		return int8(t.val)
	case types.Int16:
		return int16(t.val)
	case types.Int32:
		return int32(t.val)
	case types.Int64:
		return int64(t.val)
	case types.Uint:
		return uint(t.val)
	case types.Uint8:
		return uint8(t.val)
	case types.Uint16:
		return uint16(t.val)
	case types.Uint32:
		return uint32(t.val)
	case types.Uint64:
		return uint64(t.val)
	case types.Uintptr:
		return uintptr(t.val)
	}
	panic(engineErr(fmt.Sprintf("termToVal kind %v", k)))
}

func decideVal(v value) bool {
	switch v := v.(type) {
	case bool:
		return v
	case sv:
		return decide(v.t)
	}
	panic(engineErr(fmt.Sprintf("decideVal: %T", v)))
}

// symBinop implements binary operators when at least one operand is symbolic.
func symBinop(op token.Token, t types.Type, x, y value) value {
	// strings
	if _, ok := x.(symstr); ok {
		return symStrBinop(op, x, y)
	}
	if _, ok := y.(symstr); ok {
		return symStrBinop(op, x, y)
	}
	if _, ok := x.(string); ok {
		return symStrBinop(op, x, y)
	}
	if _, ok := x.(tokv); ok {
		return tokBinop(op, x, y)
	}
	if _, ok := y.(tokv); ok {
		return tokBinop(op, x, y)
	}
	kx := valKind(x)
	if kx == types.Bool {
		a, b := boolTerm(x), boolTerm(y)
		switch op {
		case token.EQL:
			return termToBoolVal(mkEq(a, b))
		case token.NEQ:
			return termToBoolVal(mkNot(mkEq(a, b)))
		case token.AND: // not produced by SSA for bools, but harmless
			return termToBoolVal(mkAnd(a, b))
		case token.OR:
			return termToBoolVal(mkOr(a, b))
		}
		panic(engineErr("symBinop: bool op " + op.String()))
	}
	w, signed := kindInfo(kx)
	a := scalarTerm(x, kx)
	switch op {
	case token.SHL, token.SHR:
		ky := valKind(y)
		wy, sy := kindInfo(ky)
		b := scalarTerm(y, ky)
		if sy {
			// negative shift count panics
			if decide(mkCmp(opSlt, b, mkBV(wy, 0))) {
				panic(targetPanicStr("runtime error: negative shift amount"))
			}
		}
		var cnt *Term
		var big *Term = termFalse
		if wy > w {
			big = mkNot(mkCmp(opUlt, b, mkBV(wy, uint64(w))))
			cnt = mkExtract(w-1, 0, b)
		} else {
			cnt = mkZext(w, b)
		}
		var r *Term
		if op == token.SHL {
			r = mkIte(big, mkBV(w, 0), mkBin(opShl, a, cnt))
		} else if signed {
			r = mkIte(big, mkBin(opAshr, a, mkBV(w, uint64(w-1))), mkBin(opAshr, a, cnt))
		} else {
			r = mkIte(big, mkBV(w, 0), mkBin(opLshr, a, cnt))
		}
		return termToVal(r, kx)
	}
	b := scalarTerm(y, kx)
	var r *Term
	switch op {
	case token.ADD:
		r = mkBin(opAdd, a, b)
	case token.SUB:
		r = mkBin(opSub, a, b)
	case token.MUL:
		r = mkBin(opMul, a, b)
	case token.QUO, token.REM:
		if decide(mkEq(b, mkBV(w, 0))) {
			panic(targetPanicStr("runtime error: integer divide by zero"))
		}
		switch {
		case op == token.QUO && signed:
			r = mkBin(opSdiv, a, b)
		case op == token.QUO:
			r = mkBin(opUdiv, a, b)
		case signed:
			r = mkBin(opSrem, a, b)
		default:
			r = mkBin(opUrem, a, b)
		}
	case token.AND:
		r = mkBin(opBvAnd, a, b)
	case token.OR:
		r = mkBin(opBvOr, a, b)
	case token.XOR:
		r = mkBin(opBvXor, a, b)
	case token.AND_NOT:
		r = mkBin(opBvAnd, a, mkUn(opBvNot, b))
	case token.EQL:
		return termToBoolVal(mkEq(a, b))
	case token.NEQ:
		return termToBoolVal(mkNot(mkEq(a, b)))
	case token.LSS:
		if signed {
			return termToBoolVal(mkCmp(opSlt, a, b))
		}
		return termToBoolVal(mkCmp(opUlt, a, b))
	case token.LEQ:
		if signed {
			return termToBoolVal(mkCmp(opSle, a, b))
		}
		return termToBoolVal(mkCmp(opUle, a, b))
	case token.GTR:
		if signed {
			return termToBoolVal(mkCmp(opSlt, b, a))
		}
		return termToBoolVal(mkCmp(opUlt, b, a))
	case token.GEQ:
		if signed {
			return termToBoolVal(mkCmp(opSle, b, a))
		}
		return termToBoolVal(mkCmp(opUle, b, a))
	default:
		panic(engineErr("symBinop: op " + op.String()))
	}
	return termToVal(r, kx)
}

func symUnop(op token.Token, x value) value {
	s := x.(sv)
	switch op {
	case token.NOT:
		return termToBoolVal(mkNot(s.t))
	case token.SUB:
		return termToVal(mkUn(opBvNeg, s.t), s.k)
	case token.XOR:
		return termToVal(mkUn(opBvNot, s.t), s.k)
	}
	panic(engineErr("symUnop: " + op.String()))
}

// symConvInt converts symbolic integer x to integer kind dst.
func symConvInt(dst types.BasicKind, x sv) value {
	ws, ssigned := kindInfo(x.k)
	wd, _ := kindInfo(dst)
	if ws == 0 || wd == 0 {
		panic(engineErr("symConvInt on bool"))
	}
	var r *Term
	switch {
	case wd == ws:
		r = x.t
	case wd < ws:
		r = mkExtract(wd-1, 0, x.t)
	case ssigned:
		r = mkSext(wd, x.t)
	default:
		r = mkZext(wd, x.t)
	}
	return termToVal(r, dst)
}

// ---------------------------------------------------------------- strings / byte cells

func strCells(v value) []value {
	switch v := v.(type) {
	case string:
		out := make([]value, len(v))
		for i := 0; i < len(v); i++ {
			out[i] = v[i]
		}
		return out
	case symstr:
		return []value(v)
	}
	panic(engineErr(fmt.Sprintf("strCells: %T", v)))
}

func strLen(v value) int {
	switch v := v.(type) {
	case string:
		return len(v)
	case symstr:
		return len(v)
	}
	panic(engineErr(fmt.Sprintf("strLen: %T", v)))
}

// normStr returns a Go string when every cell is a concrete byte.
func normStr(s []value) value {
	for _, c := range s {
		if _, ok := c.(uint8); !ok {
			cp := make(symstr, len(s))
			copy(cp, s)
			return cp
		}
	}
	b := make([]byte, len(s))
	for i, c := range s {
		b[i] = c.(uint8)
	}
	return string(b)
}

func byteTerm(c value) *Term {
	switch c := c.(type) {
	case uint8:
		return mkBV(8, uint64(c))
	case sv:
		if w, _ := kindInfo(c.k); w != 8 {
			panic(engineErr("byteTerm: non-byte symbolic value"))
		}
		return c.t
	}
	panic(engineErr(fmt.Sprintf("byteTerm: %T", c)))
}

// cellEq is equality of two byte cells, with the documented token semantics:
// tok(v) == tok(w) iff same kind and v == w (or both single-digit and equal);
// tok(v) == byte b iff v is a single digit and its character is b.
func cellEq(a, b value) *Term {
	ta, aTok := a.(tokv)
	tb, bTok := b.(tokv)
	switch {
	case aTok && bTok:
		if ta.kind == tb.kind {
			return mkEq(ta.v, tb.v)
		}
		small := mkAnd(mkCmp(opUlt, ta.v, mkBV(64, 10)), mkCmp(opUlt, tb.v, mkBV(64, 10)))
		return mkAnd(small, mkEq(ta.v, tb.v))
	case aTok:
		return tokEqByte(ta, byteTerm(b))
	case bTok:
		return tokEqByte(tb, byteTerm(a))
	}
	return mkEq(byteTerm(a), byteTerm(b))
}

func tokEqByte(t tokv, b *Term) *Term {
	if t.kind == 'd' {
		return mkAnd(mkCmp(opUlt, t.v, mkBV(64, 10)), mkEq(mkBin(opAdd, mkExtract(7, 0, t.v), mkBV(8, '0')), b))
	}
	// hex: single digit 0-9 -> '0'+v, a-f -> 'a'+v-10
	lt10 := mkCmp(opUlt, t.v, mkBV(64, 10))
	lt16 := mkCmp(opUlt, t.v, mkBV(64, 16))
	lo := mkExtract(7, 0, t.v)
	ch := mkIte(lt10, mkBin(opAdd, lo, mkBV(8, '0')), mkBin(opAdd, lo, mkBV(8, 'a'-10)))
	return mkAnd(lt16, mkEq(ch, b))
}

func iteByte(g *Term, a, b value) value {
	_, aTok := a.(tokv)
	_, bTok := b.(tokv)
	if aTok || bTok {
		if aTok && bTok {
			ta, tb := a.(tokv), b.(tokv)
			if ta.kind == tb.kind {
				return tokv{ta.kind, mkIte(g, ta.v, tb.v)}
			}
		}
		if decide(g) {
			return a
		}
		return b
	}
	return termToVal(mkIte(g, byteTerm(a), byteTerm(b)), types.Uint8)
}

func seqEq(a, b []value) *Term {
	if len(a) != len(b) {
		return termFalse
	}
	acc := termTrue
	for i := range a {
		acc = mkAnd(acc, cellEq(a[i], b[i]))
		if acc.isFalse() {
			return acc
		}
	}
	return acc
}

// seqLess is lexicographic a < b over plain byte cells.
func seqLess(a, b []value) *Term {
	// a<b iff exists i: a[:i]==b[:i] and (i==len(a)<len(b) or a[i]<b[i])
	n := len(a)
	if len(b) < n {
		n = len(b)
	}
	res := mkBool(len(a) < len(b))
	for i := n - 1; i >= 0; i-- {
		x, y := byteTerm(a[i]), byteTerm(b[i])
		res = mkIte(mkEq(x, y), res, mkCmp(opUlt, x, y))
	}
	return res
}

func symStrBinop(op token.Token, x, y value) value {
	a, b := strCells(x), strCells(y)
	switch op {
	case token.ADD:
		out := make([]value, 0, len(a)+len(b))
		out = append(out, a...)
		out = append(out, b...)
		return normStr(out)
	case token.EQL:
		return termToBoolVal(seqEq(a, b))
	case token.NEQ:
		return termToBoolVal(mkNot(seqEq(a, b)))
	case token.LSS:
		return termToBoolVal(seqLess(a, b))
	case token.GTR:
		return termToBoolVal(seqLess(b, a))
	case token.LEQ:
		return termToBoolVal(mkNot(seqLess(b, a)))
	case token.GEQ:
		return termToBoolVal(mkNot(seqLess(a, b)))
	}
	panic(engineErr("symStrBinop: " + op.String()))
}

func tokBinop(op token.Token, x, y value) value {
	switch op {
	case token.EQL:
		return termToBoolVal(cellEq(x, y))
	case token.NEQ:
		return termToBoolVal(mkNot(cellEq(x, y)))
	}
	panic(engineErr("arithmetic or ordering on a formatted-number cell (outside the model): " + op.String()))
}

// symEq handles ==/!= on scalars and strings with symbolic parts.
func symEq(x, y value) value {
	switch x.(type) {
	case symstr, string:
		return termToBoolVal(seqEq(strCells(x), strCells(y)))
	case tokv:
		return termToBoolVal(cellEq(x, y))
	}
	switch y.(type) {
	case symstr, string:
		return termToBoolVal(seqEq(strCells(x), strCells(y)))
	case tokv:
		return termToBoolVal(cellEq(x, y))
	}
	k := valKind(x)
	if k == types.Bool {
		return termToBoolVal(mkEq(boolTerm(x), boolTerm(y)))
	}
	return termToBoolVal(mkEq(scalarTerm(x, k), scalarTerm(y, k)))
}

func decodeRune(b []byte) (int32, int) {
	r, n := utf8.DecodeRune(b)
	return int32(r), n
}
