// Copyright 2013 The Go Authors. All rights reserved.
// Use of this source code is governed by a BSD-style
// license that can be found in the LICENSE file.

package main

import (
	"bytes"
	"fmt"
	"go/constant"
	"go/token"
	"go/types"
	"os"
	"unsafe"

	"golang.org/x/tools/go/ssa"
)

// If the target program panics, the interpreter panics with this type.
type targetPanic struct {
	v value
}

func (p targetPanic) String() string {
	return toString(p.v)
}

// If the target program calls exit, the interpreter panics with this type.
type exitPanic int

// constValue returns the value of the constant with the
// dynamic type tag appropriate for c.Type().
func constValue(c *ssa.Const) value {
	if c.Value == nil {
		return zero(c.Type()) // typed zero
	}
	// c is not a type parameter so it's underlying type is basic.

	if t, ok := c.Type().Underlying().(*types.Basic); ok {
		// TODO(adonovan): eliminate untyped constants from SSA form.
		switch t.Kind() {
		case types.Bool, types.UntypedBool:
			return constant.BoolVal(c.Value)
		case types.Int, types.UntypedInt:
			// Assume sizeof(int) is same on host and target.
			return int(c.Int64())
		case types.Int8:
			return int8(c.Int64())
		case types.Int16:
			return int16(c.Int64())
		case types.Int32, types.UntypedRune:
			return int32(c.Int64())
		case types.Int64:
			return c.Int64()
		case types.Uint:
			// Assume sizeof(uint) is same on host and target.
			return uint(c.Uint64())
		case types.Uint8:
			return uint8(c.Uint64())
		case types.Uint16:
			return uint16(c.Uint64())
		case types.Uint32:
			return uint32(c.Uint64())
		case types.Uint64:
			return c.Uint64()
		case types.Uintptr:
			// Assume sizeof(uintptr) is same on host and target.
			return uintptr(c.Uint64())
		case types.Float32:
			return float32(c.Float64())
		case types.Float64, types.UntypedFloat:
			return c.Float64()
		case types.Complex64:
			return complex64(c.Complex128())
		case types.Complex128, types.UntypedComplex:
			return c.Complex128()
		case types.String, types.UntypedString:
			if c.Value.Kind() == constant.String {
				return constant.StringVal(c.Value)
			}
			return string(rune(c.Int64()))
		}
	}

	panic(fmt.Sprintf("constValue: %s", c))
}

// fitsInt returns true if x fits in type int according to sizes.
func fitsInt(x int64, sizes types.Sizes) bool {
	intSize := sizes.Sizeof(types.Typ[types.Int])
	if intSize < sizes.Sizeof(types.Typ[types.Int64]) {
		maxInt := int64(1)<<((intSize*8)-1) - 1
		minInt := -int64(1) << ((intSize * 8) - 1)
		return minInt <= x && x <= maxInt
	}
	return true
}

// asInt64 converts x, which must be an integer, to an int64.
//
// Callers that need a value directly usable as an int should combine this with fitsInt().
func asInt64(x value) int64 {
	switch x := x.(type) {
	case int:
		return int64(x)
	case int8:
		return int64(x)
	case int16:
		return int64(x)
	case int32:
		return int64(x)
	case int64:
		return x
	case uint:
		return int64(x)
	case uint8:
		return int64(x)
	case uint16:
		return int64(x)
	case uint32:
		return int64(x)
	case uint64:
		return int64(x)
	case uintptr:
		return int64(x)
	case sv:
		return concretizeInt(x)
	}
	panic(engineErr(fmt.Sprintf("cannot convert %T to int64", x)))
}

// asUint64 converts x, which must be an unsigned integer, to a uint64
// suitable for use as a bitwise shift count.
func asUint64(x value) uint64 {
	switch x := x.(type) {
	case uint:
		return uint64(x)
	case uint8:
		return uint64(x)
	case uint16:
		return uint64(x)
	case uint32:
		return uint64(x)
	case uint64:
		return x
	case uintptr:
		return uint64(x)
	case sv:
		return uint64(concretizeInt(x))
	}
	panic(engineErr(fmt.Sprintf("cannot convert %T to uint64", x)))
}

// asUnsigned returns the value of x, which must be an integer type, as its equivalent unsigned type,
// and returns true if x is non-negative.
func asUnsigned(x value) (value, bool) {
	switch x := x.(type) {
	case int:
		return uint(x), x >= 0
	case int8:
		return uint8(x), x >= 0
	case int16:
		return uint16(x), x >= 0
	case int32:
		return uint32(x), x >= 0
	case int64:
		return uint64(x), x >= 0
	case uint, uint8, uint32, uint64, uintptr:
		return x, true
	}
	panic(fmt.Sprintf("cannot convert %T to unsigned", x))
}

// zero returns a new "zero" value of the specified type.
func zero(t types.Type) value {
	switch t := t.(type) {
	case *types.Basic:
		if t.Kind() == types.UntypedNil {
			panic("untyped nil has no zero value")
		}
		if t.Info()&types.IsUntyped != 0 {
			// TODO(adonovan): make it an invariant that
			// this is unreachable.  Currently some
			// constants have 'untyped' types when they
			// should be defaulted by the typechecker.
			t = types.Default(t).(*types.Basic)
		}
		switch t.Kind() {
		case types.Bool:
			return false
		case types.Int:
			return int(0)
		case types.Int8:
			return int8(0)
		case types.Int16:
			return int16(0)
		case types.Int32:
			return int32(0)
		case types.Int64:
			return int64(0)
		case types.Uint:
			return uint(0)
		case types.Uint8:
			return uint8(0)
		case types.Uint16:
			return uint16(0)
		case types.Uint32:
			return uint32(0)
		case types.Uint64:
			return uint64(0)
		case types.Uintptr:
			return uintptr(0)
		case types.Float32:
			return float32(0)
		case types.Float64:
			return float64(0)
		case types.Complex64:
			return complex64(0)
		case types.Complex128:
			return complex128(0)
		case types.String:
			return ""
		case types.UnsafePointer:
			return unsafe.Pointer(nil)
		default:
			panic(fmt.Sprint("zero for unexpected type:", t))
		}
	case *types.Pointer:
		return (*value)(nil)
	case *types.Array:
		a := make(array, t.Len())
		for i := range a {
			a[i] = zero(t.Elem())
		}
		return a
	case *types.Named:
		return zero(t.Underlying())
	case *types.Alias:
		return zero(types.Unalias(t))
	case *types.Interface:
		return iface{} // nil type, methodset and value
	case *types.Slice:
		return []value(nil)
	case *types.Struct:
		s := make(structure, t.NumFields())
		for i := range s {
			s[i] = zero(t.Field(i).Type())
		}
		return s
	case *types.Tuple:
		if t.Len() == 1 {
			return zero(t.At(0).Type())
		}
		s := make(tuple, t.Len())
		for i := range s {
			s[i] = zero(t.At(i).Type())
		}
		return s
	case *types.Chan:
		return (*chanv)(nil)
	case *types.Map:
		return (*smap)(nil)
	case *types.Signature:
		return (*ssa.Function)(nil)
	}
	panic(fmt.Sprint("zero: unexpected ", t))
}

// slice returns x[lo:hi:max].  Any of lo, hi and max may be nil.
func slice(x, lo, hi, max value) value {
	var Len, Cap int
	switch x := x.(type) {
	case string:
		Len = len(x)
	case symstr:
		Len = len(x)
	case []value:
		Len = len(x)
		Cap = cap(x)
	case *value: // *array
		a := (*x).(array)
		Len = len(a)
		Cap = cap(a)
	}

	// symbolic bounds: decide the run-time check once, then enumerate only in-range values
	if isSym(lo) || isSym(hi) || isSym(max) {
		t64 := func(v value, def int64) *Term {
			if v == nil {
				return mkBV(64, uint64(def))
			}
			if s, ok := v.(sv); ok {
				w, signed := kindInfo(s.k)
				if w == 64 {
					return s.t
				}
				if signed {
					return mkSext(64, s.t)
				}
				return mkZext(64, s.t)
			}
			return mkBV(64, uint64(asInt64(v)))
		}
		upper := int64(Cap)
		if _, isStr := x.(string); isStr {
			upper = int64(Len)
		}
		if _, isStr := x.(symstr); isStr {
			upper = int64(Len)
		}
		tl, th, tm := t64(lo, 0), t64(hi, int64(Len)), t64(max, upper)
		ok := mkAnd(mkCmp(opSle, mkBV(64, 0), tl), mkAnd(mkCmp(opSle, tl, th), mkAnd(mkCmp(opSle, th, tm), mkCmp(opSle, tm, mkBV(64, uint64(upper))))))
		if !decide(ok) {
			panic(targetPanicStr("runtime error: slice bounds out of range [symbolic]"))
		}
	}
	l := int64(0)
	if lo != nil {
		l = asInt64(lo)
	}

	h := int64(Len)
	if hi != nil {
		h = asInt64(hi)
	}

	m := int64(Cap)
	if max != nil {
		m = asInt64(max)
	}

	// explicit checks: the host would accept bounds the target program must reject
	switch x.(type) {
	case string, symstr:
		if l < 0 || h < l || h > int64(Len) {
			panic(targetPanicStr(fmt.Sprintf("runtime error: slice bounds out of range [%d:%d] with length %d", l, h, Len)))
		}
	default:
		if l < 0 || h < l || m < h || m > int64(Cap) {
			panic(targetPanicStr(fmt.Sprintf("runtime error: slice bounds out of range [%d:%d:%d] with capacity %d", l, h, m, Cap)))
		}
	}
	switch x := x.(type) {
	case string:
		return x[l:h]
	case symstr:
		return normStr([]value(x[l:h]))
	case []value:
		return x[l:h:m]
	case *value: // *array
		a := (*x).(array)
		return []value(a)[l:h:m]
	}
	panic(fmt.Sprintf("slice: unexpected X type: %T", x))
}

// lookup returns x[idx] where x is a map.
func lookup(instr *ssa.Lookup, x, idx value) value {
	m, ok := x.(*smap)
	if !ok {
		panic(engineErr(fmt.Sprintf("unexpected x type in Lookup: %T", x)))
	}
	var v, okv value
	if m == nil {
		v, okv = zero(instr.X.Type().Underlying().(*types.Map).Elem()), false
	} else {
		v, okv = m.lookup(idx)
	}
	if instr.CommaOk {
		v = tuple{v, okv}
	}
	return v
}

// binop implements all arithmetic and logical binary operators for
// numeric datatypes and strings.  Both operands must have identical
// dynamic type.
func binop(op token.Token, t types.Type, x, y value) value {
	if op != token.EQL && op != token.NEQ && (isSym(x) || isSym(y)) {
		return symBinop(op, t, x, y)
	}
	switch op {
	case token.ADD:
		switch x.(type) {
		case int:
			return x.(int) + y.(int)
		case int8:
			return x.(int8) + y.(int8)
		case int16:
			return x.(int16) + y.(int16)
		case int32:
			return x.(int32) + y.(int32)
		case int64:
			return x.(int64) + y.(int64)
		case uint:
			return x.(uint) + y.(uint)
		case uint8:
			return x.(uint8) + y.(uint8)
		case uint16:
			return x.(uint16) + y.(uint16)
		case uint32:
			return x.(uint32) + y.(uint32)
		case uint64:
			return x.(uint64) + y.(uint64)
		case uintptr:
			return x.(uintptr) + y.(uintptr)
		case float32:
			return x.(float32) + y.(float32)
		case float64:
			return x.(float64) + y.(float64)
		case complex64:
			return x.(complex64) + y.(complex64)
		case complex128:
			return x.(complex128) + y.(complex128)
		case string:
			return x.(string) + y.(string)
		}

	case token.SUB:
		switch x.(type) {
		case int:
			return x.(int) - y.(int)
		case int8:
			return x.(int8) - y.(int8)
		case int16:
			return x.(int16) - y.(int16)
		case int32:
			return x.(int32) - y.(int32)
		case int64:
			return x.(int64) - y.(int64)
		case uint:
			return x.(uint) - y.(uint)
		case uint8:
			return x.(uint8) - y.(uint8)
		case uint16:
			return x.(uint16) - y.(uint16)
		case uint32:
			return x.(uint32) - y.(uint32)
		case uint64:
			return x.(uint64) - y.(uint64)
		case uintptr:
			return x.(uintptr) - y.(uintptr)
		case float32:
			return x.(float32) - y.(float32)
		case float64:
			return x.(float64) - y.(float64)
		case complex64:
			return x.(complex64) - y.(complex64)
		case complex128:
			return x.(complex128) - y.(complex128)
		}

	case token.MUL:
		switch x.(type) {
		case int:
			return x.(int) * y.(int)
		case int8:
			return x.(int8) * y.(int8)
		case int16:
			return x.(int16) * y.(int16)
		case int32:
			return x.(int32) * y.(int32)
		case int64:
			return x.(int64) * y.(int64)
		case uint:
			return x.(uint) * y.(uint)
		case uint8:
			return x.(uint8) * y.(uint8)
		case uint16:
			return x.(uint16) * y.(uint16)
		case uint32:
			return x.(uint32) * y.(uint32)
		case uint64:
			return x.(uint64) * y.(uint64)
		case uintptr:
			return x.(uintptr) * y.(uintptr)
		case float32:
			return x.(float32) * y.(float32)
		case float64:
			return x.(float64) * y.(float64)
		case complex64:
			return x.(complex64) * y.(complex64)
		case complex128:
			return x.(complex128) * y.(complex128)
		}

	case token.QUO:
		switch x.(type) {
		case int:
			return x.(int) / y.(int)
		case int8:
			return x.(int8) / y.(int8)
		case int16:
			return x.(int16) / y.(int16)
		case int32:
			return x.(int32) / y.(int32)
		case int64:
			return x.(int64) / y.(int64)
		case uint:
			return x.(uint) / y.(uint)
		case uint8:
			return x.(uint8) / y.(uint8)
		case uint16:
			return x.(uint16) / y.(uint16)
		case uint32:
			return x.(uint32) / y.(uint32)
		case uint64:
			return x.(uint64) / y.(uint64)
		case uintptr:
			return x.(uintptr) / y.(uintptr)
		case float32:
			return x.(float32) / y.(float32)
		case float64:
			return x.(float64) / y.(float64)
		case complex64:
			return x.(complex64) / y.(complex64)
		case complex128:
			return x.(complex128) / y.(complex128)
		}

	case token.REM:
		switch x.(type) {
		case int:
			return x.(int) % y.(int)
		case int8:
			return x.(int8) % y.(int8)
		case int16:
			return x.(int16) % y.(int16)
		case int32:
			return x.(int32) % y.(int32)
		case int64:
			return x.(int64) % y.(int64)
		case uint:
			return x.(uint) % y.(uint)
		case uint8:
			return x.(uint8) % y.(uint8)
		case uint16:
			return x.(uint16) % y.(uint16)
		case uint32:
			return x.(uint32) % y.(uint32)
		case uint64:
			return x.(uint64) % y.(uint64)
		case uintptr:
			return x.(uintptr) % y.(uintptr)
		}

	case token.AND:
		switch x.(type) {
		case int:
			return x.(int) & y.(int)
		case int8:
			return x.(int8) & y.(int8)
		case int16:
			return x.(int16) & y.(int16)
		case int32:
			return x.(int32) & y.(int32)
		case int64:
			return x.(int64) & y.(int64)
		case uint:
			return x.(uint) & y.(uint)
		case uint8:
			return x.(uint8) & y.(uint8)
		case uint16:
			return x.(uint16) & y.(uint16)
		case uint32:
			return x.(uint32) & y.(uint32)
		case uint64:
			return x.(uint64) & y.(uint64)
		case uintptr:
			return x.(uintptr) & y.(uintptr)
		}

	case token.OR:
		switch x.(type) {
		case int:
			return x.(int) | y.(int)
		case int8:
			return x.(int8) | y.(int8)
		case int16:
			return x.(int16) | y.(int16)
		case int32:
			return x.(int32) | y.(int32)
		case int64:
			return x.(int64) | y.(int64)
		case uint:
			return x.(uint) | y.(uint)
		case uint8:
			return x.(uint8) | y.(uint8)
		case uint16:
			return x.(uint16) | y.(uint16)
		case uint32:
			return x.(uint32) | y.(uint32)
		case uint64:
			return x.(uint64) | y.(uint64)
		case uintptr:
			return x.(uintptr) | y.(uintptr)
		}

	case token.XOR:
		switch x.(type) {
		case int:
			return x.(int) ^ y.(int)
		case int8:
			return x.(int8) ^ y.(int8)
		case int16:
			return x.(int16) ^ y.(int16)
		case int32:
			return x.(int32) ^ y.(int32)
		case int64:
			return x.(int64) ^ y.(int64)
		case uint:
			return x.(uint) ^ y.(uint)
		case uint8:
			return x.(uint8) ^ y.(uint8)
		case uint16:
			return x.(uint16) ^ y.(uint16)
		case uint32:
			return x.(uint32) ^ y.(uint32)
		case uint64:
			return x.(uint64) ^ y.(uint64)
		case uintptr:
			return x.(uintptr) ^ y.(uintptr)
		}

	case token.AND_NOT:
		switch x.(type) {
		case int:
			return x.(int) &^ y.(int)
		case int8:
			return x.(int8) &^ y.(int8)
		case int16:
			return x.(int16) &^ y.(int16)
		case int32:
			return x.(int32) &^ y.(int32)
		case int64:
			return x.(int64) &^ y.(int64)
		case uint:
			return x.(uint) &^ y.(uint)
		case uint8:
			return x.(uint8) &^ y.(uint8)
		case uint16:
			return x.(uint16) &^ y.(uint16)
		case uint32:
			return x.(uint32) &^ y.(uint32)
		case uint64:
			return x.(uint64) &^ y.(uint64)
		case uintptr:
			return x.(uintptr) &^ y.(uintptr)
		}

	case token.SHL:
		u, ok := asUnsigned(y)
		if !ok {
			panic("negative shift amount")
		}
		y := asUint64(u)
		switch x.(type) {
		case int:
			return x.(int) << y
		case int8:
			return x.(int8) << y
		case int16:
			return x.(int16) << y
		case int32:
			return x.(int32) << y
		case int64:
			return x.(int64) << y
		case uint:
			return x.(uint) << y
		case uint8:
			return x.(uint8) << y
		case uint16:
			return x.(uint16) << y
		case uint32:
			return x.(uint32) << y
		case uint64:
			return x.(uint64) << y
		case uintptr:
			return x.(uintptr) << y
		}

	case token.SHR:
		u, ok := asUnsigned(y)
		if !ok {
			panic("negative shift amount")
		}
		y := asUint64(u)
		switch x.(type) {
		case int:
			return x.(int) >> y
		case int8:
			return x.(int8) >> y
		case int16:
			return x.(int16) >> y
		case int32:
			return x.(int32) >> y
		case int64:
			return x.(int64) >> y
		case uint:
			return x.(uint) >> y
		case uint8:
			return x.(uint8) >> y
		case uint16:
			return x.(uint16) >> y
		case uint32:
			return x.(uint32) >> y
		case uint64:
			return x.(uint64) >> y
		case uintptr:
			return x.(uintptr) >> y
		}

	case token.LSS:
		switch x.(type) {
		case int:
			return x.(int) < y.(int)
		case int8:
			return x.(int8) < y.(int8)
		case int16:
			return x.(int16) < y.(int16)
		case int32:
			return x.(int32) < y.(int32)
		case int64:
			return x.(int64) < y.(int64)
		case uint:
			return x.(uint) < y.(uint)
		case uint8:
			return x.(uint8) < y.(uint8)
		case uint16:
			return x.(uint16) < y.(uint16)
		case uint32:
			return x.(uint32) < y.(uint32)
		case uint64:
			return x.(uint64) < y.(uint64)
		case uintptr:
			return x.(uintptr) < y.(uintptr)
		case float32:
			return x.(float32) < y.(float32)
		case float64:
			return x.(float64) < y.(float64)
		case string:
			return x.(string) < y.(string)
		}

	case token.LEQ:
		switch x.(type) {
		case int:
			return x.(int) <= y.(int)
		case int8:
			return x.(int8) <= y.(int8)
		case int16:
			return x.(int16) <= y.(int16)
		case int32:
			return x.(int32) <= y.(int32)
		case int64:
			return x.(int64) <= y.(int64)
		case uint:
			return x.(uint) <= y.(uint)
		case uint8:
			return x.(uint8) <= y.(uint8)
		case uint16:
			return x.(uint16) <= y.(uint16)
		case uint32:
			return x.(uint32) <= y.(uint32)
		case uint64:
			return x.(uint64) <= y.(uint64)
		case uintptr:
			return x.(uintptr) <= y.(uintptr)
		case float32:
			return x.(float32) <= y.(float32)
		case float64:
			return x.(float64) <= y.(float64)
		case string:
			return x.(string) <= y.(string)
		}

	case token.EQL:
		return eqnil(t, x, y)

	case token.NEQ:
		return notVal(eqnil(t, x, y))

	case token.GTR:
		switch x.(type) {
		case int:
			return x.(int) > y.(int)
		case int8:
			return x.(int8) > y.(int8)
		case int16:
			return x.(int16) > y.(int16)
		case int32:
			return x.(int32) > y.(int32)
		case int64:
			return x.(int64) > y.(int64)
		case uint:
			return x.(uint) > y.(uint)
		case uint8:
			return x.(uint8) > y.(uint8)
		case uint16:
			return x.(uint16) > y.(uint16)
		case uint32:
			return x.(uint32) > y.(uint32)
		case uint64:
			return x.(uint64) > y.(uint64)
		case uintptr:
			return x.(uintptr) > y.(uintptr)
		case float32:
			return x.(float32) > y.(float32)
		case float64:
			return x.(float64) > y.(float64)
		case string:
			return x.(string) > y.(string)
		}

	case token.GEQ:
		switch x.(type) {
		case int:
			return x.(int) >= y.(int)
		case int8:
			return x.(int8) >= y.(int8)
		case int16:
			return x.(int16) >= y.(int16)
		case int32:
			return x.(int32) >= y.(int32)
		case int64:
			return x.(int64) >= y.(int64)
		case uint:
			return x.(uint) >= y.(uint)
		case uint8:
			return x.(uint8) >= y.(uint8)
		case uint16:
			return x.(uint16) >= y.(uint16)
		case uint32:
			return x.(uint32) >= y.(uint32)
		case uint64:
			return x.(uint64) >= y.(uint64)
		case uintptr:
			return x.(uintptr) >= y.(uintptr)
		case float32:
			return x.(float32) >= y.(float32)
		case float64:
			return x.(float64) >= y.(float64)
		case string:
			return x.(string) >= y.(string)
		}
	}
	panic(engineErr(fmt.Sprintf("invalid binary op: %T %s %T", x, op, y)))
}

// eqnil returns the comparison x == y using the equivalence relation
// appropriate for type t.
// If t is a reference type, at most one of x or y may be a nil value
// of that type.
func eqnil(t types.Type, x, y value) value {
	switch t.Underlying().(type) {
	case *types.Map, *types.Signature, *types.Slice:
		// Since these types don't support comparison,
		// one of the operands must be a literal nil.
		switch x := x.(type) {
		case *smap:
			return (x != nil) == (y.(*smap) != nil)
		case *ssa.Function:
			switch y := y.(type) {
			case *ssa.Function:
				return (x != nil) == (y != nil)
			case *closure:
				return true
			}
		case *closure:
			return (x != nil) == (y.(*ssa.Function) != nil)
		case []value:
			return (x != nil) == (y.([]value) != nil)
		}
		panic(engineErr(fmt.Sprintf("eqnil(%s): illegal dynamic type: %T", t, x)))
	}

	return eqVal(t, x, y)
}

func unop(instr *ssa.UnOp, x value) value {
	if _, ok := x.(sv); ok && instr.Op != token.MUL && instr.Op != token.ARROW {
		return symUnop(instr.Op, x)
	}
	switch instr.Op {
	case token.ARROW: // receive
		v, ok := x.(*chanv).recv(instr.X.Type().Underlying().(*types.Chan).Elem())
		if instr.CommaOk {
			v = tuple{v, ok}
		}
		return v
	case token.SUB:
		switch x := x.(type) {
		case int:
			return -x
		case int8:
			return -x
		case int16:
			return -x
		case int32:
			return -x
		case int64:
			return -x
		case uint:
			return -x
		case uint8:
			return -x
		case uint16:
			return -x
		case uint32:
			return -x
		case uint64:
			return -x
		case uintptr:
			return -x
		case float32:
			return -x
		case float64:
			return -x
		case complex64:
			return -x
		case complex128:
			return -x
		}
	case token.MUL:
		if watchHook != nil {
			if p, ok := x.(*value); ok {
				onLoad(theInterp, nil, p)
			}
		}
		return loadPtr(mustDeref(instr.X.Type()), x)
	case token.NOT:
		return !x.(bool)
	case token.XOR:
		switch x := x.(type) {
		case int:
			return ^x
		case int8:
			return ^x
		case int16:
			return ^x
		case int32:
			return ^x
		case int64:
			return ^x
		case uint:
			return ^x
		case uint8:
			return ^x
		case uint16:
			return ^x
		case uint32:
			return ^x
		case uint64:
			return ^x
		case uintptr:
			return ^x
		}
	}
	panic(engineErr(fmt.Sprintf("invalid unary op %s %T", instr.Op, x)))
}

// typeAssert checks whether dynamic type of itf is instr.AssertedType.
// It returns the extracted value on success, and panics on failure,
// unless instr.CommaOk, in which case it always returns a "value,ok" tuple.
func typeAssert(i *interpreter, instr *ssa.TypeAssert, itf iface) value {
	var v value
	err := ""
	if itf.t == nil {
		err = fmt.Sprintf("interface conversion: interface is nil, not %s", instr.AssertedType)

	} else if idst, ok := instr.AssertedType.Underlying().(*types.Interface); ok {
		v = itf
		err = checkInterface(i, idst, itf)

	} else if types.Identical(itf.t, instr.AssertedType) {
		v = itf.v // extract value

	} else {
		err = fmt.Sprintf("interface conversion: interface is %s, not %s", itf.t, instr.AssertedType)
	}
	// Note: if instr.Underlying==true ever becomes reachable from interp check that
	// types.Identical(itf.t.Underlying(), instr.AssertedType)

	if err != "" {
		if !instr.CommaOk {
			panic(targetPanicStr(err))
		}
		return tuple{zero(instr.AssertedType), false}
	}
	if instr.CommaOk {
		return tuple{v, true}
	}
	return v
}

// callBuiltin interprets a call to builtin fn with arguments args,
// returning its result.
func callBuiltin(caller *frame, callpos token.Pos, fn *ssa.Builtin, args []value) value {
	switch fn.Name() {
	case "append":
		if len(args) == 1 {
			return args[0]
		}
		var add []value
		switch a := args[1].(type) {
		case string, symstr:
			add = strCells(a)
		case []value:
			add = a
		default:
			panic(engineErr(fmt.Sprintf("append: %T", a)))
		}
		out := appendSlice(args[0].([]value), add)
		fillSpare(out, fn.Type().(*types.Signature).Params().At(0).Type().Underlying().(*types.Slice).Elem())
		return out

	case "copy": // copy([]T, []T) int or copy([]byte, string) int
		var src []value
		switch a := args[1].(type) {
		case string, symstr:
			src = strCells(a)
		case []value:
			src = a
		default:
			panic(engineErr(fmt.Sprintf("copy: %T", a)))
		}
		dst := args[0].([]value)
		n := len(dst)
		if len(src) < n {
			n = len(src)
		}
		if n > 0 && &dst[0] != &src[0] {
			tmp := make([]value, n)
			for i := 0; i < n; i++ {
				tmp[i] = copyVal(src[i])
			}
			for i := 0; i < n; i++ {
				setCell(&dst[i], tmp[i])
			}
		}
		return n

	case "close": // close(chan T)
		args[0].(*chanv).close()
		return nil

	case "delete": // delete(map[K]value, K)
		args[0].(*smap).delete(args[1])
		return nil

	case "clear":
		switch a := args[0].(type) {
		case *smap:
			a.clear()
		case []value:
			t := fn.Type().(*types.Signature).Params().At(0).Type().Underlying().(*types.Slice).Elem()
			for i := range a {
				store(t, &a[i], zero(t))
			}
		}
		return nil

	case "print", "println": // print(any, ...)
		ln := fn.Name() == "println"
		var buf bytes.Buffer
		for i, arg := range args {
			if i > 0 && ln {
				buf.WriteRune(' ')
			}
			buf.WriteString(toString(arg))
		}
		if ln {
			buf.WriteRune('\n')
		}
		os.Stderr.Write(buf.Bytes())
		return nil

	case "len":
		switch x := args[0].(type) {
		case string:
			return len(x)
		case symstr:
			return len(x)
		case array:
			return len(x)
		case *value:
			return len((*x).(array))
		case []value:
			return len(x)
		case *smap:
			return x.len()
		case *chanv:
			if x == nil {
				return 0
			}
			return len(x.buf)
		default:
			panic(engineErr(fmt.Sprintf("len: illegal operand: %T", x)))
		}

	case "cap":
		switch x := args[0].(type) {
		case array:
			return cap(x)
		case *value:
			return cap((*x).(array))
		case []value:
			return cap(x)
		case *chanv:
			if x == nil {
				return 0
			}
			return x.cap
		default:
			panic(engineErr(fmt.Sprintf("cap: illegal operand: %T", x)))
		}

	case "min", "max":
		anySym := false
		for _, a := range args {
			if _, ok := a.(sv); ok {
				anySym = true
			}
		}
		if anySym {
			k := valKind(args[0])
			_, signed := kindInfo(k)
			acc := scalarTerm(args[0], k)
			for _, a := range args[1:] {
				t := scalarTerm(a, k)
				var lt *Term
				if signed {
					lt = mkCmp(opSlt, t, acc)
				} else {
					lt = mkCmp(opUlt, t, acc)
				}
				if fn.Name() == "max" {
					lt = mkNot(mkOr(lt, mkEq(t, acc)))
				}
				acc = mkIte(lt, t, acc)
			}
			return termToVal(acc, k)
		}
		if fn.Name() == "min" {
			return foldLeft(min, args)
		}
		return foldLeft(max, args)

	case "real":
		switch c := args[0].(type) {
		case complex64:
			return real(c)
		case complex128:
			return real(c)
		default:
			panic(fmt.Sprintf("real: illegal operand: %T", c))
		}

	case "imag":
		switch c := args[0].(type) {
		case complex64:
			return imag(c)
		case complex128:
			return imag(c)
		default:
			panic(fmt.Sprintf("imag: illegal operand: %T", c))
		}

	case "complex":
		switch f := args[0].(type) {
		case float32:
			return complex(f, args[1].(float32))
		case float64:
			return complex(f, args[1].(float64))
		default:
			panic(fmt.Sprintf("complex: illegal operand: %T", f))
		}

	case "panic":
		// ssa.Panic handles most cases; this is only for "go
		// panic" or "defer panic".
		panic(targetPanic{args[0]})

	case "recover":
		return doRecover(caller)

	case "ssa:wrapnilchk":
		recv := args[0]
		if p, ok := recv.(*value); ok && p == nil {
			recvType := args[1]
			methodName := args[2]
			panic(targetPanicStr(fmt.Sprintf("value method (%s).%s called using nil *%s pointer",
				recvType, methodName, recvType)))
		}
		return recv

	case "ssa:deferstack":
		return &caller.defers

	case "String": // unsafe.String(ptr, len)
		sd, ok := args[0].(slicedata)
		if !ok {
			panic(engineErr("unsafe.String on unsupported pointer"))
		}
		n := asInt64(args[1])
		switch s := sd.s.(type) {
		case []value:
			return normStr(s[:n])
		case string:
			return s[:n]
		case symstr:
			return normStr([]value(s[:n]))
		}
	case "SliceData", "StringData":
		return slicedata{args[0]}
	case "Slice": // unsafe.Slice(ptr, len)
		if sd, ok := args[0].(slicedata); ok {
			n := asInt64(args[1])
			switch s := sd.s.(type) {
			case []value:
				return s[:n:n]
			case string, symstr:
				c := strCells(s)
				return c[:n:n]
			}
		}
	}

	panic(engineErr("unknown built-in: " + fn.Name()))
}

func rangeIter(x value, t types.Type) iter {
	switch x := x.(type) {
	case *smap:
		return x.iter()
	case string, symstr:
		return &stringIter{s: strCells(x)}
	}
	panic(engineErr(fmt.Sprintf("cannot range over %T", x)))
}

// widen widens a basic typed value x to the widest type of its
// category, one of:
//
//	bool, int64, uint64, float64, complex128, string.
//
// This is inefficient but reduces the size of the cross-product of
// cases we have to consider.
func widen(x value) value {
	switch y := x.(type) {
	case bool, int64, uint64, float64, complex128, string, unsafe.Pointer:
		return x
	case int:
		return int64(y)
	case int8:
		return int64(y)
	case int16:
		return int64(y)
	case int32:
		return int64(y)
	case uint:
		return uint64(y)
	case uint8:
		return uint64(y)
	case uint16:
		return uint64(y)
	case uint32:
		return uint64(y)
	case uintptr:
		return uint64(y)
	case float32:
		return float64(y)
	case complex64:
		return complex128(y)
	}
	panic(fmt.Sprintf("cannot widen %T", x))
}

// conv converts the value x of type t_src to type t_dst and returns
// the result.
// Possible cases are described with the ssa.Convert operator.
func conv(t_dst, t_src types.Type, x value) value {
	ut_src := t_src.Underlying()
	ut_dst := t_dst.Underlying()

	// Destination type is not an "untyped" type.
	if b, ok := ut_dst.(*types.Basic); ok && b.Info()&types.IsUntyped != 0 {
		panic("oops: conversion to 'untyped' type: " + b.String())
	}

	// Nor is it an interface type.
	if _, ok := ut_dst.(*types.Interface); ok {
		if _, ok := ut_src.(*types.Interface); ok {
			panic("oops: Convert should be ChangeInterface")
		} else {
			panic("oops: Convert should be MakeInterface")
		}
	}

	// Remaining conversions:
	//    + untyped string/number/bool constant to a specific
	//      representation.
	//    + conversions between non-complex numeric types.
	//    + conversions between complex numeric types.
	//    + integer/[]byte/[]rune -> string.
	//    + string -> []byte/[]rune.
	//
	// All are treated the same: first we extract the value to the
	// widest representation (int64, uint64, float64, complex128,
	// or string), then we convert it to the desired type.

	if r, ok := symConv(ut_dst, ut_src, x); ok {
		return r
	}

	switch ut_src := ut_src.(type) {
	case *types.Pointer:
		switch ut_dst := ut_dst.(type) {
		case *types.Basic:
			// *value to unsafe.Pointer?
			if ut_dst.Kind() == types.UnsafePointer {
				return slicedata{x}
			}
		}

	case *types.Slice:
		// []byte or []rune -> string
		switch ut_src.Elem().Underlying().(*types.Basic).Kind() {
		case types.Byte:
			x := x.([]value)
			b := make([]byte, 0, len(x))
			for i := range x {
				b = append(b, x[i].(byte))
			}
			return string(b)

		case types.Rune:
			x := x.([]value)
			r := make([]rune, 0, len(x))
			for i := range x {
				r = append(r, x[i].(rune))
			}
			return string(r)
		}

	case *types.Basic:
		x = widen(x)

		// integer -> string?
		if ut_src.Info()&types.IsInteger != 0 {
			if ut_dst, ok := ut_dst.(*types.Basic); ok && ut_dst.Kind() == types.String {
				return fmt.Sprintf("%c", x)
			}
		}

		// string -> []rune, []byte or string?
		if s, ok := x.(string); ok {
			switch ut_dst := ut_dst.(type) {
			case *types.Slice:
				var res []value
				switch ut_dst.Elem().Underlying().(*types.Basic).Kind() {
				case types.Rune:
					for _, r := range []rune(s) {
						res = append(res, r)
					}
					return res
				case types.Byte:
					for _, b := range []byte(s) {
						res = append(res, b)
					}
					return res
				}
			case *types.Basic:
				if ut_dst.Kind() == types.String {
					return x.(string)
				}
			}
			break // fail: no other conversions for string
		}

		// unsafe.Pointer -> *value
		if sd, ok := x.(slicedata); ok {
			if _, isPtr := ut_dst.(*types.Pointer); isPtr {
				if p, ok := sd.s.(*value); ok {
					return p
				}
			}
			if b, isB := ut_dst.(*types.Basic); isB && b.Kind() == types.UnsafePointer {
				return sd
			}
			panic(engineErr("unsupported unsafe.Pointer conversion"))
		}
		if ut_src.Kind() == types.UnsafePointer {
			// TODO(adonovan): this is wrong and cannot
			// really be fixed with the current design.
			//
			// return (*value)(x.(unsafe.Pointer))
			// creates a new pointer of a different
			// type but the underlying interface value
			// knows its "true" type and so cannot be
			// meaningfully used through the new pointer.
			//
			// To make this work, the interpreter needs to
			// simulate the memory layout of a real
			// compiled implementation.
			//
			// To at least preserve type-safety, we'll
			// just return the zero value of the
			// destination type.
			return zero(t_dst)
		}

		// Conversions between complex numeric types?
		if ut_src.Info()&types.IsComplex != 0 {
			switch ut_dst.(*types.Basic).Kind() {
			case types.Complex64:
				return complex64(x.(complex128))
			case types.Complex128:
				return x.(complex128)
			}
			break // fail: no other conversions for complex
		}

		// Conversions between non-complex numeric types?
		if ut_src.Info()&types.IsNumeric != 0 {
			kind := ut_dst.(*types.Basic).Kind()
			switch x := x.(type) {
			case int64: // signed integer -> numeric?
				switch kind {
				case types.Int:
					return int(x)
				case types.Int8:
					return int8(x)
				case types.Int16:
					return int16(x)
				case types.Int32:
					return int32(x)
				case types.Int64:
					return int64(x)
				case types.Uint:
					return uint(x)
				case types.Uint8:
					return uint8(x)
				case types.Uint16:
					return uint16(x)
				case types.Uint32:
					return uint32(x)
				case types.Uint64:
					return uint64(x)
				case types.Uintptr:
					return uintptr(x)
				case types.Float32:
					return float32(x)
				case types.Float64:
					return float64(x)
				}

			case uint64: // unsigned integer -> numeric?
				switch kind {
				case types.Int:
					return int(x)
				case types.Int8:
					return int8(x)
				case types.Int16:
					return int16(x)
				case types.Int32:
					return int32(x)
				case types.Int64:
					return int64(x)
				case types.Uint:
					return uint(x)
				case types.Uint8:
					return uint8(x)
				case types.Uint16:
					return uint16(x)
				case types.Uint32:
					return uint32(x)
				case types.Uint64:
					return uint64(x)
				case types.Uintptr:
					return uintptr(x)
				case types.Float32:
					return float32(x)
				case types.Float64:
					return float64(x)
				}

			case float64: // floating point -> numeric?
				switch kind {
				case types.Int:
					return int(x)
				case types.Int8:
					return int8(x)
				case types.Int16:
					return int16(x)
				case types.Int32:
					return int32(x)
				case types.Int64:
					return int64(x)
				case types.Uint:
					return uint(x)
				case types.Uint8:
					return uint8(x)
				case types.Uint16:
					return uint16(x)
				case types.Uint32:
					return uint32(x)
				case types.Uint64:
					return uint64(x)
				case types.Uintptr:
					return uintptr(x)
				case types.Float32:
					return float32(x)
				case types.Float64:
					return float64(x)
				}
			}
		}
	}

	panic(engineErr(fmt.Sprintf("unsupported conversion: %s  -> %s, dynamic type %T", t_src, t_dst, x)))
}

// sliceToArrayPointer converts the value x of type slice to type t_dst
// a pointer to array and returns the result.
func sliceToArrayPointer(t_dst, t_src types.Type, x value) value {
	if _, ok := t_src.Underlying().(*types.Slice); ok {
		if ptr, ok := t_dst.Underlying().(*types.Pointer); ok {
			if arr, ok := ptr.Elem().Underlying().(*types.Array); ok {
				x := x.([]value)
				if arr.Len() > int64(len(x)) {
					panic(targetPanicStr("runtime error: cannot convert slice to array pointer: length mismatch"))
				}
				if x == nil {
					return zero(t_dst)
				}
				v := value(array(x[:arr.Len()]))
				return &v
			}
		}
	}

	panic(fmt.Sprintf("unsupported conversion: %s  -> %s, dynamic type %T", t_src, t_dst, x))
}

// checkInterface checks that the method set of x implements the
// interface itype.
// On success it returns "", on failure, an error message.
func checkInterface(i *interpreter, itype *types.Interface, x iface) string {
	if meth, _ := types.MissingMethod(x.t, itype, true); meth != nil {
		return fmt.Sprintf("interface conversion: %v is not %v: missing method %s",
			x.t, itype, meth.Name())
	}
	return "" // ok
}

func foldLeft(op func(value, value) value, args []value) value {
	x := args[0]
	for _, arg := range args[1:] {
		x = op(x, arg)
	}
	return x
}

func min(x, y value) value {
	switch x := x.(type) {
	case float32:
		return fmin(x, y.(float32))
	case float64:
		return fmin(x, y.(float64))
	}

	// return (y < x) ? y : x
	if binop(token.LSS, nil, y, x).(bool) {
		return y
	}
	return x
}

func max(x, y value) value {
	switch x := x.(type) {
	case float32:
		return fmax(x, y.(float32))
	case float64:
		return fmax(x, y.(float64))
	}

	// return (y > x) ? y : x
	if binop(token.GTR, nil, y, x).(bool) {
		return y
	}
	return x
}

// copied from $GOROOT/src/runtime/minmax.go

type floaty interface{ ~float32 | ~float64 }

func fmin[F floaty](x, y F) F {
	if y != y || y < x {
		return y
	}
	if x != x || x < y || x != 0 {
		return x
	}
	// x and y are both ±0
	// if either is -0, return -0; else return +0
	return forbits(x, y)
}

func fmax[F floaty](x, y F) F {
	if y != y || y > x {
		return y
	}
	if x != x || x > y || x != 0 {
		return x
	}
	// x and y are both ±0
	// if both are -0, return -0; else return +0
	return fandbits(x, y)
}

func forbits[F floaty](x, y F) F {
	switch unsafe.Sizeof(x) {
	case 4:
		*(*uint32)(unsafe.Pointer(&x)) |= *(*uint32)(unsafe.Pointer(&y))
	case 8:
		*(*uint64)(unsafe.Pointer(&x)) |= *(*uint64)(unsafe.Pointer(&y))
	}
	return x
}

func fandbits[F floaty](x, y F) F {
	switch unsafe.Sizeof(x) {
	case 4:
		*(*uint32)(unsafe.Pointer(&x)) &= *(*uint32)(unsafe.Pointer(&y))
	case 8:
		*(*uint64)(unsafe.Pointer(&x)) &= *(*uint64)(unsafe.Pointer(&y))
	}
	return x
}
