package main

// Association-list maps with insertion-order iteration. Keys with symbolic parts are
// resolved against existing entries by path decisions (so presence is always concrete),
// except lookups in maps with scalar element type, which yield an ite chain.

import (
	"go/types"
)

type mentry struct {
	key     value
	val     value
	deleted bool
}

type smap struct {
	keyT    types.Type
	elemT   types.Type
	entries []*mentry
	index   map[interface{}]*mentry // concrete keys only
	n       int
}

func makeMap(t *types.Map) *smap {
	return &smap{keyT: t.Key(), elemT: t.Elem(), index: map[interface{}]*mentry{}}
}

func (m *smap) len() int {
	if m == nil {
		return 0
	}
	return m.n
}

// find returns the entry whose key equals k on the current path (forking as needed).
func (m *smap) find(k value) *mentry {
	if m == nil {
		return nil
	}
	if hk, ok := hashKey(m.keyT, k); ok {
		if e := m.index[hk]; e != nil {
			return e
		}
		// may still equal an entry with a symbolic key
		for _, e := range m.entries {
			if e.deleted {
				continue
			}
			if _, conc := hashKey(m.keyT, e.key); conc {
				continue
			}
			if decideVal(eqVal(m.keyT, e.key, k)) {
				return e
			}
		}
		return nil
	}
	for _, e := range m.entries {
		if e.deleted {
			continue
		}
		if decideVal(eqVal(m.keyT, e.key, k)) {
			return e
		}
	}
	return nil
}

func (m *smap) lookup(k value) (value, value) {
	// scalar element type and symbolic scalar key: ite chain, no forking
	if ks, ok := k.(sv); ok {
		if eb, ok := m.elemT.Underlying().(*types.Basic); ok && eb.Info()&(types.IsInteger|types.IsBoolean) != 0 {
			allConc := true
			for _, e := range m.entries {
				if !e.deleted {
					if _, c := hashKey(m.keyT, e.key); !c {
						allConc = false
					}
				}
			}
			if allConc {
				acc := scalarTerm(zero(m.elemT), eb.Kind())
				found := termFalse
				for i := len(m.entries) - 1; i >= 0; i-- {
					e := m.entries[i]
					if e.deleted {
						continue
					}
					g := boolTerm(eqVal(m.keyT, e.key, ks))
					acc = mkIte(g, scalarTerm(e.val, eb.Kind()), acc)
					found = mkOr(found, g)
				}
				return termToVal(acc, eb.Kind()), termToBoolVal(found)
			}
		}
	}
	if e := m.find(k); e != nil {
		return e.val, true
	}
	return zero(m.elemT), false
}

func (m *smap) insert(k, v value) {
	if m == nil {
		panic(targetPanicStr("assignment to entry in nil map"))
	}
	if e := m.find(k); e != nil {
		old := e.val
		journalFn(func() { e.val = old })
		e.val = v
		return
	}
	e := &mentry{key: k, val: v}
	m.entries = append(m.entries, e)
	m.n++
	hk, conc := hashKey(m.keyT, k)
	if conc {
		m.index[hk] = e
	}
	journalFn(func() {
		m.entries = m.entries[:len(m.entries)-1]
		m.n--
		if conc {
			delete(m.index, hk)
		}
	})
}

func (m *smap) delete(k value) {
	if m == nil {
		return
	}
	e := m.find(k)
	if e == nil {
		return
	}
	e.deleted = true
	m.n--
	hk, conc := hashKey(m.keyT, e.key)
	if conc {
		delete(m.index, hk)
	}
	journalFn(func() {
		e.deleted = false
		m.n++
		if conc {
			m.index[hk] = e
		}
	})
}

func (m *smap) clear() {
	if m == nil {
		return
	}
	for _, e := range m.entries {
		if !e.deleted {
			m.delete(e.key)
		}
	}
}

func (m *smap) iter() *mapIter {
	if m == nil {
		return &mapIter{}
	}
	ks := make([]*mentry, 0, len(m.entries))
	for _, e := range m.entries {
		if !e.deleted {
			ks = append(ks, e)
		}
	}
	if mapOrderHook != nil {
		ks = mapOrderHook(m, ks)
	}
	return &mapIter{m: m, keys: ks}
}

// mapOrderHook lets a harness ask for all iteration orders (forked) of small maps.
var mapOrderHook func(m *smap, ks []*mentry) []*mentry
