package main

// Hash-consed SMT terms (QF_BV + Bool) with constant folding.

import (
	"fmt"
	"strings"
	"sync"
)

type Op uint8

const (
	opConst Op = iota // bit-vector or bool constant
	opVar
	opNot // bool
	opAnd
	opOr
	opIte
	opEq
	opUlt
	opUle
	opSlt
	opSle
	opBvNot
	opBvNeg
	opAdd
	opSub
	opMul
	opUdiv
	opSdiv
	opUrem
	opSrem
	opBvAnd
	opBvOr
	opBvXor
	opShl
	opLshr
	opAshr
	opExtract
	opZext
	opSext
	opConcat
)

var opNames = map[Op]string{
	opNot: "not", opAnd: "and", opOr: "or", opIte: "ite", opEq: "=",
	opUlt: "bvult", opUle: "bvule", opSlt: "bvslt", opSle: "bvsle",
	opBvNot: "bvnot", opBvNeg: "bvneg", opAdd: "bvadd", opSub: "bvsub", opMul: "bvmul",
	opUdiv: "bvudiv", opSdiv: "bvsdiv", opUrem: "bvurem", opSrem: "bvsrem",
	opBvAnd: "bvand", opBvOr: "bvor", opBvXor: "bvxor", opShl: "bvshl", opLshr: "bvlshr", opAshr: "bvashr",
	opConcat: "concat",
}

// Term is an immutable hash-consed SMT term. sort 0 = Bool, n>0 = (_ BitVec n), n <= 64.
type Term struct {
	id     int
	op     Op
	sort   int
	args   []*Term
	val    uint64 // opConst
	name   string // opVar
	hi, lo int    // opExtract; lo reused as extension amount for zext/sext
}

var (
	termMu    sync.Mutex
	termTable = map[string]*Term{}
	termSeq   int
)

func intern(t *Term) *Term {
	var sb strings.Builder
	fmt.Fprintf(&sb, "%d/%d/%d/%d/%d/%s", t.op, t.sort, t.val, t.hi, t.lo, t.name)
	for _, a := range t.args {
		fmt.Fprintf(&sb, ",%d", a.id)
	}
	k := sb.String()
	termMu.Lock()
	defer termMu.Unlock()
	if e, ok := termTable[k]; ok {
		return e
	}
	termSeq++
	t.id = termSeq
	termTable[k] = t
	return t
}

func mask(w int) uint64 {
	if w >= 64 {
		return ^uint64(0)
	}
	return (uint64(1) << uint(w)) - 1
}

func signExt(v uint64, w int) int64 {
	if w >= 64 {
		return int64(v)
	}
	if v&(1<<uint(w-1)) != 0 {
		return int64(v | ^mask(w))
	}
	return int64(v)
}

func mkBV(w int, v uint64) *Term { return intern(&Term{op: opConst, sort: w, val: v & mask(w)}) }
func mkBool(b bool) *Term {
	if b {
		return termTrue
	}
	return termFalse
}

var termTrue = intern(&Term{op: opConst, sort: 0, val: 1})
var termFalse = intern(&Term{op: opConst, sort: 0, val: 0})

func mkVar(name string, sort int) *Term { return intern(&Term{op: opVar, sort: sort, name: name}) }

func (t *Term) isConst() bool { return t.op == opConst }
func (t *Term) isTrue() bool  { return t == termTrue }
func (t *Term) isFalse() bool { return t == termFalse }

func mkNot(a *Term) *Term {
	if a.sort != 0 {
		panic(engineErr("mkNot on non-bool"))
	}
	if a.isConst() {
		return mkBool(a.val == 0)
	}
	if a.op == opNot {
		return a.args[0]
	}
	return intern(&Term{op: opNot, sort: 0, args: []*Term{a}})
}

func mkAnd(a, b *Term) *Term {
	if a.isFalse() || b.isFalse() {
		return termFalse
	}
	if a.isTrue() {
		return b
	}
	if b.isTrue() {
		return a
	}
	if a == b {
		return a
	}
	if (a.op == opNot && a.args[0] == b) || (b.op == opNot && b.args[0] == a) {
		return termFalse
	}
	return intern(&Term{op: opAnd, sort: 0, args: []*Term{a, b}})
}

func mkOr(a, b *Term) *Term {
	if a.isTrue() || b.isTrue() {
		return termTrue
	}
	if a.isFalse() {
		return b
	}
	if b.isFalse() {
		return a
	}
	if a == b {
		return a
	}
	if (a.op == opNot && a.args[0] == b) || (b.op == opNot && b.args[0] == a) {
		return termTrue
	}
	return intern(&Term{op: opOr, sort: 0, args: []*Term{a, b}})
}

func mkImplies(a, b *Term) *Term { return mkOr(mkNot(a), b) }

func mkIte(c, a, b *Term) *Term {
	if c.sort != 0 || a.sort != b.sort {
		panic(engineErr(fmt.Sprintf("mkIte sorts %d %d %d", c.sort, a.sort, b.sort)))
	}
	if c.isTrue() {
		return a
	}
	if c.isFalse() {
		return b
	}
	if a == b {
		return a
	}
	if a.sort == 0 {
		if a.isTrue() && b.isFalse() {
			return c
		}
		if a.isFalse() && b.isTrue() {
			return mkNot(c)
		}
		if a.isTrue() {
			return mkOr(c, b)
		}
		if a.isFalse() {
			return mkAnd(mkNot(c), b)
		}
		if b.isTrue() {
			return mkOr(mkNot(c), a)
		}
		if b.isFalse() {
			return mkAnd(c, a)
		}
	}
	// ite(c, x, ite(c, y, z)) -> ite(c, x, z)
	if b.op == opIte && b.args[0] == c {
		return mkIte(c, a, b.args[2])
	}
	if a.op == opIte && a.args[0] == c {
		return mkIte(c, a.args[1], b)
	}
	return intern(&Term{op: opIte, sort: a.sort, args: []*Term{c, a, b}})
}

func mkEq(a, b *Term) *Term {
	if a.sort != b.sort {
		panic(engineErr(fmt.Sprintf("mkEq sorts %d %d", a.sort, b.sort)))
	}
	if a == b {
		return termTrue
	}
	if a.isConst() && b.isConst() {
		return mkBool(a.val == b.val)
	}
	if a.sort == 0 {
		if a.isConst() {
			a, b = b, a
		}
		if b.isTrue() {
			return a
		}
		if b.isFalse() {
			return mkNot(a)
		}
	}
	// eq(ite(c,k1,k2), k) with constants: simplify
	if b.isConst() && a.op == opIte && a.args[1].isConst() && a.args[2].isConst() {
		return mkIte(a.args[0], mkEq(a.args[1], b), mkEq(a.args[2], b))
	}
	if a.isConst() && b.op == opIte && b.args[1].isConst() && b.args[2].isConst() {
		return mkIte(b.args[0], mkEq(b.args[1], a), mkEq(b.args[2], a))
	}
	// zext(x) == const
	if b.isConst() && a.op == opZext {
		inner := a.args[0]
		if b.val&^mask(inner.sort) != 0 {
			return termFalse
		}
		return mkEq(inner, mkBV(inner.sort, b.val))
	}
	if a.isConst() && b.op == opZext {
		return mkEq(b, a)
	}
	if a.id > b.id {
		a, b = b, a
	}
	return intern(&Term{op: opEq, sort: 0, args: []*Term{a, b}})
}

func mkCmp(op Op, a, b *Term) *Term {
	if a.sort != b.sort || a.sort == 0 {
		panic(engineErr(fmt.Sprintf("mkCmp sorts %d %d", a.sort, b.sort)))
	}
	w := a.sort
	if a.isConst() && b.isConst() {
		switch op {
		case opUlt:
			return mkBool(a.val < b.val)
		case opUle:
			return mkBool(a.val <= b.val)
		case opSlt:
			return mkBool(signExt(a.val, w) < signExt(b.val, w))
		case opSle:
			return mkBool(signExt(a.val, w) <= signExt(b.val, w))
		}
	}
	if a == b {
		return mkBool(op == opUle || op == opSle)
	}
	switch op {
	case opUlt:
		if b.isConst() && b.val == 0 {
			return termFalse
		}
	case opUle:
		if a.isConst() && a.val == 0 {
			return termTrue
		}
		if b.isConst() && b.val == mask(w) {
			return termTrue
		}
	}
	// comparisons on zero-extended values against constants: range reasoning
	if r, ok := cmpRange(op, a, b); ok {
		return mkBool(r)
	}
	return intern(&Term{op: op, sort: 0, args: []*Term{a, b}})
}

// urange returns a conservative unsigned range of t when it is cheaply known.
func urange(t *Term) (lo, hi uint64, ok bool) {
	switch t.op {
	case opConst:
		return t.val, t.val, true
	case opZext:
		return 0, mask(t.args[0].sort), true
	case opIte:
		l1, h1, ok1 := urange(t.args[1])
		l2, h2, ok2 := urange(t.args[2])
		if ok1 && ok2 {
			if l2 < l1 {
				l1 = l2
			}
			if h2 > h1 {
				h1 = h2
			}
			return l1, h1, true
		}
	case opBvAnd:
		if t.args[1].isConst() {
			return 0, t.args[1].val, true
		}
		if t.args[0].isConst() {
			return 0, t.args[0].val, true
		}
	case opLshr:
		if t.args[1].isConst() {
			k := t.args[1].val
			if k >= uint64(t.sort) {
				return 0, 0, true
			}
			_, h, ok := urange(t.args[0])
			if !ok {
				h = mask(t.sort)
			}
			return 0, h >> k, true
		}
	case opUrem:
		if t.args[1].isConst() && t.args[1].val != 0 {
			return 0, t.args[1].val - 1, true
		}
	case opAdd:
		l1, h1, ok1 := urange(t.args[0])
		l2, h2, ok2 := urange(t.args[1])
		if ok1 && ok2 && h1 <= mask(t.sort)-h2 {
			return l1 + l2, h1 + h2, true
		}
	case opBvOr:
		l1, h1, ok1 := urange(t.args[0])
		l2, h2, ok2 := urange(t.args[1])
		if ok1 && ok2 {
			// upper bound: all bits below the highest set bit of either bound; lower bound: x|y >= max(x, y)
			m := h1 | h2
			for sh := uint(1); sh < 64; sh <<= 1 {
				m |= m >> sh
			}
			lo := l1
			if l2 > lo {
				lo = l2
			}
			return lo, m, true
		}
		if ok1 && t.args[0].isConst() {
			return l1, mask(t.sort), true
		}
		if ok2 && t.args[1].isConst() {
			return l2, mask(t.sort), true
		}
	}
	return 0, 0, false
}

func cmpRange(op Op, a, b *Term) (bool, bool) {
	la, ha, ok1 := urange(a)
	lb, hb, ok2 := urange(b)
	if !ok1 || !ok2 {
		return false, false
	}
	w := a.sort
	signedSafe := ha < (uint64(1)<<uint(w-1)) && hb < (uint64(1)<<uint(w-1))
	switch op {
	case opSlt, opSle:
		if !signedSafe {
			return false, false
		}
	}
	switch op {
	case opUlt, opSlt:
		if ha < lb {
			return true, true
		}
		if la >= hb {
			return false, true
		}
	case opUle, opSle:
		if ha <= lb {
			return true, true
		}
		if la > hb {
			return false, true
		}
	}
	return false, false
}

func mkUn(op Op, a *Term) *Term {
	w := a.sort
	if a.isConst() {
		switch op {
		case opBvNot:
			return mkBV(w, ^a.val)
		case opBvNeg:
			return mkBV(w, -a.val)
		}
	}
	if a.op == op {
		return a.args[0]
	}
	return intern(&Term{op: op, sort: w, args: []*Term{a}})
}

func mkBin(op Op, a, b *Term) *Term {
	if a.sort != b.sort || a.sort == 0 {
		panic(engineErr(fmt.Sprintf("mkBin %s sorts %d %d", opNames[op], a.sort, b.sort)))
	}
	w := a.sort
	if a.isConst() && b.isConst() {
		x, y := a.val, b.val
		switch op {
		case opAdd:
			return mkBV(w, x+y)
		case opSub:
			return mkBV(w, x-y)
		case opMul:
			return mkBV(w, x*y)
		case opBvAnd:
			return mkBV(w, x&y)
		case opBvOr:
			return mkBV(w, x|y)
		case opBvXor:
			return mkBV(w, x^y)
		case opShl:
			if y >= uint64(w) {
				return mkBV(w, 0)
			}
			return mkBV(w, x<<y)
		case opLshr:
			if y >= uint64(w) {
				return mkBV(w, 0)
			}
			return mkBV(w, x>>y)
		case opAshr:
			sx := signExt(x, w)
			if y >= uint64(w) {
				y = uint64(w) - 1
			}
			return mkBV(w, uint64(sx>>y))
		case opUdiv:
			if y != 0 {
				return mkBV(w, x/y)
			}
		case opUrem:
			if y != 0 {
				return mkBV(w, x%y)
			}
		case opSdiv:
			if y != 0 {
				sx, sy := signExt(x, w), signExt(y, w)
				if !(sy == -1 && sx == signExt(uint64(1)<<uint(w-1), w)) {
					return mkBV(w, uint64(sx/sy))
				}
				return mkBV(w, x)
			}
		case opSrem:
			if y != 0 {
				sx, sy := signExt(x, w), signExt(y, w)
				if sy == -1 {
					return mkBV(w, 0)
				}
				return mkBV(w, uint64(sx%sy))
			}
		}
	}
	// identities
	switch op {
	case opAdd, opBvOr, opBvXor:
		if a.isConst() && a.val == 0 {
			return b
		}
		if b.isConst() && b.val == 0 {
			return a
		}
	case opSub, opShl, opLshr, opAshr:
		if b.isConst() && b.val == 0 {
			return a
		}
		if op == opSub && a == b {
			return mkBV(w, 0)
		}
	case opMul:
		if a.isConst() && a.val == 1 {
			return b
		}
		if b.isConst() && b.val == 1 {
			return a
		}
		if (a.isConst() && a.val == 0) || (b.isConst() && b.val == 0) {
			return mkBV(w, 0)
		}
	case opBvAnd:
		if (a.isConst() && a.val == 0) || (b.isConst() && b.val == 0) {
			return mkBV(w, 0)
		}
		if a.isConst() && a.val == mask(w) {
			return b
		}
		if b.isConst() && b.val == mask(w) {
			return a
		}
		if a == b {
			return a
		}
	}
	if op == opBvOr && a == b {
		return a
	}
	// commutative normalisation
	switch op {
	case opAdd, opMul, opBvAnd, opBvOr, opBvXor:
		if a.id > b.id {
			a, b = b, a
		}
	}
	return intern(&Term{op: op, sort: w, args: []*Term{a, b}})
}

func mkExtract(hi, lo int, a *Term) *Term {
	if lo == 0 && hi == a.sort-1 {
		return a
	}
	if a.isConst() {
		return mkBV(hi-lo+1, a.val>>uint(lo))
	}
	switch a.op {
	case opZext:
		inner := a.args[0]
		if hi < inner.sort {
			return mkExtract(hi, lo, inner)
		}
		if lo >= inner.sort {
			return mkBV(hi-lo+1, 0)
		}
		if lo == 0 {
			return mkZext(hi+1, inner)
		}
	case opSext:
		inner := a.args[0]
		if hi < inner.sort {
			return mkExtract(hi, lo, inner)
		}
	case opExtract:
		return mkExtract(hi+a.lo, lo+a.lo, a.args[0])
	case opIte:
		if a.args[1].isConst() || a.args[2].isConst() {
			return mkIte(a.args[0], mkExtract(hi, lo, a.args[1]), mkExtract(hi, lo, a.args[2]))
		}
	}
	return intern(&Term{op: opExtract, sort: hi - lo + 1, args: []*Term{a}, hi: hi, lo: lo})
}

// mkZext zero-extends a to width w (w >= a.sort).
func mkZext(w int, a *Term) *Term {
	if w == a.sort {
		return a
	}
	if w < a.sort {
		return mkExtract(w-1, 0, a)
	}
	if a.isConst() {
		return mkBV(w, a.val)
	}
	if a.op == opZext {
		return mkZext(w, a.args[0])
	}
	if a.op == opIte && (a.args[1].isConst() || a.args[2].isConst()) {
		return mkIte(a.args[0], mkZext(w, a.args[1]), mkZext(w, a.args[2]))
	}
	return intern(&Term{op: opZext, sort: w, args: []*Term{a}, lo: w - a.sort})
}

func mkSext(w int, a *Term) *Term {
	if w == a.sort {
		return a
	}
	if w < a.sort {
		return mkExtract(w-1, 0, a)
	}
	if a.isConst() {
		return mkBV(w, uint64(signExt(a.val, a.sort)))
	}
	if a.op == opZext { // sign bit is zero
		return mkZext(w, a.args[0])
	}
	if a.op == opIte && (a.args[1].isConst() || a.args[2].isConst()) {
		return mkIte(a.args[0], mkSext(w, a.args[1]), mkSext(w, a.args[2]))
	}
	return intern(&Term{op: opSext, sort: w, args: []*Term{a}, lo: w - a.sort})
}

func mkConcat(a, b *Term) *Term {
	if a.isConst() && b.isConst() {
		return mkBV(a.sort+b.sort, a.val<<uint(b.sort)|b.val)
	}
	return intern(&Term{op: opConcat, sort: a.sort + b.sort, args: []*Term{a, b}})
}

func sortStr(s int) string {
	if s == 0 {
		return "Bool"
	}
	return fmt.Sprintf("(_ BitVec %d)", s)
}

func constStr(t *Term) string {
	if t.sort == 0 {
		if t.val != 0 {
			return "true"
		}
		return "false"
	}
	if t.sort%4 == 0 {
		return fmt.Sprintf("#x%0*x", t.sort/4, t.val)
	}
	return fmt.Sprintf("#b%0*b", t.sort, t.val)
}

// evalTerm evaluates t under a model of its variables (missing variables are 0).
func evalTerm(t *Term, model map[string]uint64, memo map[int]uint64) uint64 {
	if v, ok := memo[t.id]; ok {
		return v
	}
	var r uint64
	switch t.op {
	case opConst:
		r = t.val
	case opVar:
		r = model[t.name] & mask(max1(t.sort))
	default:
		args := make([]*Term, len(t.args))
		for i, a := range t.args {
			v := evalTerm(a, model, memo)
			if a.sort == 0 {
				args[i] = mkBool(v != 0)
			} else {
				args[i] = mkBV(a.sort, v)
			}
		}
		var c *Term
		switch t.op {
		case opNot:
			c = mkNot(args[0])
		case opAnd:
			c = mkAnd(args[0], args[1])
		case opOr:
			c = mkOr(args[0], args[1])
		case opIte:
			c = mkIte(args[0], args[1], args[2])
		case opEq:
			c = mkEq(args[0], args[1])
		case opUlt, opUle, opSlt, opSle:
			c = mkCmp(t.op, args[0], args[1])
		case opBvNot, opBvNeg:
			c = mkUn(t.op, args[0])
		case opExtract:
			c = mkExtract(t.hi, t.lo, args[0])
		case opZext:
			c = mkZext(t.sort, args[0])
		case opSext:
			c = mkSext(t.sort, args[0])
		case opConcat:
			c = mkConcat(args[0], args[1])
		case opUdiv, opUrem, opSdiv, opSrem:
			if args[1].val == 0 {
				// SMT-LIB total semantics
				switch t.op {
				case opUdiv:
					c = mkBV(t.sort, mask(t.sort))
				case opUrem, opSrem:
					c = args[0]
				case opSdiv:
					if signExt(args[0].val, t.sort) < 0 {
						c = mkBV(t.sort, 1)
					} else {
						c = mkBV(t.sort, mask(t.sort))
					}
				}
			} else {
				c = mkBin(t.op, args[0], args[1])
			}
		default:
			c = mkBin(t.op, args[0], args[1])
		}
		if !c.isConst() {
			panic(engineErr("evalTerm: not constant"))
		}
		r = c.val
	}
	memo[t.id] = r
	return r
}

func max1(x int) int {
	if x < 1 {
		return 1
	}
	return x
}

// termVars collects the variable leaves of t.
func termVars(t *Term, seen map[int]bool, out map[string]*Term) {
	if seen[t.id] {
		return
	}
	seen[t.id] = true
	if t.op == opVar {
		out[t.name] = t
	}
	for _, a := range t.args {
		termVars(a, seen, out)
	}
}
