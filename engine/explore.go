package main

// Path exploration: decisions, path condition, obligations, counterexamples.

import (
	"fmt"
	"go/types"
	"os"
	"sort"
	"strings"
	"time"
)

type engineError struct{ msg string }

func (e engineError) Error() string { return "engine: " + e.msg }
func engineErr(msg string) engineError {
	return engineError{msg}
}

// pathAbort ends the current path without a verdict on the target program.
type pathAbort struct {
	reason       string
	outsideModel bool // true: the path left the modelled fragment (reported, never silently dropped)
}

type decision struct {
	Kind    byte     `json:"k"` // 'b' branch (both sides feasible), 'f' forced branch, 'c' concretization, 'a' assumption
	B       bool     `json:"b,omitempty"`
	Val     uint64   `json:"v,omitempty"`
	Pending bool     `json:"p,omitempty"`
	Excl    []uint64 `json:"x,omitempty"`
}

type inputVar struct {
	name string
	t    *Term
	kind types.BasicKind
}

type violation struct {
	Tag     string            `json:"tag"`
	Model   map[string]uint64 `json:"model"`
	Msg     string            `json:"msg,omitempty"`
	Harness string            `json:"harness"`
	Trace   []decision        `json:"trace,omitempty"`
}

type obligationStat struct {
	Reached    int `json:"reached"`
	Trivial    int `json:"trivial"`
	Discharged int `json:"discharged"`
	Violated   int `json:"violated"`
	Unknown    int `json:"unknown"`
}

type pathCtx struct {
	prefix  []decision
	pos     int
	trace   []decision
	pc      []*Term
	newWork [][]decision
	steps   int
	inputs  []inputVar
	inputIx map[string]int
	events  []string
	decided map[int]bool // conditions already resolved on this path (term id -> value)
}

type harnessResult struct {
	Harness       string                       `json:"harness"`
	Paths         int                          `json:"paths"`
	PathsOK       int                          `json:"paths_completed"`
	PathsAborted  map[string]int               `json:"paths_aborted,omitempty"`
	PathsPanicked int                          `json:"paths_panicked"`
	Steps         int64                        `json:"ssa_instructions"`
	Obligations   map[string]*obligationStat   `json:"obligations"`
	Reach         map[string]map[string]uint64 `json:"reach"`
	ReachCount    map[string]int               `json:"reach_count"`
	Violations    []violation                  `json:"violations,omitempty"`
	EngineErrors  []string                     `json:"engine_errors,omitempty"`
	Queries       int                          `json:"solver_queries"`
	SolverTimeS   float64                      `json:"solver_time_s"`
	WallS         float64                      `json:"wall_s"`
	Unknowns      int                          `json:"solver_unknowns"`
	Funcs         map[string]int               `json:"functions_encoded"`
	Stubs         []string                     `json:"stubs,omitempty"`
	Natives       map[string]int               `json:"native_models,omitempty"`
	MaxDecisions  int                          `json:"max_decisions_on_a_path"`
	Truncated     bool                         `json:"truncated,omitempty"`
	CrossChecks   int                          `json:"cross_checked_obligations,omitempty"`
	CrossUnknown  int                          `json:"cross_check_unknown,omitempty"`
	ExpectReach   []string                     `json:"expected_reach,omitempty"`
}

var (
	px     *pathCtx
	solver *Solver
	hres   *harnessResult

	maxStepsPerPath     = 20_000_000
	maxDecisionsPerPath = 4000
	maxPaths            = 2_000_000
)

func assertPC(t *Term) {
	if t.isTrue() {
		return
	}
	px.pc = append(px.pc, t)
	solver.Assert(t)
	if solver2 != nil {
		solver2.Assert(t)
	}
}

// solver2, when set (thorough tier), mirrors the path condition into a second, different solver;
// every obligation decided by the primary is asked there too and the two verdicts must agree.
var solver2 *Solver

// The cross-check solver gets a short per-query limit (an "unknown" there is counted, it fails
// nothing) and a fresh process every 1500 queries: z3 4.8.12 keeps growing under long push/pop
// sessions (1.7 GB per worker were observed).
var newSolver2 func() *Solver
var solver2Base int

func crossCheckTimeoutMs(primary int) int {
	if primary > 20000 {
		return 20000
	}
	return primary
}

func recycleSolver2() {
	if solver2 == nil || newSolver2 == nil || solver2.queries-solver2Base < 1500 {
		return
	}
	solver2.Close()
	solver2 = newSolver2()
	solver2Base = 0
}

// recycleSolver2InPath does the same in the middle of a path (a single path of the HPACK and
// scheduler harnesses can carry thousands of obligations): the fresh process gets the path's scope
// and its path condition again.
func recycleSolver2InPath() {
	if solver2 == nil || newSolver2 == nil || px == nil || solver2.queries-solver2Base < 400 {
		return
	}
	solver2.Close()
	solver2 = newSolver2()
	solver2Base = 0
	solver2.Push()
	for _, t := range px.pc {
		solver2.Assert(t)
	}
}

var crossChecks, crossUnknown int

// crossTime is the wall time this worker has spent in the cross-check solver for the current
// harness; beyond crossBudget the remaining obligations of the harness are decided by the primary
// solver alone (the evidence reports how many were cross-checked).
var crossTime time.Duration

const crossBudget = 90 * time.Second

func recordDecision(d decision) {
	px.trace = append(px.trace, d)
	if len(px.trace) > maxDecisionsPerPath {
		panic(pathAbort{"decision bound exceeded (unwinding failure)", true})
	}
}

// decide resolves a symbolic branch condition on the current path.
func decide(c *Term) bool {
	if c.sort != 0 {
		panic(engineErr("decide on non-bool"))
	}
	if c.isConst() {
		return c.val != 0
	}
	p := px
	if p == nil {
		panic(engineErr("symbolic branch outside a path (package initialisation?)"))
	}
	// a condition (or its negation) that was already resolved on this path needs no new decision
	base, neg := c, false
	if c.op == opNot {
		base, neg = c.args[0], true
	}
	if v, ok := p.decided[base.id]; ok {
		return v != neg
	}
	remember := func(b bool) bool {
		p.decided[base.id] = b != neg
		return b
	}
	if p.pos < len(p.prefix) {
		d := p.prefix[p.pos]
		p.pos++
		if d.Kind != 'b' && d.Kind != 'f' {
			panic(engineErr(fmt.Sprintf("replay divergence: expected branch, have %c at %d", d.Kind, p.pos-1)))
		}
		recordDecision(d)
		if d.Kind == 'b' {
			if d.B {
				assertPC(c)
			} else {
				assertPC(mkNot(c))
			}
		}
		return remember(d.B)
	}
	p.pos++
	rT := solver.Check(c)
	if rT == resUnsat {
		recordDecision(decision{Kind: 'f', B: false})
		return remember(false)
	}
	rF := solver.Check(mkNot(c))
	if rF == resUnsat {
		recordDecision(decision{Kind: 'f', B: true})
		return remember(true)
	}
	alt := make([]decision, len(p.trace), len(p.trace)+1)
	copy(alt, p.trace)
	alt = append(alt, decision{Kind: 'b', B: false})
	p.newWork = append(p.newWork, alt)
	recordDecision(decision{Kind: 'b', B: true})
	assertPC(c)
	return remember(true)
}

// concretize picks a concrete value for t, scheduling the other feasible values as alternatives.
func concretize(t *Term) uint64 {
	if t.isConst() {
		return t.val
	}
	p := px
	if p == nil {
		panic(engineErr("concretization outside a path"))
	}
	var excl []uint64
	if p.pos < len(p.prefix) {
		d := p.prefix[p.pos]
		if d.Kind != 'c' {
			panic(engineErr(fmt.Sprintf("replay divergence: expected concretization, have %c at %d", d.Kind, p.pos)))
		}
		p.pos++
		if !d.Pending {
			recordDecision(d)
			assertPC(mkEq(t, mkBV(t.sort, d.Val)))
			return d.Val
		}
		excl = d.Excl
	} else {
		p.pos++
	}
	if len(excl) == 0 && os.Getenv("GOSMT_CONCDEBUG") != "" {
		fmt.Fprintln(os.Stderr, "concretize at", dbgWhere())
	}
	if len(excl) > 1024 {
		panic(pathAbort{"a symbolic value used as a size or bound has more than 1024 feasible values: not enumerated", true})
	}
	cons := termTrue
	for _, e := range excl {
		cons = mkAnd(cons, mkNot(mkEq(t, mkBV(t.sort, e))))
	}
	r := solver.Check(cons)
	if r == resUnsat {
		panic(pathAbort{"infeasible", false})
	}
	if r == resUnknown {
		panic(pathAbort{"solver unknown during concretization", true})
	}
	v := solver.Values([]*Term{t})[0]
	cons2 := mkAnd(cons, mkNot(mkEq(t, mkBV(t.sort, v))))
	if solver.Check(cons2) != resUnsat {
		alt := make([]decision, len(p.trace), len(p.trace)+1)
		copy(alt, p.trace)
		nx := append(append([]uint64{}, excl...), v)
		alt = append(alt, decision{Kind: 'c', Pending: true, Excl: nx})
		p.newWork = append(p.newWork, alt)
	}
	recordDecision(decision{Kind: 'c', Val: v})
	assertPC(mkEq(t, mkBV(t.sort, v)))
	return v
}

// assume constrains the current path; an unsatisfiable assumption ends it.
func assume(c *Term) {
	if c.isConst() {
		if c.val == 0 {
			panic(pathAbort{"infeasible", false})
		}
		return
	}
	p := px
	if p.pos < len(p.prefix) {
		d := p.prefix[p.pos]
		if d.Kind != 'a' {
			panic(engineErr(fmt.Sprintf("replay divergence: expected assumption, have %c at %d", d.Kind, p.pos)))
		}
		p.pos++
		recordDecision(d)
		assertPC(c)
		return
	}
	p.pos++
	if solver.Check(c) == resUnsat {
		panic(pathAbort{"infeasible", false})
	}
	recordDecision(decision{Kind: 'a'})
	assertPC(c)
}

func inReplay() bool { return px.pos < len(px.prefix) }

func oblig(tag string) *obligationStat {
	o := hres.Obligations[tag]
	if o == nil {
		o = &obligationStat{}
		hres.Obligations[tag] = o
	}
	return o
}

func currentModel() map[string]uint64 {
	m := map[string]uint64{}
	ts := make([]*Term, len(px.inputs))
	for i, in := range px.inputs {
		ts[i] = in.t
	}
	vals := solver.Values(ts)
	for i, in := range px.inputs {
		m[in.name] = vals[i]
	}
	return m
}

// assertProp checks property c at this point of the path.
func assertProp(c *Term, tag string) {
	if inReplay() {
		// already examined by the path this one was forked from (same path condition)
		if !c.isConst() {
			assertPC(c)
		} else if c.val == 0 {
			panic(pathAbort{"after violated assertion", false})
		}
		return
	}
	o := oblig(tag)
	o.Reached++
	if c.isTrue() {
		o.Trivial++
		return
	}
	var r satResult
	if c.isFalse() {
		r = solver.Check()
	} else {
		r = solver.Check(mkNot(c))
	}
	if r == resUnknown {
		r = portfolioCheck(c)
	} else if solver2 != nil && crossTime < crossBudget {
		t0 := time.Now()
		recycleSolver2InPath()
		r2 := func() (r2 satResult) {
			defer func() {
				if e := recover(); e != nil {
					// the cross-check process died (memory cap) or answered garbage: not a verdict; start over
					solver2.Close()
					solver2 = newSolver2()
					solver2Base = 0
					solver2.Push()
					for _, t := range px.pc {
						solver2.Assert(t)
					}
					r2 = resUnknown
				}
			}()
			if c.isFalse() {
				return solver2.Check()
			}
			return solver2.Check(mkNot(c))
		}()
		crossTime += time.Since(t0)
		crossChecks++
		if r2 == resUnknown {
			crossUnknown++
		} else if r2 != r {
			panic(engineErr(fmt.Sprintf("solver disagreement on obligation %q: %s says %s, %s says %s", tag, solver.name, r, solver2.name, r2)))
		}
	}
	switch r {
	case resUnsat:
		o.Discharged++
	case resUnknown:
		o.Unknown++
	case resSat:
		o.Violated++
		if o.Violated == 1 {
			hres.Violations = append(hres.Violations, violation{Tag: tag, Model: currentModel(), Harness: hres.Harness,
				Trace: append([]decision{}, px.trace...)})
		}
	}
	if c.isFalse() {
		panic(pathAbort{"after violated assertion", false})
	}
	assertPC(c)
}

func reach(tag string) {
	hres.ReachCount[tag]++
	if _, ok := hres.Reach[tag]; ok {
		return
	}
	if inReplay() {
		hres.ReachCount[tag]--
		return
	}
	if solver.Check() == resSat {
		hres.Reach[tag] = currentModel()
	}
}

func newInput(name string, kind types.BasicKind) value {
	w, _ := kindInfo(kind)
	if pinnedModel != nil {
		if kind == types.Bool {
			return pinnedModel[name] != 0
		}
		return termToVal(mkBV(w, pinnedModel[name]), kind)
	}
	if i, ok := px.inputIx[name]; ok {
		in := px.inputs[i]
		if in.kind != kind {
			panic(engineErr("input " + name + " redeclared with a different type"))
		}
		return sv{in.t, kind}
	}
	t := mkVar(name, w)
	px.inputIx[name] = len(px.inputs)
	px.inputs = append(px.inputs, inputVar{name, t, kind})
	return sv{t, kind}
}

// ---------------------------------------------------------------- driver

type pathOutcome struct {
	kind   string // "ok", "abort", "panic", "engine"
	detail string
}

func runPath(i *interpreter, fn value, prefix []decision) (out pathOutcome) {
	recycleSolver2()
	solver.Push()
	if solver2 != nil {
		solver2.Push()
	}
	journalOn = true
	px = &pathCtx{prefix: prefix, inputIx: map[string]int{}, decided: map[int]bool{}}
	i.spawned = nil
	resetWatch()
	i.schedOn, i.schedFrom, i.nextGo = false, 0, 0
	sch, timerRecs = nil, nil
	defer func() {
		journalOn = false
		rollback()
		solver.Pop()
		if solver2 != nil {
			solver2.Pop()
		}
	}()
	func() {
		defer func() {
			r := recover()
			switch r := r.(type) {
			case nil:
				out = pathOutcome{"ok", ""}
			case pathAbort:
				k := "abort"
				if r.outsideModel {
					k = "abort-outside-model"
				}
				out = pathOutcome{k, r.reason}
			case targetPanic:
				out = pathOutcome{"panic", panicString(r)}
			case goroutinePanic:
				out = pathOutcome{"panic", "unrecovered " + r.msg}
			case engineError:
				out = pathOutcome{"engine", r.msg}
			default:
				out = pathOutcome{"engine", fmt.Sprintf("host panic: %v", r)}
			}
		}()
		defer threadsEnd()
		call(i, nil, 0, fn, nil)
	}()
	return
}

func panicString(p targetPanic) string {
	switch v := p.v.(type) {
	case iface:
		switch s := v.v.(type) {
		case string:
			return s
		}
		if v.t != nil {
			// error or Stringer values: show the type and the first string field
			if st, ok := v.v.(*value); ok && st != nil {
				return fmt.Sprintf("%s %s", v.t, toString(*st))
			}
			return fmt.Sprintf("%s %s", v.t, toString(v.v))
		}
	}
	return toString(p.v)
}

// exploreHarness runs every feasible path of the harness function.
func exploreHarness(i *interpreter, name string, fn value, budget time.Duration) *harnessResult {
	start := time.Now()
	hres = &harnessResult{Harness: name, Obligations: map[string]*obligationStat{}, Reach: map[string]map[string]uint64{},
		ReachCount: map[string]int{}, PathsAborted: map[string]int{}, Funcs: map[string]int{}, Natives: map[string]int{}}
	q0, t0, u0 := solver.queries, solver.solveTime, solver.unknowns
	work := [][]decision{nil}
	for len(work) > 0 {
		if hres.Paths >= maxPaths || (budget > 0 && time.Since(start) > budget) {
			hres.Truncated = true
			break
		}
		prefix := work[len(work)-1]
		work = work[:len(work)-1]
		out := runPath(i, fn, prefix)
		work = append(work, px.newWork...)
		accountPath(name, out)
		px = nil
	}
	hres.Queries = solver.queries - q0
	hres.SolverTimeS = (solver.solveTime - t0).Seconds()
	hres.Unknowns = solver.unknowns - u0
	hres.WallS = time.Since(start).Seconds()
	return hres
}

func firstLine(s string) string {
	if i := strings.IndexByte(s, '\n'); i >= 0 {
		return s[:i]
	}
	return s
}

func sortedKeys[V any](m map[string]V) []string {
	ks := make([]string, 0, len(m))
	for k := range m {
		ks = append(ks, k)
	}
	sort.Strings(ks)
	return ks
}

// portfolioCheck re-asks an obligation that the primary solver could not decide: the path
// condition and the negated property are sent to the other installed solvers, each in a fresh
// process with its own timeout. Any definite answer is taken.
func portfolioCheck(c *Term) satResult {
	for _, name := range []string{"z3", "z3-new", "cvc5"} {
		if name == solver.name {
			continue
		}
		res := func() (r satResult) {
			defer func() {
				if recover() != nil {
					r = resUnknown
				}
			}()
			s2 := NewSolver(name, solver.timeoutMs, 1)
			defer s2.Close()
			for _, p := range px.pc {
				s2.Assert(p)
			}
			if c.isFalse() {
				return s2.Check()
			}
			return s2.Check(mkNot(c))
		}()
		portfolioUses++
		if res != resUnknown {
			if res == resSat {
				// models are fetched from the primary solver; a sat verdict from the portfolio is
				// reported as unknown unless the primary can confirm it with more time
				return resUnknown
			}
			return res
		}
	}
	return resUnknown
}

var portfolioUses int

// chooseOne resolves a choice among mutually exclusive, jointly exhaustive guards: it returns the
// index of a guard that holds on the continuation of this path and schedules the other feasible
// ones as alternatives. A solver model picks the candidate, so the cost is two queries per
// explored alternative instead of one per guard.
func chooseOne(guards []*Term) int {
	p := px
	if p == nil {
		panic(engineErr("symbolic choice outside a path"))
	}
	for k, g := range guards {
		if g.isTrue() {
			return k
		}
	}
	var excl []uint64
	if p.pos < len(p.prefix) {
		d := p.prefix[p.pos]
		if d.Kind != 'g' {
			panic(engineErr(fmt.Sprintf("replay divergence: expected choice, have %c at %d", d.Kind, p.pos)))
		}
		p.pos++
		if !d.Pending {
			recordDecision(d)
			assertPC(guards[d.Val])
			return int(d.Val)
		}
		excl = d.Excl
	} else {
		p.pos++
	}
	isExcl := map[uint64]bool{}
	cons := termTrue
	for _, e := range excl {
		isExcl[e] = true
		cons = mkAnd(cons, mkNot(guards[e]))
	}
	r := solver.Check(cons)
	if r == resUnsat {
		panic(pathAbort{"infeasible", false})
	}
	if r == resUnknown {
		panic(pathAbort{"solver unknown during a symbolic choice", true})
	}
	var cand []*Term
	var candIx []int
	for k, g := range guards {
		if !isExcl[uint64(k)] && !g.isFalse() {
			cand = append(cand, g)
			candIx = append(candIx, k)
		}
	}
	vals := solver.Values(cand)
	pick := -1
	for j, v := range vals {
		if v != 0 {
			pick = candIx[j]
			break
		}
	}
	if pick < 0 {
		panic(engineErr("symbolic choice: guards are not exhaustive"))
	}
	if solver.Check(mkAnd(cons, mkNot(guards[pick]))) != resUnsat {
		alt := make([]decision, len(p.trace), len(p.trace)+1)
		copy(alt, p.trace)
		nx := append(append([]uint64{}, excl...), uint64(pick))
		alt = append(alt, decision{Kind: 'g', Pending: true, Excl: nx})
		p.newWork = append(p.newWork, alt)
	}
	recordDecision(decision{Kind: 'g', Val: uint64(pick)})
	assertPC(guards[pick])
	return pick
}
