package main

// Native models: functions whose bodies are out of reach (assembly, unsafe, reflect,
// runtime) or deliberately abstracted (hashes, formatting, logging, locks). Every use is
// counted and reported in the evidence as part of the trusted base.

import (
	"fmt"
	"go/token"
	"go/types"
	"math"
	"strconv"
	"strings"

	"golang.org/x/tools/go/ssa"
)

type nativeFn func(fr *frame, args []value) value

var natives = map[string]nativeFn{}

// prefix-matched natives (generic instantiations have type arguments in their names)
var nativePrefixes = []struct {
	prefix, suffix string
	fn             nativeFn
}{}

func lookupNative(name string) nativeFn {
	if f, ok := natives[name]; ok {
		return f
	}
	for _, p := range nativePrefixes {
		if strings.HasPrefix(name, p.prefix) && strings.HasSuffix(name, p.suffix) {
			natives[name] = p.fn
			return p.fn
		}
	}
	return nil
}

func nop(fr *frame, args []value) value { return nil }

func cellsOf(v value) []value {
	switch v := v.(type) {
	case []value:
		return v
	case string, symstr:
		return strCells(v)
	}
	panic(engineErr(fmt.Sprintf("cellsOf: %T", v)))
}

// indexByteTerm returns the index of the first cell equal to c, or -1, as a value.
func indexByte(cells []value, c value) value {
	acc := mkBV(64, ^uint64(0))
	for i := len(cells) - 1; i >= 0; i-- {
		acc = mkIte(cellEq(cells[i], c), mkBV(64, uint64(i)), acc)
	}
	return termToVal(acc, types.Int)
}

func lastIndexByte(cells []value, c value) value {
	acc := mkBV(64, ^uint64(0))
	for i := 0; i < len(cells); i++ {
		acc = mkIte(cellEq(cells[i], c), mkBV(64, uint64(i)), acc)
	}
	return termToVal(acc, types.Int)
}

func allConcreteBytes(cells []value) ([]byte, bool) {
	out := make([]byte, len(cells))
	for i, c := range cells {
		b, ok := c.(uint8)
		if !ok {
			return nil, false
		}
		out[i] = b
	}
	return out, true
}

func bytesToCells(b []byte) []value {
	out := make([]value, len(b))
	for i, c := range b {
		out[i] = c
	}
	return out
}

// compareCells implements bytes.Compare / strings.Compare (concrete fast path, else forks).
func compareCells(a, b []value) value {
	if decide(seqEq(a, b)) {
		return 0
	}
	if decide(seqLess(a, b)) {
		return -1
	}
	return 1
}

// ---------------------------------------------------------------- hashes (uninterpreted)

type hashCall struct {
	in  []value
	out []value
}

var hashCalls = map[string][]hashCall{}
var hashSeq int

// uninterpretedHash returns n output bytes for input in, functionally consistent with
// every earlier call of the same hash on this path.
func uninterpretedHash(kind string, in []value, n int) []value {
	cp := make([]value, len(in))
	copy(cp, in)
	hashSeq++
	fresh := make([]value, n)
	for i := range fresh {
		fresh[i] = newInput(fmt.Sprintf("%s#%d[%d]", kind, len(hashCalls[kind]), i), types.Uint8)
	}
	out := fresh
	prev := hashCalls[kind]
	for j := len(prev) - 1; j >= 0; j-- {
		g := seqEq(prev[j].in, cp)
		if g.isFalse() {
			continue
		}
		merged := make([]value, n)
		for i := 0; i < n; i++ {
			merged[i] = iteByte(g, prev[j].out[i], out[i])
		}
		out = merged
	}
	old := hashCalls[kind]
	journalFn(func() { hashCalls[kind] = old })
	hashCalls[kind] = append(old[:len(old):len(old)], hashCall{cp, out})
	if px != nil {
		px.events = append(px.events, fmt.Sprintf("%s(len=%d)", kind, len(in)))
	}
	return out
}

// ---------------------------------------------------------------- formatting

// decCells renders integer term v (64-bit, non-negative as unsigned unless signed) in base 10.
func decCells(v value, signed bool) []value {
	switch x := v.(type) {
	case sv:
		w, sg := kindInfo(x.k)
		t := x.t
		var out []value
		if sg {
			neg := mkCmp(opSlt, t, mkBV(w, 0))
			if decide(neg) {
				out = append(out, uint8('-'))
				t = mkUn(opBvNeg, t)
				return append(out, tokv{'d', mkZext(64, t)})
			}
			return append(out, tokv{'d', mkSext(64, t)})
		}
		return append(out, tokv{'d', mkZext(64, t)})
	default:
		var s string
		switch x := v.(type) {
		case uint, uint8, uint16, uint32, uint64, uintptr:
			s = strconv.FormatUint(asUint64(x), 10)
		default:
			s = strconv.FormatInt(asInt64(x), 10)
		}
		return strCells(s)
	}
}

func hexDigitCell(nib *Term) value { // nib: 8-bit term < 16
	lt10 := mkCmp(opUlt, nib, mkBV(8, 10))
	return termToVal(mkIte(lt10, mkBin(opAdd, nib, mkBV(8, '0')), mkBin(opAdd, nib, mkBV(8, 'a'-10))), types.Uint8)
}

// hexCells renders v in lower-case hex padded with zeros to minWidth.
func hexCells(v value, minWidth int, upper bool) []value {
	switch x := v.(type) {
	case sv:
		w, _ := kindInfo(x.k)
		if w <= 4*minWidth {
			// fixed shape: exactly minWidth digits
			out := make([]value, minWidth)
			t := mkZext(64, x.t)
			for i := 0; i < minWidth; i++ {
				sh := uint64(4 * (minWidth - 1 - i))
				nib := mkExtract(7, 0, mkBin(opBvAnd, mkBin(opLshr, t, mkBV(64, sh)), mkBV(64, 15)))
				out[i] = hexDigitCell(nib)
			}
			return out
		}
		t := mkZext(64, x.t)
		// pad with zeros by case split on magnitude, then an opaque token
		var out []value
		for d := minWidth - 1; d >= 1; d-- {
			// needs at least d leading zeros?  v < 16^(minWidth-d)
			_ = d
		}
		digits := 1
		for digits < minWidth {
			lim := mkBV(64, uint64(1)<<uint(4*digits))
			if decide(mkCmp(opUlt, t, lim)) {
				break
			}
			digits++
		}
		if digits < minWidth {
			for i := 0; i < minWidth-digits; i++ {
				out = append(out, uint8('0'))
			}
		}
		return append(out, tokv{'x', t})
	default:
		s := strconv.FormatUint(asUint64(widenU(x)), 16)
		for len(s) < minWidth {
			s = "0" + s
		}
		if upper {
			s = strings.ToUpper(s)
		}
		return strCells(s)
	}
}

func widenU(x value) value {
	switch v := x.(type) {
	case int:
		return uint64(v)
	case int8:
		return uint64(uint8(v))
	case int16:
		return uint64(uint16(v))
	case int32:
		return uint64(uint32(v))
	case int64:
		return uint64(v)
	}
	return x
}

// padDec renders v in decimal, zero-padded to minWidth (only 2 is needed beyond 0/1).
func padDec(v value, minWidth int, padZero bool) []value {
	s, isSym := v.(sv)
	if !isSym {
		_, signed := kindInfo(valKind(v))
		var str string
		if signed {
			str = strconv.FormatInt(asInt64(v), 10)
		} else {
			str = strconv.FormatUint(asUint64(v), 10)
		}
		for len(str) < minWidth {
			if padZero {
				str = "0" + str
			} else {
				str = " " + str
			}
		}
		return strCells(str)
	}
	_, signed := kindInfo(s.k)
	if minWidth <= 1 {
		return decCells(v, signed)
	}
	w, _ := kindInfo(s.k)
	if signed && decide(mkCmp(opSlt, s.t, mkBV(w, 0))) {
		panic(engineErr("padded formatting of a negative symbolic integer is not modelled"))
	}
	t := mkZext(64, s.t)
	digits := 1
	lim := uint64(10)
	for digits < minWidth {
		if decide(mkCmp(opUlt, t, mkBV(64, lim))) {
			break
		}
		digits++
		lim *= 10
	}
	var out []value
	pad := uint8(' ')
	if padZero {
		pad = '0'
	}
	for i := 0; i < minWidth-digits; i++ {
		out = append(out, pad)
	}
	return append(out, tokv{'d', t})
}

// callMethod invokes method name (no args, one result) on an interface value if present.
func callMethod(fr *frame, x iface, name string) (value, bool) {
	if x.t == nil {
		return nil, false
	}
	ms := fr.i.prog.MethodSets.MethodSet(x.t)
	for i := 0; i < ms.Len(); i++ {
		sel := ms.At(i)
		if sel.Obj().Name() == name {
			sig := sel.Type().(*types.Signature)
			if sig.Params().Len() != 0 || sig.Results().Len() != 1 {
				return nil, false
			}
			fn := fr.i.prog.MethodValue(sel)
			if fn == nil {
				return nil, false
			}
			return call(fr.i, fr, 0, fn, []value{x.v}), true
		}
	}
	return nil, false
}

// fmtArg renders one operand for verbs %v/%s/%d.
func fmtArgCells(fr *frame, verb byte, arg value) []value {
	itf, ok := arg.(iface)
	if !ok {
		panic(engineErr("fmt arg is not an interface"))
	}
	if itf.t == nil {
		return strCells("<nil>")
	}
	if verb == 'v' || verb == 's' || verb == 'q' || verb == 'w' {
		if types.Implements(itf.t, errorIface()) {
			if r, ok := callMethod(fr, itf, "Error"); ok {
				return strCells(r)
			}
		}
		if r, ok := callMethod(fr, itf, "String"); ok {
			return strCells(r)
		}
	}
	switch v := itf.v.(type) {
	case string, symstr:
		if verb == 'x' {
			panic(engineErr("%x of string not modelled"))
		}
		return strCells(v)
	case bool:
		return strCells(strconv.FormatBool(v))
	case []value:
		if b, ok := itf.t.Underlying().(*types.Slice); ok {
			if e, ok := b.Elem().Underlying().(*types.Basic); ok && e.Kind() == types.Uint8 {
				if verb == 'x' {
					var out []value
					for _, c := range v {
						out = append(out, hexCells(c, 2, false)...)
					}
					return out
				}
				if verb == 's' {
					return v
				}
			}
		}
		return strCells(fmt.Sprintf("<slice len=%d>", len(v)))
	case array:
		if verb == 'x' {
			var out []value
			for _, c := range v {
				out = append(out, hexCells(c, 2, false)...)
			}
			return out
		}
		return strCells(fmt.Sprintf("<array len=%d>", len(v)))
	case float32:
		return strCells(fmt.Sprint(v))
	case float64:
		return strCells(fmt.Sprint(v))
	case *value, *ssa.Function, *closure, *smap, *chanv, structure:
		return strCells("<" + itf.t.String() + ">")
	}
	if b, ok := itf.t.Underlying().(*types.Basic); ok && b.Info()&types.IsInteger != 0 {
		_, signed := kindInfo(b.Kind())
		switch verb {
		case 'x':
			return hexCells(itf.v, 1, false)
		case 'X':
			return hexCells(itf.v, 1, true)
		case 'c':
			if c, ok := itf.v.(sv); ok {
				return []value{symConvInt(types.Uint8, c)}
			}
			return strCells(string(rune(asInt64(itf.v))))
		}
		return decCells(itf.v, signed)
	}
	return strCells("<" + itf.t.String() + ">")
}

var errIface *types.Interface

func errorIface() *types.Interface {
	if errIface == nil {
		errIface = types.Universe.Lookup("error").Type().Underlying().(*types.Interface)
	}
	return errIface
}

// sprintf models fmt.Sprintf for the verbs listed in DESIGN.md.
func sprintf(fr *frame, format value, args []value) []value {
	f, ok := format.(string)
	if !ok {
		panic(engineErr("symbolic format string"))
	}
	var out []value
	ai := 0
	for i := 0; i < len(f); i++ {
		c := f[i]
		if c != '%' {
			out = append(out, c)
			continue
		}
		i++
		if i >= len(f) {
			out = append(out, strCells("%!(NOVERB)")...)
			break
		}
		if f[i] == '%' {
			out = append(out, uint8('%'))
			continue
		}
		padZero := false
		sharp := false
		for i < len(f) && (f[i] == '0' || f[i] == '#' || f[i] == '+' || f[i] == '-' || f[i] == ' ') {
			if f[i] == '0' {
				padZero = true
			}
			if f[i] == '#' {
				sharp = true
			}
			i++
		}
		width := 0
		for i < len(f) && f[i] >= '0' && f[i] <= '9' {
			width = width*10 + int(f[i]-'0')
			i++
		}
		if i < len(f) && f[i] == '.' {
			i++
			for i < len(f) && f[i] >= '0' && f[i] <= '9' {
				i++
			}
		}
		if i >= len(f) {
			break
		}
		verb := f[i]
		if ai >= len(args) {
			out = append(out, strCells("%!"+string(verb)+"(MISSING)")...)
			continue
		}
		arg := args[ai]
		ai++
		itf := arg.(iface)
		isInt := false
		if itf.t != nil {
			if b, ok := itf.t.Underlying().(*types.Basic); ok && b.Info()&types.IsInteger != 0 {
				isInt = true
			}
		}
		switch {
		case verb == 'd' && isInt:
			out = append(out, padDec(itf.v, width, padZero)...)
		case (verb == 'x' || verb == 'X') && isInt:
			if sharp {
				out = append(out, uint8('0'), uint8('x'))
			}
			w := width
			if !padZero {
				w = 1
			}
			if w < 1 {
				w = 1
			}
			out = append(out, hexCells(itf.v, w, verb == 'X')...)
		case verb == 'T':
			if itf.t == nil {
				out = append(out, strCells("<nil>")...)
			} else {
				out = append(out, strCells(itf.t.String())...)
			}
		case verb == 'q':
			out = append(out, uint8('"'))
			out = append(out, fmtArgCells(fr, verb, arg)...)
			out = append(out, uint8('"'))
		default:
			out = append(out, fmtArgCells(fr, verb, arg)...)
		}
	}
	return out
}

func variadicArgs(v value) []value {
	if v == nil {
		return nil
	}
	return v.([]value)
}

// newError builds an *errors.errorString-like opaque error carrying msg; wrapped keeps %w operand.
type fmtError struct {
	msg     value
	wrapped value // iface or nil
}

func init() {
	reg := func(names []string, f nativeFn) {
		for _, n := range names {
			natives[n] = f
		}
	}

	// ---- runtime / misc
	reg([]string{"runtime.Gosched", "time.Sleep"}, func(fr *frame, args []value) value {
		if sch != nil {
			sch.yield()
		}
		return nil
	})
	reg([]string{"runtime.GC", "runtime.KeepAlive", "runtime.SetFinalizer", "runtime.Breakpoint",
		"internal/race.Acquire", "internal/race.Release", "internal/race.ReleaseMerge", "internal/race.Disable", "internal/race.Enable",
		"internal/race.Read", "internal/race.Write", "internal/race.ReadRange", "internal/race.WriteRange"}, nop)
	natives["internal/abi.NoEscape"] = func(fr *frame, args []value) value { return args[0] }
	natives["runtime.Stack"] = func(fr *frame, args []value) value { return 0 }
	natives["runtime.Caller"] = func(fr *frame, args []value) value { return tuple{uintptr(0), "", 0, false} }
	natives["runtime.Callers"] = func(fr *frame, args []value) value { return 0 }
	natives["runtime.GOMAXPROCS"] = func(fr *frame, args []value) value { return 1 }
	natives["runtime.NumCPU"] = func(fr *frame, args []value) value { return 1 }
	natives["os.Getenv"] = func(fr *frame, args []value) value { return "" }
	natives["os.Exit"] = func(fr *frame, args []value) value { panic(pathAbort{"os.Exit", false}) }
	natives["internal/godebug.New"] = func(fr *frame, args []value) value { return (*value)(nil) }
	natives["(*internal/godebug.Setting).Value"] = func(fr *frame, args []value) value { return "" }
	natives["(*internal/godebug.Setting).IncNonDefault"] = nop
	natives["(*internal/godebug.Setting).Name"] = func(fr *frame, args []value) value { return "" }

	// ---- math
	natives["math.Float64bits"] = func(fr *frame, args []value) value { return math.Float64bits(args[0].(float64)) }
	natives["math.Float64frombits"] = func(fr *frame, args []value) value { return math.Float64frombits(args[0].(uint64)) }
	natives["math.Float32bits"] = func(fr *frame, args []value) value { return math.Float32bits(args[0].(float32)) }
	natives["math.Float32frombits"] = func(fr *frame, args []value) value { return math.Float32frombits(args[0].(uint32)) }
	natives["math.Abs"] = func(fr *frame, args []value) value { return math.Abs(args[0].(float64)) }
	natives["math.Floor"] = func(fr *frame, args []value) value { return math.Floor(args[0].(float64)) }
	natives["math.Sqrt"] = func(fr *frame, args []value) value { return math.Sqrt(args[0].(float64)) }
	natives["math.Inf"] = func(fr *frame, args []value) value { return math.Inf(args[0].(int)) }
	natives["math.IsNaN"] = func(fr *frame, args []value) value { return math.IsNaN(args[0].(float64)) }
	natives["math.NaN"] = func(fr *frame, args []value) value { return math.NaN() }

	// ---- bytes / strings kernels backed by assembly
	eq := func(fr *frame, args []value) value { return termToBoolVal(seqEq(cellsOf(args[0]), cellsOf(args[1]))) }
	reg([]string{"bytes.Equal", "internal/bytealg.Equal"}, eq)
	ib := func(fr *frame, args []value) value { return indexByte(cellsOf(args[0]), args[1]) }
	reg([]string{"bytes.IndexByte", "strings.IndexByte", "internal/bytealg.IndexByte", "internal/bytealg.IndexByteString"}, ib)
	lib := func(fr *frame, args []value) value { return lastIndexByte(cellsOf(args[0]), args[1]) }
	reg([]string{"bytes.LastIndexByte", "strings.LastIndexByte", "internal/bytealg.LastIndexByte", "internal/bytealg.LastIndexByteString"}, lib)
	cmp := func(fr *frame, args []value) value { return compareCells(cellsOf(args[0]), cellsOf(args[1])) }
	reg([]string{"bytes.Compare", "internal/bytealg.Compare", "strings.Compare", "internal/bytealg.CompareString"}, cmp)
	natives["internal/bytealg.MakeNoZero"] = func(fr *frame, args []value) value {
		n := asInt64(args[0])
		s := make([]value, n)
		for i := range s {
			s[i] = uint8(0)
		}
		return s
	}
	cnt := func(fr *frame, args []value) value {
		cells := cellsOf(args[0])
		acc := mkBV(64, 0)
		for _, c := range cells {
			acc = mkBin(opAdd, acc, mkIte(cellEq(c, args[1]), mkBV(64, 1), mkBV(64, 0)))
		}
		return termToVal(acc, types.Int)
	}
	reg([]string{"internal/bytealg.Count", "internal/bytealg.CountString"}, cnt)
	idx := func(fr *frame, args []value) value {
		a, b := cellsOf(args[0]), cellsOf(args[1])
		for i := 0; i+len(b) <= len(a); i++ {
			if decide(seqEq(a[i:i+len(b)], b)) {
				return i
			}
		}
		return -1
	}
	reg([]string{"internal/bytealg.Index", "internal/bytealg.IndexString", "strings.Index", "bytes.Index"}, idx)
	natives["strings.EqualFold"] = func(fr *frame, args []value) value {
		a, b := cellsOf(args[0]), cellsOf(args[1])
		if len(a) != len(b) {
			return false
		}
		acc := termTrue
		for i := range a {
			acc = mkAnd(acc, mkEq(lowerTerm(byteTerm(a[i])), lowerTerm(byteTerm(b[i]))))
		}
		return termToBoolVal(acc)
	}

	// ---- strconv
	natives["strconv.Itoa"] = func(fr *frame, args []value) value { return normStr(decCells(args[0], true)) }
	natives["strconv.FormatInt"] = func(fr *frame, args []value) value {
		base := asInt64(args[1])
		switch base {
		case 10:
			return normStr(decCells(args[0], true))
		case 16:
			return normStr(hexCells(args[0], 1, false))
		}
		panic(engineErr("strconv.FormatInt base not modelled"))
	}
	natives["strconv.FormatUint"] = func(fr *frame, args []value) value {
		base := asInt64(args[1])
		switch base {
		case 10:
			return normStr(decCells(args[0], false))
		case 16:
			return normStr(hexCells(args[0], 1, false))
		}
		panic(engineErr("strconv.FormatUint base not modelled"))
	}
	natives["strconv.AppendInt"] = func(fr *frame, args []value) value {
		if asInt64(args[2]) != 10 {
			panic(engineErr("strconv.AppendInt base not modelled"))
		}
		out := appendSlice(args[0].([]value), decCells(args[1], true))
		fillSpare(out, types.Typ[types.Uint8])
		return out
	}
	natives["strconv.AppendUint"] = func(fr *frame, args []value) value {
		if asInt64(args[2]) != 10 {
			panic(engineErr("strconv.AppendUint base not modelled"))
		}
		out := appendSlice(args[0].([]value), decCells(args[1], false))
		fillSpare(out, types.Typ[types.Uint8])
		return out
	}
	natives["strconv.Atoi"] = func(fr *frame, args []value) value {
		s, ok := args[0].(string)
		if !ok {
			panic(engineErr("strconv.Atoi on symbolic string"))
		}
		n, err := strconv.Atoi(s)
		if err != nil {
			return tuple{0, makeOpaqueError(fr, "strconv.Atoi: "+err.Error())}
		}
		return tuple{n, iface{}}
	}
	natives["strconv.Quote"] = func(fr *frame, args []value) value {
		out := []value{uint8('"')}
		out = append(out, strCells(args[0])...)
		return normStr(append(out, uint8('"')))
	}

	// ---- fmt / log
	natives["fmt.Sprintf"] = func(fr *frame, args []value) value {
		return normStr(sprintf(fr, args[0], variadicArgs(args[1])))
	}
	natives["fmt.Sprint"] = func(fr *frame, args []value) value {
		var out []value
		for _, a := range variadicArgs(args[0]) {
			out = append(out, fmtArgCells(fr, 'v', a)...)
		}
		return normStr(out)
	}
	natives["fmt.Sprintln"] = func(fr *frame, args []value) value {
		var out []value
		for i, a := range variadicArgs(args[0]) {
			if i > 0 {
				out = append(out, uint8(' '))
			}
			out = append(out, fmtArgCells(fr, 'v', a)...)
		}
		return normStr(append(out, uint8('\n')))
	}
	natives["fmt.Errorf"] = func(fr *frame, args []value) value {
		va := variadicArgs(args[1])
		msg := normStr(sprintf(fr, args[0], va))
		var wrapped value
		if f, ok := args[0].(string); ok && strings.Contains(f, "%w") {
			// operand of the first %w
			n := 0
			for i := 0; i+1 < len(f); i++ {
				if f[i] == '%' {
					if f[i+1] == '%' {
						i++
						continue
					}
					j := i + 1
					for j < len(f) && strings.IndexByte("0123456789.#+- ", f[j]) >= 0 {
						j++
					}
					if j < len(f) && f[j] == 'w' && n < len(va) {
						wrapped = va[n]
						break
					}
					n++
					i = j
				}
			}
		}
		return makeFmtError(fr, msg, wrapped)
	}
	natives["fmt.Fprintf"] = func(fr *frame, args []value) value {
		cells := sprintf(fr, args[1], variadicArgs(args[2]))
		w := args[0].(iface)
		res := callIfaceMethod(fr, w, "Write", []value{cells})
		return res
	}
	reg([]string{"fmt.Printf", "fmt.Println", "fmt.Print"}, func(fr *frame, args []value) value { return tuple{0, iface{}} })
	reg([]string{"log.Printf", "log.Println", "log.Print", "(*log.Logger).Printf", "(*log.Logger).Println", "(*log.Logger).Print",
		"(*log.Logger).Output", "log.Output"}, func(fr *frame, args []value) value {
		if hres != nil && px != nil {
			px.events = append(px.events, "log")
		}
		return nil
	})
	reg([]string{"log.Fatalf", "log.Fatal", "log.Fatalln", "(*log.Logger).Fatalf", "(*log.Logger).Fatal"}, func(fr *frame, args []value) value {
		panic(pathAbort{"log.Fatal", false})
	})
	reg([]string{"log.Panicf", "log.Panic", "(*log.Logger).Panicf"}, func(fr *frame, args []value) value {
		panic(targetPanicStr("log.Panic"))
	})

	// ---- hashes
	natives["crypto/md5.Sum"] = func(fr *frame, args []value) value {
		return array(uninterpretedHash("md5", cellsOf(args[0]), 16))
	}
	natives["crypto/sha256.Sum256"] = func(fr *frame, args []value) value {
		return array(uninterpretedHash("sha256", cellsOf(args[0]), 32))
	}

	// ---- sort.Slice / sort.SliceStable: insertion sort driving the REAL less closure (what pdqsort
	// runs for n <= 12); symbolic comparisons fork
	sortSlice := func(fr *frame, args []value) value {
		x := args[0].(iface).v.([]value)
		less := args[1]
		for i := 1; i < len(x); i++ {
			for j := i; j > 0; j-- {
				r := call(fr.i, fr, 0, less, []value{j, j - 1})
				if !decideVal(r) {
					break
				}
				a, b := copyVal(x[j]), copyVal(x[j-1])
				setCell(&x[j], b)
				setCell(&x[j-1], a)
			}
		}
		return nil
	}
	reg([]string{"sort.Slice", "sort.SliceStable"}, sortSlice)

	// ---- sync (sequential models)
	// Locks are tracked per owner thread (0 = the harness entry goroutine, 1 = the second thread run
	// from an access hook, see watch.go): a Lock that the other thread holds blocks the hook step.
	lockFn := func(fr *frame, args []value) value {
		m := args[0].(*value)
		if px != nil {
			px.events = append(px.events, fr.fn.String()+fmt.Sprintf("@%p", args[0]))
		}
		if sch != nil {
			sch.preemptPoint("mutex lock")
			sch.block("mutex lock", func() bool { _, held := lockOwner[m]; return !held })
		} else if owner, held := lockOwner[m]; held && owner != curThread {
			if curThread == 1 {
				panic(hookBlocked{})
			}
			panic(pathAbort{"lock held by the other modelled thread (would block)", false})
		}
		prev, had := lockOwner[m]
		journalFn(func() {
			if had {
				lockOwner[m] = prev
			} else {
				delete(lockOwner, m)
			}
		})
		lockOwner[m] = curThread
		return nil
	}
	unlockFn := func(fr *frame, args []value) value {
		m := args[0].(*value)
		if px != nil {
			px.events = append(px.events, fr.fn.String()+fmt.Sprintf("@%p", args[0]))
		}
		if prev, had := lockOwner[m]; had {
			journalFn(func() { lockOwner[m] = prev })
			delete(lockOwner, m)
		}
		return nil
	}
	reg([]string{"(*sync.Mutex).Lock", "(*sync.RWMutex).Lock", "(*sync.RWMutex).RLock"}, lockFn)
	reg([]string{"(*sync.Mutex).Unlock", "(*sync.RWMutex).Unlock", "(*sync.RWMutex).RUnlock"}, unlockFn)
	// WaitGroup: a counter; Wait blocks only in thread mode (threads.go), elsewhere goroutines are not run
	wgAdd := func(w *value, d int64) {
		old, had := wgCount[w]
		journalFn(func() {
			if had {
				wgCount[w] = old
			} else {
				delete(wgCount, w)
			}
		})
		wgCount[w] = old + d
		if wgCount[w] < 0 {
			panic(targetPanicStr("sync: negative WaitGroup counter"))
		}
	}
	natives["(*sync.WaitGroup).Add"] = func(fr *frame, args []value) value {
		wgAdd(args[0].(*value), asInt64(args[1]))
		return nil
	}
	natives["(*sync.WaitGroup).Done"] = func(fr *frame, args []value) value {
		wgAdd(args[0].(*value), -1)
		return nil
	}
	natives["(*sync.WaitGroup).Wait"] = func(fr *frame, args []value) value {
		if sch != nil {
			w := args[0].(*value)
			sch.block("WaitGroup.Wait", func() bool { return wgCount[w] == 0 })
		}
		return nil
	}
	reg([]string{"(*sync.Cond).Signal", "(*sync.Cond).Broadcast"}, func(fr *frame, args []value) value {
		c := args[0].(*value)
		old := condGen[c]
		journalFn(func() { condGen[c] = old })
		condGen[c] = old + 1
		return nil
	})
	natives["(*sync.Mutex).TryLock"] = func(fr *frame, args []value) value { return true }
	natives["(*sync.Cond).Wait"] = func(fr *frame, args []value) value {
		if sch == nil {
			panic(pathAbort{"sync.Cond.Wait would block", false})
		}
		c := args[0].(*value)
		var locker iface
		for _, f := range (*c).(structure) {
			if x, ok := f.(iface); ok && x.t != nil {
				locker = x
			}
		}
		gen := condGen[c]
		callIfaceMethod(fr, locker, "Unlock", nil)
		sch.block("Cond.Wait", func() bool { return condGen[c] != gen })
		callIfaceMethod(fr, locker, "Lock", nil)
		return nil
	}
	natives["(*sync.Once).Do"] = func(fr *frame, args []value) value {
		o := args[0].(*value)
		if onceDone[o] {
			return nil
		}
		if isGlobalCell(fr.i, o) {
			// a package-level Once guards lazy initialisation of package state: run it the way
			// package initialisers run (concretely, not rolled back between paths)
			onceDone[o] = true
			savedPx, savedJ := px, journalOn
			px, journalOn = nil, false
			defer func() { px, journalOn = savedPx, savedJ }()
			call(fr.i, fr, 0, args[1], nil)
			return nil
		}
		onceDone[o] = true
		journalFn(func() { delete(onceDone, o) })
		call(fr.i, fr, 0, args[1], nil)
		return nil
	}
	// sync.Pool with maximal reuse: Get returns the most recently Put object when there is one
	// (the behaviour that exposes stale state), else New().
	natives["(*sync.Pool).Get"] = func(fr *frame, args []value) value {
		p := args[0].(*value)
		if l := poolItems[p]; len(l) > 0 {
			v := l[len(l)-1]
			poolItems[p] = l[:len(l)-1]
			journalFn(func() { poolItems[p] = l })
			return v
		}
		st := (*p).(structure)
		newf := st[len(st)-1] // New func() any is the last field
		switch f := newf.(type) {
		case *ssa.Function:
			if f == nil {
				return iface{}
			}
		}
		return call(fr.i, fr, 0, newf, nil)
	}
	natives["(*sync.Pool).Put"] = func(fr *frame, args []value) value {
		p := args[0].(*value)
		old := poolItems[p]
		journalFn(func() { poolItems[p] = old })
		poolItems[p] = append(old[:len(old):len(old)], args[1])
		return nil
	}
	natives["(*sync.Map).Load"] = func(fr *frame, args []value) value { return tuple{iface{}, false} }

	// ---- sync/atomic on cells
	for _, ty := range []string{"Int32", "Int64", "Uint32", "Uint64", "Uintptr", "Pointer"} {
		natives["sync/atomic.Load"+ty] = func(fr *frame, args []value) value { return *(args[0].(*value)) }
		natives["sync/atomic.Store"+ty] = func(fr *frame, args []value) value { setCell(args[0].(*value), args[1]); return nil }
		natives["sync/atomic.Swap"+ty] = func(fr *frame, args []value) value {
			p := args[0].(*value)
			old := *p
			setCell(p, args[1])
			return old
		}
		natives["sync/atomic.CompareAndSwap"+ty] = func(fr *frame, args []value) value {
			p := args[0].(*value)
			if decideVal(eqVal(nil, *p, args[1])) {
				setCell(p, args[2])
				return true
			}
			return false
		}
		if ty != "Pointer" {
			k := map[string]types.BasicKind{"Int32": types.Int32, "Int64": types.Int64, "Uint32": types.Uint32, "Uint64": types.Uint64, "Uintptr": types.Uintptr}[ty]
			natives["sync/atomic.Add"+ty] = func(fr *frame, args []value) value {
				p := args[0].(*value)
				nv := binop(token.ADD, types.Typ[k], *p, args[1])
				setCell(p, nv)
				return nv
			}
		}
	}
	natives["(*sync/atomic.Value).Load"] = func(fr *frame, args []value) value {
		st := (*args[0].(*value)).(structure)
		return st[0]
	}
	natives["(*sync/atomic.Value).Store"] = func(fr *frame, args []value) value {
		st := (*args[0].(*value)).(structure)
		setCell(&st[0], args[1])
		return nil
	}
	natives["(*sync/atomic.Value).Swap"] = func(fr *frame, args []value) value {
		st := (*args[0].(*value)).(structure)
		old := st[0]
		setCell(&st[0], args[1])
		return old
	}
	natives["(*sync/atomic.Value).CompareAndSwap"] = func(fr *frame, args []value) value {
		st := (*args[0].(*value)).(structure)
		if decideVal(eqVal(emptyIface(), st[0], args[1])) {
			setCell(&st[0], args[2])
			return true
		}
		return false
	}
	// atomic.Pointer[T]: struct { _ [0]*T; _ noCopy; v unsafe.Pointer } -- we keep a *value in field v
	nativePrefixes = append(nativePrefixes,
		struct {
			prefix, suffix string
			fn             nativeFn
		}{"(*sync/atomic.Pointer[", "]).Load", func(fr *frame, args []value) value {
			st := (*args[0].(*value)).(structure)
			if p, ok := st[len(st)-1].(*value); ok {
				return p
			}
			return (*value)(nil)
		}},
		struct {
			prefix, suffix string
			fn             nativeFn
		}{"(*sync/atomic.Pointer[", "]).Store", func(fr *frame, args []value) value {
			st := (*args[0].(*value)).(structure)
			setCell(&st[len(st)-1], args[1])
			return nil
		}},
		struct {
			prefix, suffix string
			fn             nativeFn
		}{"(*sync/atomic.Pointer[", "]).CompareAndSwap", func(fr *frame, args []value) value {
			st := (*args[0].(*value)).(structure)
			cur, _ := st[len(st)-1].(*value)
			if cur == args[1].(*value) {
				setCell(&st[len(st)-1], args[2])
				return true
			}
			return false
		}},
	)

	// ---- time
	natives["time.Now"] = func(fr *frame, args []value) value {
		return zero(fr.fn.Signature.Results().At(0).Type())
	}
	natives["time.Since"] = func(fr *frame, args []value) value { return int64(0) }
	natives["time.Until"] = func(fr *frame, args []value) value { return int64(0) }
	natives["(time.Duration).String"] = func(fr *frame, args []value) value { return "<duration>" }
	natives["(time.Time).String"] = func(fr *frame, args []value) value { return "<time>" }

	// ---- context.WithValue: the real function only adds a reflect-based comparability check
	natives["context.WithValue"] = func(fr *frame, args []value) value {
		parent := args[0].(iface)
		if parent.t == nil {
			panic(targetPanicStr("cannot create context from nil parent"))
		}
		if k := args[1].(iface); k.t == nil {
			panic(targetPanicStr("nil key"))
		}
		ctxPkg := fr.i.prog.ImportedPackage("context")
		vt := ctxPkg.Type("valueCtx").Type()
		cell := value(structure{parent, args[1], args[2]})
		return iface{t: types.NewPointer(vt), v: &cell}
	}

	// ---- context.WithTimeout / WithDeadline: the real cancel machinery (context.WithCancel, interpreted)
	// plus a side table that remembers the timeout; timers never fire inside the engine.
	natives["context.WithTimeout"] = func(fr *frame, args []value) value {
		ctxPkg := fr.i.prog.ImportedPackage("context")
		res := call(fr.i, fr, 0, ctxPkg.Func("WithCancel"), []value{args[0]}).(tuple)
		c := res[0].(iface)
		if p, ok := c.v.(*value); ok {
			ctxTimeouts[p] = args[1]
			journalFn(func() { delete(ctxTimeouts, p) })
		}
		if px != nil {
			px.events = append(px.events, "context.WithTimeout")
		}
		return res
	}
	// Timers never fire on their own inside the engine. Every timer is recorded (creation order,
	// duration, callback, armed or not) so that a harness can inspect it and, in thread mode, fire an
	// AfterFunc callback on a goroutine of its own (vTimerFire).
	timerOf := func(p *value) *timerRec {
		for _, t := range timerRecs {
			if t.cell == p {
				return t
			}
		}
		return nil
	}
	natives["(*time.Timer).Stop"] = func(fr *frame, args []value) value {
		if t := timerOf(args[0].(*value)); t != nil {
			was := t.armed
			journalFn(func() { t.armed = was })
			t.armed = false
			return was
		}
		return true
	}
	natives["(*time.Timer).Reset"] = func(fr *frame, args []value) value {
		if t := timerOf(args[0].(*value)); t != nil {
			was, d := t.armed, t.d
			journalFn(func() { t.armed, t.d = was, d })
			t.armed, t.d = true, args[1]
			return was
		}
		return true
	}
	natives["time.AfterFunc"] = func(fr *frame, args []value) value {
		if px != nil {
			px.events = append(px.events, "time.AfterFunc")
		}
		cell := zero(mustDeref(fr.fn.Signature.Results().At(0).Type()))
		p := &cell
		var f value
		if len(args) > 1 {
			f = args[1]
		}
		old := timerRecs
		journalFn(func() { timerRecs = old })
		timerRecs = append(old[:len(old):len(old)], &timerRec{cell: p, d: args[0], f: f, armed: true})
		return p
	}
	// NewTimer: as AfterFunc without a callback, plus the channel C (capacity 1) that vTimerFire fills
	natives["time.NewTimer"] = func(fr *frame, args []value) value {
		p := natives["time.AfterFunc"](fr, args[:1]).(*value)
		if st, ok := (*p).(structure); ok && len(st) > 0 {
			ch := makeChan(1)
			st[0] = ch
			timerRecs[len(timerRecs)-1].c = ch
			timerRecs[len(timerRecs)-1].elem = fr.i.prog.ImportedPackage("time").Type("Time").Type()
		}
		return p
	}

	// ---- math/rand (top-level functions): jitter only in the code under test; always the lowest value
	reg([]string{"math/rand.Intn", "math/rand.Int63n", "math/rand.Int31n", "math/rand.Int", "math/rand.Int63", "math/rand.Int31", "math/rand.Uint32", "math/rand.Uint64"}, func(fr *frame, args []value) value {
		return zero(fr.fn.Signature.Results().At(0).Type())
	})

	// ---- reflect: not modelled; TypeOf yields a nil Type (net/http's initialiser only stores two of
	// them to recognise in-memory readers, which then simply are not recognised)
	natives["reflect.TypeOf"] = func(fr *frame, args []value) value { return iface{} }

	// ---- errors
	natives["errors.Is"] = func(fr *frame, args []value) value { return errorsIs(fr, args[0].(iface), args[1].(iface), 0) }
	natives["errors.As"] = func(fr *frame, args []value) value { return errorsAs(fr, args[0].(iface), args[1].(iface), 0) }
	natives["errors.Unwrap"] = func(fr *frame, args []value) value {
		if r, ok := unwrapOne(fr, args[0].(iface)); ok {
			return r
		}
		return iface{}
	}
}

var onceDone = map[*value]bool{}
var wgCount = map[*value]int64{}

type timerRec struct {
	cell  *value
	d     value
	f     value
	armed bool
	c     *chanv     // NewTimer: the channel that receives the expiry
	elem  types.Type // its element type (time.Time)
}

var timerRecs []*timerRec
var condGen = map[*value]int{}
var poolItems = map[*value][]value{}
var ctxTimeouts = map[*value]value{}

func emptyIface() types.Type { return types.NewInterfaceType(nil, nil) }

func lowerTerm(b *Term) *Term {
	isUp := mkAnd(mkCmp(opUle, mkBV(8, 'A'), b), mkCmp(opUle, b, mkBV(8, 'Z')))
	return mkIte(isUp, mkBin(opAdd, b, mkBV(8, 32)), b)
}

// callIfaceMethod invokes a method by name with explicit args on an interface value.
func callIfaceMethod(fr *frame, x iface, name string, args []value) value {
	if x.t == nil {
		panic(targetPanicStr("runtime error: invalid memory address or nil pointer dereference"))
	}
	ms := fr.i.prog.MethodSets.MethodSet(x.t)
	for i := 0; i < ms.Len(); i++ {
		sel := ms.At(i)
		if sel.Obj().Name() == name {
			fn := fr.i.prog.MethodValue(sel)
			return call(fr.i, fr, 0, fn, append([]value{x.v}, args...))
		}
	}
	panic(engineErr("method " + name + " not found on " + x.t.String()))
}

// ---------------------------------------------------------------- errors

// Opaque error values are instances of a type declared in the engine's support package
// when available; otherwise *errors.errorString built through errors.New.
func makeOpaqueError(fr *frame, msg string) value {
	return makeFmtError(fr, msg, nil)
}

var fmtErrWrapped = map[*value]value{}

func makeFmtError(fr *frame, msg value, wrapped value) value {
	// reuse errors.New's concrete type so Error() works from real code
	errorsPkg := fr.i.prog.ImportedPackage("errors")
	if errorsPkg == nil {
		panic(engineErr("errors package not loaded"))
	}
	es := errorsPkg.Type("errorString")
	cell := value(structure{msg})
	p := &cell
	if wrapped != nil {
		if w, ok := wrapped.(iface); ok && w.t != nil {
			fmtErrWrapped[p] = w
			journalFn(func() { delete(fmtErrWrapped, p) })
		}
	}
	return iface{t: types.NewPointer(es.Type()), v: p}
}

func unwrapOne(fr *frame, e iface) (iface, bool) {
	if e.t == nil {
		return iface{}, false
	}
	if p, ok := e.v.(*value); ok {
		if w, ok := fmtErrWrapped[p]; ok {
			return w.(iface), true
		}
	}
	ms := fr.i.prog.MethodSets.MethodSet(e.t)
	for i := 0; i < ms.Len(); i++ {
		sel := ms.At(i)
		if sel.Obj().Name() == "Unwrap" {
			sig := sel.Type().(*types.Signature)
			if sig.Params().Len() == 0 && sig.Results().Len() == 1 {
				if types.Identical(sig.Results().At(0).Type(), types.Universe.Lookup("error").Type()) {
					r := call(fr.i, fr, 0, fr.i.prog.MethodValue(sel), []value{e.v})
					ri := r.(iface)
					return ri, ri.t != nil
				}
			}
		}
	}
	return iface{}, false
}

func comparableIface(x iface) bool {
	if x.t == nil {
		return true
	}
	return types.Comparable(x.t)
}

func errorsIs(fr *frame, err, target iface, depth int) value {
	if depth > 20 {
		return false
	}
	if err.t == nil || target.t == nil {
		return err.t == nil && target.t == nil
	}
	if comparableIface(target) && sameType(err.t, target.t) {
		if decideVal(eqVal(err.t, err.v, target.v)) {
			return true
		}
	}
	// Is(error) bool method
	ms := fr.i.prog.MethodSets.MethodSet(err.t)
	for i := 0; i < ms.Len(); i++ {
		sel := ms.At(i)
		if sel.Obj().Name() == "Is" {
			sig := sel.Type().(*types.Signature)
			if sig.Params().Len() == 1 && sig.Results().Len() == 1 {
				r := call(fr.i, fr, 0, fr.i.prog.MethodValue(sel), []value{err.v, target})
				if decideVal(r) {
					return true
				}
			}
		}
	}
	if next, ok := unwrapOne(fr, err); ok {
		return errorsIs(fr, next, target, depth+1)
	}
	return false
}

func errorsAs(fr *frame, err, target iface, depth int) value {
	if depth > 20 || err.t == nil {
		return false
	}
	if target.t == nil {
		panic(targetPanicStr("errors: target cannot be nil"))
	}
	pt, ok := target.t.Underlying().(*types.Pointer)
	if !ok {
		panic(targetPanicStr("errors: target must be a non-nil pointer"))
	}
	elem := pt.Elem()
	tp := target.v.(*value)
	assignable := false
	if it, ok := elem.Underlying().(*types.Interface); ok {
		assignable = types.Implements(err.t, it)
		if assignable {
			setCell(tp, err)
			return true
		}
	} else if types.Identical(err.t, elem) {
		store(elem, tp, err.v)
		return true
	}
	if next, ok := unwrapOne(fr, err); ok {
		return errorsAs(fr, next, target, depth+1)
	}
	return false
}

var globalCellCache = map[*value]bool{}

// isGlobalCell reports whether p is the storage cell of a package-level variable.
func isGlobalCell(i *interpreter, p *value) bool {
	if v, ok := globalCellCache[p]; ok {
		return v
	}
	res := false
	for _, addr := range i.globals {
		if addr == p {
			res = true
			break
		}
	}
	globalCellCache[p] = res
	return res
}
