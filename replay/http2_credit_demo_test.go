package http2

// Native demonstration for C12/C10 (defect D12): a request body that is still buffered when the
// client resets the stream is credited back to the connection window twice - once by closeStream
// and once more when the handler drains the closed pipe - so the server hands the client more
// window than it ever advertised. Run on the real server with real goroutines over net.Pipe.

import (
	"bytes"
	"io"
	"net"
	"net/http"
	"testing"
	"time"
)

func TestVerifDemoC12Credit(t *testing.T) {
	cli, srvConn := net.Pipe()
	defer cli.Close()
	handler := http.HandlerFunc(func(w http.ResponseWriter, r *http.Request) {
		<-r.Context().Done() // busy elsewhere until the client cancels
		io.Copy(io.Discard, r.Body)
	})
	go (&Server{}).ServeConn(srvConn, &ServeConnOpts{BaseConfig: &http.Server{}, Handler: handler})

	fr := NewFramer(cli, cli)
	credit := make(chan int64, 1)
	go func() { // reader: sums connection-level WINDOW_UPDATE increments
		var sum int64
		for {
			cli.SetReadDeadline(time.Now().Add(500 * time.Millisecond))
			f, err := fr.ReadFrame()
			if err != nil {
				credit <- sum
				return
			}
			if wu, ok := f.(*WindowUpdateFrame); ok && wu.StreamID == 0 {
				sum += int64(wu.Increment)
			}
		}
	}()
	io.WriteString(cli, ClientPreface)
	fr.WriteSettings()
	const rounds, size = 8, 8192
	var sent int64
	for i := 0; i < rounds; i++ {
		id := uint32(2*i + 1)
		var hb bytes.Buffer
		hb.Write([]byte{0x83, 0x87, 0x84}) // :method POST, :scheme https, :path /
		fr.WriteHeaders(HeadersFrameParam{StreamID: id, BlockFragment: hb.Bytes(), EndHeaders: true})
		fr.WriteData(id, false, make([]byte, size))
		sent += size
		fr.WriteRSTStream(id, ErrCodeCancel)
		time.Sleep(20 * time.Millisecond)
	}
	got := <-credit
	advertisedAtStart := int64(1<<20 - 65535) // the start-up WINDOW_UPDATE raising the window to 1 MiB
	returned := got - advertisedAtStart
	t.Logf("DEMO sent=%d bytes of DATA, connection credit returned=%d", sent, returned)
	if returned > sent {
		t.Logf("DEMO-VIOLATION connection window grew by %d bytes beyond what was advertised", returned-sent)
	} else {
		t.Logf("DEMO-OK credit returned never exceeds bytes sent")
	}
}
