//go:build verif

package proxyserver

// Native end-to-end demonstrations for counterexamples of the serveConn harnesses, whose
// engine runs stub crypto/tls and net/http: the same fault is injected into the REAL stack
// (real crypto/tls handshake over net.Pipe, real net/http, real forked http2) and the
// observable effect is reported in the replay vocabulary of the engine.
//
// Reads the counterexample model from $GOSMT_MODEL, the property from $GOSMT_DEMO.

import (
	"bufio"
	"context"
	"crypto/ecdsa"
	"crypto/elliptic"
	"crypto/rand"
	"crypto/tls"
	"crypto/x509"
	"crypto/x509/pkix"
	"encoding/json"
	"fmt"
	"math/big"
	"net"
	"net/http"
	"os"
	"os/exec"
	"strings"
	"testing"
	"time"
)

func demoModel() map[string]uint64 {
	m := map[string]uint64{}
	if b, err := os.ReadFile(os.Getenv("GOSMT_MODEL")); err == nil {
		json.Unmarshal(b, &m)
	}
	return m
}

func demoCert(t *testing.T) tls.Certificate {
	key, err := ecdsa.GenerateKey(elliptic.P256(), rand.Reader)
	if err != nil {
		t.Fatal(err)
	}
	tmpl := &x509.Certificate{SerialNumber: big.NewInt(1), Subject: pkix.Name{CommonName: "demo"}, DNSNames: []string{"demo"},
		NotBefore: time.Now().Add(-time.Hour), NotAfter: time.Now().Add(time.Hour)}
	der, err := x509.CreateCertificate(rand.Reader, tmpl, tmpl, &key.PublicKey, key)
	if err != nil {
		t.Fatal(err)
	}
	return tls.Certificate{Certificate: [][]byte{der}, PrivateKey: key}
}

// TestVerifDemoC10 runs the child in a separate process: an escaping panic kills it.
func TestVerifDemoC10(t *testing.T) {
	m := demoModel()
	if m["fault.handshake"] != 2 {
		fmt.Println("REPLAY-UNSUPPORTED this fault point cannot be injected into the real stack by the demo")
		return
	}
	cmd := exec.Command(os.Args[0], "-test.run", "^TestVerifDemoC10Child$", "-test.v")
	cmd.Env = append(os.Environ(), "VERIF_DEMO_CHILD=1")
	out, err := cmd.CombinedOutput()
	s := string(out)
	if err != nil && strings.Contains(s, "panic: ") && !strings.Contains(s, "DEMO-CHILD-SURVIVED") {
		fmt.Println("REPLAY-VIOLATION tag=panic-confined-to-connection")
		fmt.Println("  (child process died: " + firstPanicLine(s) + ")")
		return
	}
	if strings.Contains(s, "DEMO-CHILD-SURVIVED") {
		fmt.Println("REPLAY-END process survived the panicking TLS callback")
		return
	}
	fmt.Println("REPLAY-UNSUPPORTED unexpected child output: " + s)
}

func firstPanicLine(s string) string {
	for _, l := range strings.Split(s, "\n") {
		if strings.HasPrefix(l, "panic: ") {
			return l
		}
	}
	return ""
}

func TestVerifDemoC10Child(t *testing.T) {
	if os.Getenv("VERIF_DEMO_CHILD") == "" {
		t.Skip("child only")
	}
	cert := demoCert(t)
	_ = cert
	cfg := &tls.Config{GetCertificate: func(*tls.ClientHelloInfo) (*tls.Certificate, error) {
		panic("user GetCertificate callback panics")
	}}
	server := NewServer(context.Background(), http.NotFoundHandler(), cfg)
	server.setupServe()
	cli, srv := net.Pipe()
	done := make(chan struct{})
	go func() { server.serveConn(srv); close(done) }()
	go func() {
		c := tls.Client(cli, &tls.Config{InsecureSkipVerify: true, ServerName: "demo"})
		c.Handshake()
		cli.Close()
	}()
	select {
	case <-done:
	case <-time.After(5 * time.Second):
	}
	time.Sleep(100 * time.Millisecond)
	fmt.Println("DEMO-CHILD-SURVIVED")
}

// TestVerifDemoC09: an HTTP/1.1 request through the real proxyserver; does the handler see TLS state?
func TestVerifDemoC09(t *testing.T) {
	m := demoModel()
	if m["alpn"] == 0 {
		fmt.Println("REPLAY-UNSUPPORTED the demo drives HTTP/1.1 only")
		return
	}
	clientProtos := []string{"http/1.1"}
	if m["alpn"] == 2 {
		clientProtos = nil // the counterexample is a client that offers no ALPN at all
	}
	cert := demoCert(t)
	sawTLS := make(chan bool, 1)
	h := http.HandlerFunc(func(w http.ResponseWriter, r *http.Request) { sawTLS <- r.TLS != nil; w.WriteHeader(204) })
	server := NewServer(context.Background(), h, &tls.Config{Certificates: []tls.Certificate{cert}, NextProtos: []string{"h2", "http/1.1"}})
	server.setupServe()
	cli, srv := net.Pipe()
	go server.serveConn(srv)
	c := tls.Client(cli, &tls.Config{InsecureSkipVerify: true, ServerName: "demo", NextProtos: clientProtos})
	c.SetDeadline(time.Now().Add(5 * time.Second))
	if err := c.Handshake(); err != nil {
		fmt.Println("REPLAY-UNSUPPORTED handshake failed:", err)
		return
	}
	fmt.Fprintf(c, "GET / HTTP/1.1\r\nHost: demo\r\nConnection: close\r\n\r\n")
	bufio.NewReader(c).ReadString('\n')
	select {
	case saw := <-sawTLS:
		if !saw {
			fmt.Println("REPLAY-VIOLATION tag=request-tls-state-present")
		} else {
			fmt.Println("REPLAY-END handler saw TLS state")
		}
	case <-time.After(5 * time.Second):
		fmt.Println("REPLAY-UNSUPPORTED no request reached the handler")
	}
	c.Close()
}
