//go:build verif

package proxyserver

// Native demonstration for C17 on the real stack (real crypto/tls over net.Pipe, real net/http,
// real forked http2): an HTTP/1.1 exchange is in flight when the server's context is cancelled;
// a client that connects AFTER the cancellation must not be served.

import (
	"bytes"
	"context"
	"crypto/ecdsa"
	"crypto/elliptic"
	"crypto/rand"
	"crypto/tls"
	"crypto/x509"
	"crypto/x509/pkix"
	"errors"
	"fmt"
	"io"
	"log"
	"math/big"
	"net"
	"net/http"
	"sync"
	"testing"
	"time"

	"github.com/wi1dcard/fingerproxy/pkg/http2"
)

type demoPipeListener struct {
	conns  chan net.Conn
	closed chan struct{}
	once   sync.Once
}

func (l *demoPipeListener) Accept() (net.Conn, error) {
	select {
	case c := <-l.conns:
		return c, nil
	case <-l.closed:
		return nil, errors.New("listener closed")
	}
}
func (l *demoPipeListener) Close() error { l.once.Do(func() { close(l.closed) }); return nil }
func (l *demoPipeListener) Addr() net.Addr {
	return &net.TCPAddr{IP: net.IPv4(127, 0, 0, 1), Port: 443}
}

func (l *demoPipeListener) dial() (net.Conn, bool) {
	cli, srv := net.Pipe()
	select {
	case l.conns <- srv:
		return cli, true
	case <-l.closed:
		return nil, false
	case <-time.After(time.Second):
		return nil, false
	}
}

func demo17Cert(t *testing.T) tls.Certificate {
	key, err := ecdsa.GenerateKey(elliptic.P256(), rand.Reader)
	if err != nil {
		t.Fatal(err)
	}
	tmpl := &x509.Certificate{SerialNumber: big.NewInt(1), Subject: pkix.Name{CommonName: "demo"}, DNSNames: []string{"demo"},
		NotBefore: time.Now().Add(-time.Hour), NotAfter: time.Now().Add(time.Hour)}
	der, err := x509.CreateCertificate(rand.Reader, tmpl, tmpl, &key.PublicKey, key)
	if err != nil {
		t.Fatal(err)
	}
	return tls.Certificate{Certificate: [][]byte{der}, PrivateKey: key}
}

func TestVerifDemoC17(t *testing.T) {
	cert := demo17Cert(t)
	gate := make(chan struct{})
	inFlight := make(chan struct{}, 1)
	lateServed := make(chan string, 1)
	h := http.HandlerFunc(func(w http.ResponseWriter, r *http.Request) {
		if r.URL.Path == "/slow" {
			inFlight <- struct{}{}
			<-gate
			w.WriteHeader(204)
			return
		}
		lateServed <- r.Proto
		w.WriteHeader(204)
	})
	ctx, cancel := context.WithCancel(context.Background())
	server := NewServer(ctx, h, &tls.Config{Certificates: []tls.Certificate{cert}, NextProtos: []string{"h2", "http/1.1"}})
	server.TLSHandshakeTimeout = 10 * time.Second // the binary's default (-timeout-tls-handshake)
	ln := &demoPipeListener{conns: make(chan net.Conn), closed: make(chan struct{})}
	serveDone := make(chan error, 1)
	go func() { serveDone <- server.Serve(ln) }()

	// client A: HTTP/1.1 exchange that stays in flight
	rawA, ok := ln.dial()
	if !ok {
		fmt.Println("REPLAY-UNSUPPORTED could not connect client A")
		return
	}
	a := tls.Client(rawA, &tls.Config{InsecureSkipVerify: true, ServerName: "demo", NextProtos: []string{"http/1.1"}})
	a.SetDeadline(time.Now().Add(10 * time.Second))
	if err := a.Handshake(); err != nil {
		fmt.Println("REPLAY-UNSUPPORTED handshake A failed:", err)
		return
	}
	fmt.Fprintf(a, "GET /slow HTTP/1.1\r\nHost: demo\r\n\r\n")
	select {
	case <-inFlight:
	case <-time.After(5 * time.Second):
		fmt.Println("REPLAY-UNSUPPORTED exchange A did not start")
		return
	}

	cancel() // SIGTERM
	time.Sleep(300 * time.Millisecond)

	// client B connects after the cancellation, speaks HTTP/2
	rawB, ok := ln.dial()
	if !ok {
		fmt.Println("REPLAY-END the listener no longer accepts connections after the cancellation")
		close(gate)
		return
	}
	b := tls.Client(rawB, &tls.Config{InsecureSkipVerify: true, ServerName: "demo", NextProtos: []string{"h2"}})
	b.SetDeadline(time.Now().Add(3 * time.Second))
	if err := b.Handshake(); err != nil {
		fmt.Println("REPLAY-END late connection got no TLS handshake:", err)
		close(gate)
		return
	}
	io.WriteString(b, http2.ClientPreface)
	fr := http2.NewFramer(b, b)
	fr.WriteSettings()
	var hb bytes.Buffer
	hb.Write([]byte{0x82, 0x87, 0x84, 0x41, 4, 'd', 'e', 'm', 'o'}) // GET https / :authority demo
	fr.WriteHeaders(http2.HeadersFrameParam{StreamID: 1, BlockFragment: hb.Bytes(), EndStream: true, EndHeaders: true})
	select {
	case proto := <-lateServed:
		fmt.Println("DEMO a connection made 300 ms after the cancellation was served:", proto)
		fmt.Println("REPLAY-VIOLATION tag=connection-attempted-after-cancellation-not-served")
	case <-time.After(2 * time.Second):
		fmt.Println("REPLAY-END late connection was not served")
	}
	close(gate)
	select {
	case err := <-serveDone:
		fmt.Println("DEMO Serve returned after the exchange drained:", err)
	case <-time.After(3 * time.Second):
		fmt.Println("DEMO Serve did not return within 3 s of the drain")
	}
}

// ---- C11 / C17: the cancellation arrives between the end of an HTTP/1.1 client's TLS handshake and
// the hand-over of its connection to the internal HTTP/1.1 server (found by the explored-schedule
// harness VerifC17_cancel_race). The schedule is forced through public configuration only: the
// verbose log line "client hello (...)" is written exactly there, and the demo's log writer cancels
// the server's context at that line and gives the HTTP/1.1 server time to stop accepting.

type demoCloseRecorder struct {
	net.Conn
	mu     sync.Mutex
	closed bool
}

func (c *demoCloseRecorder) Close() error {
	c.mu.Lock()
	c.closed = true
	c.mu.Unlock()
	return c.Conn.Close()
}

func (c *demoCloseRecorder) isClosed() bool {
	c.mu.Lock()
	defer c.mu.Unlock()
	return c.closed
}

type demoLogHook struct {
	once sync.Once
	f    func()
}

func (h *demoLogHook) Write(p []byte) (int, error) {
	if bytes.Contains(p, []byte("client hello (")) {
		h.once.Do(h.f)
	}
	return len(p), nil
}

func TestVerifDemoC11CancelRace(t *testing.T) {
	cert := demo17Cert(t)
	ctx, cancel := context.WithCancel(context.Background())
	server := NewServer(ctx, http.NotFoundHandler(), &tls.Config{Certificates: []tls.Certificate{cert}, NextProtos: []string{"h2", "http/1.1"}})
	server.TLSHandshakeTimeout = 10 * time.Second
	server.VerboseLogs = true
	server.ErrorLog = log.New(&demoLogHook{f: func() {
		cancel()                           // SIGTERM, right after this client's handshake completed
		time.Sleep(300 * time.Millisecond) // the internal HTTP/1.1 server stops accepting
	}}, "", 0)
	ln := &demoPipeListener{conns: make(chan net.Conn), closed: make(chan struct{})}
	serveDone := make(chan error, 1)
	go func() { serveDone <- server.Serve(ln) }()

	cliRaw, srvRaw := net.Pipe()
	rec := &demoCloseRecorder{Conn: srvRaw}
	select {
	case ln.conns <- rec:
	case <-time.After(time.Second):
		fmt.Println("REPLAY-UNSUPPORTED could not connect")
		return
	}
	a := tls.Client(cliRaw, &tls.Config{InsecureSkipVerify: true, ServerName: "demo", NextProtos: []string{"http/1.1"}})
	a.SetDeadline(time.Now().Add(10 * time.Second))
	if err := a.Handshake(); err != nil {
		fmt.Println("REPLAY-UNSUPPORTED handshake failed:", err)
		return
	}
	go io.Copy(io.Discard, a) // session tickets etc.
	select {
	case err := <-serveDone:
		fmt.Println("DEMO Serve returned:", err)
	case <-time.After(5 * time.Second):
		fmt.Println("DEMO Serve did not return within 5 s")
	}
	cliRaw.Close() // the client gives up
	deadline := time.Now().Add(2 * time.Second)
	for time.Now().Before(deadline) && !rec.isClosed() {
		time.Sleep(20 * time.Millisecond)
	}
	if !rec.isClosed() {
		fmt.Println("DEMO 2 s after the client went away the proxy has still not closed the accepted connection (serveConn is parked in SendToChannel: nobody accepts any more)")
		fmt.Println("REPLAY-VIOLATION tag=connection-closed-whenever-the-cancellation-arrives")
		fmt.Println("REPLAY-VIOLATION tag=no-goroutine-left-behind-whenever-the-cancellation-arrives")
	}
	fmt.Println("REPLAY-END")
}
