//go:build verif

package http2

// Native demonstration for known finding K1 (C07): the serve loop writes the captured record
// while handler goroutines read it, with no synchronisation. Run under the race detector:
//   go test -race -tags verif -run TestVerifDemoC07 ./pkg/http2
// The engine's counterexample (torn fingerprint) needs a particular interleaving; the race
// detector reports the unsynchronised access pair itself.

import (
	"bytes"
	"context"
	"fmt"
	"net"
	"net/http"
	"testing"
	"time"

	"github.com/wi1dcard/fingerproxy/pkg/metadata"
	"golang.org/x/net/http2/hpack"
)

func TestVerifDemoC07(t *testing.T) {
	DebugGoroutines = false
	cli, srv := net.Pipe()
	ctx, _ := metadata.NewContext(context.Background())
	started := make(chan struct{})
	done := make(chan struct{})
	h := http.HandlerFunc(func(w http.ResponseWriter, r *http.Request) {
		// what a header injector does: the metadata comes from the request's context
		md, ok := metadata.FromContext(r.Context())
		if !ok {
			fmt.Println("REPLAY-UNSUPPORTED request context carries no metadata")
			return
		}
		close(started)
		deadline := time.Now().Add(300 * time.Millisecond)
		n := 0
		for time.Now().Before(deadline) {
			n += len(md.HTTP2Frames.Marshal(^uint(0)))
		}
		_ = n
		close(done)
	})
	go (&Server{}).ServeConn(srv, &ServeConnOpts{Context: ctx, Handler: h})

	go func() { // drain what the server writes
		buf := make([]byte, 4096)
		for {
			if _, err := cli.Read(buf); err != nil {
				return
			}
		}
	}()
	fr := NewFramer(cli, nil)
	cli.Write([]byte(ClientPreface))
	fr.WriteSettings(Setting{ID: SettingInitialWindowSize, Val: 65535})
	var hb bytes.Buffer
	enc := hpack.NewEncoder(&hb)
	for _, f := range []hpack.HeaderField{{Name: ":method", Value: "GET"}, {Name: ":scheme", Value: "https"}, {Name: ":authority", Value: "demo"}, {Name: ":path", Value: "/"}} {
		enc.WriteField(f)
	}
	fr.WriteHeaders(HeadersFrameParam{StreamID: 1, BlockFragment: hb.Bytes(), EndStream: true, EndHeaders: true})
	select {
	case <-started:
	case <-time.After(5 * time.Second):
		fmt.Println("REPLAY-UNSUPPORTED the handler did not start")
		return
	}
	stop := time.After(250 * time.Millisecond)
loop:
	for i := uint32(0); ; i++ {
		select {
		case <-stop:
			break loop
		default:
		}
		fr.WritePriority(3+2*(i%1000), PriorityParam{StreamDep: 0, Weight: uint8(i)})
	}
	<-done
	cli.Close()
	fmt.Println("REPLAY-END (any data race is reported by the race detector)")
}
