//go:build verif

package http2

// Native demonstration for C07 (first written for known finding K1, now D13): driven by the
// engine's counterexample model (GOSMT_MODEL), it plays the harness' connection history against
// the REAL server over net.Pipe - the client's SETTINGS, an optional WINDOW_UPDATE, the request's
// HEADERS - parks the request's handler, sends the model's later frames (SETTINGS, PRIORITY,
// WINDOW_UPDATE, another request's HEADERS, RST_STREAM of the parked request), and
//   (1) while those frames are being processed the handler keeps rendering its fingerprint: under
//       the race detector (go test -race) an unsynchronised access pair is reported as a DATA RACE;
//   (2) once the serve loop has processed all of them (PING acknowledged) the handler renders once
//       more: the value must be the fingerprint of the frame history at ONE instant between its own
//       HEADERS and now. Anything else prints REPLAY-VIOLATION.
// Without a model it sends two SETTINGS and a PRIORITY frame.

import (
	"bytes"
	"context"
	"encoding/json"
	"fmt"
	"net"
	"net/http"
	"os"
	"sync"
	"testing"
	"time"

	"github.com/wi1dcard/fingerproxy/pkg/metadata"
	"golang.org/x/net/http2/hpack"
)

func TestVerifDemoC07(t *testing.T) {
	DebugGoroutines = false
	model := map[string]uint64{}
	if p := os.Getenv("GOSMT_MODEL"); p != "" {
		if b, err := os.ReadFile(p); err == nil {
			json.Unmarshal(b, &model)
		}
	} else {
		model["later.kind[0]"], model["later.setting[0]"], model["later.kind[1]"], model["later.weight[1]"] = 0, 7, 1, 9
	}
	nLater := 0
	for i := 0; i < 8; i++ {
		if _, ok := model[fmt.Sprintf("later.kind[%d]", i)]; ok {
			nLater = i + 1
		}
	}
	if nLater == 0 {
		nLater = 2 // unconstrained inputs do not appear in a model: kind 0 (SETTINGS), value 0
	}

	cli, srv := net.Pipe()
	ctx, _ := metadata.NewContext(context.Background())
	started := make(chan struct{})
	release := make(chan struct{})
	done := make(chan string, 1)
	var mu sync.Mutex
	calls := 0
	h := http.HandlerFunc(func(w http.ResponseWriter, r *http.Request) {
		mu.Lock()
		calls++
		first := calls == 1
		mu.Unlock()
		if !first {
			return // handlers of the later requests
		}
		// what a header injector does: the metadata comes from the request's context
		md, ok := metadata.FromContext(r.Context())
		if !ok {
			fmt.Println("REPLAY-UNSUPPORTED request context carries no metadata")
			close(started)
			done <- ""
			return
		}
		close(started)
		n := 0
	spin:
		for {
			select {
			case <-release:
				break spin
			default:
				n += len(md.HTTP2Frames.Marshal(^uint(0)))
			}
		}
		_ = n
		done <- md.HTTP2Frames.Marshal(^uint(0))
	})
	go (&Server{}).ServeConn(srv, &ServeConnOpts{Context: ctx, Handler: h})

	pingAck := make(chan struct{}, 4)
	go func() { // read what the server writes; report PING acks
		fr := NewFramer(nil, cli)
		for {
			f, err := fr.ReadFrame()
			if err != nil {
				return
			}
			if pf, ok := f.(*PingFrame); ok && pf.IsAck() {
				pingAck <- struct{}{}
			}
		}
	}()
	fr := NewFramer(cli, nil)
	block := func(fields ...string) []byte {
		var hb bytes.Buffer
		enc := hpack.NewEncoder(&hb)
		for i := 0; i+1 < len(fields); i += 2 {
			enc.WriteField(hpack.HeaderField{Name: fields[i], Value: fields[i+1]})
		}
		return hb.Bytes()
	}

	// ---- the reference: the capture the property defines, instant by instant
	var cur metadata.HTTP2FingerprintingFrames
	var admissible []string
	snap := func() { admissible = append(admissible, cur.Marshal(^uint(0))) }

	cli.Write([]byte(ClientPreface))
	fr.WriteSettings(Setting{ID: SettingMaxConcurrentStreams, Val: 100})
	cur.Settings = []metadata.Setting{{Id: 3, Val: 100}}
	if model["earlier.windowUpdate"] != 0 {
		fr.WriteWindowUpdate(0, 15663105)
		cur.WindowUpdateIncrement = 15663105
	}
	fr.WriteHeaders(HeadersFrameParam{StreamID: 1, BlockFragment: block(":method", "GET", ":path", "/", ":scheme", "https"),
		EndStream: true, EndHeaders: true, Priority: PriorityParam{Weight: 200}})
	cur.Priorities = append(cur.Priorities, metadata.Priority{StreamId: 1, Weight: 200})
	cur.Headers = []metadata.HeaderField{{Name: ":method", Value: "GET"}, {Name: ":path", Value: "/"}, {Name: ":scheme", Value: "https"}}
	snap()
	select {
	case <-started:
	case <-time.After(5 * time.Second):
		fmt.Println("REPLAY-UNSUPPORTED the handler did not start")
		return
	}
	for i := 0; i < nLater; i++ {
		k := func(name string) uint64 { return model[fmt.Sprintf("%s[%d]", name, i)] }
		switch k("later.kind") {
		case 0:
			val := uint32(i+1)<<8 | uint32(k("later.setting")&0xff)
			fr.WriteSettings(Setting{ID: SettingInitialWindowSize, Val: val})
			cur.Settings = []metadata.Setting{{Id: 4, Val: val}}
		case 1:
			w := uint8(k("later.weight"))
			fr.WritePriority(uint32(3+2*i), PriorityParam{StreamDep: 0, Weight: w})
			cur.Priorities = append(append([]metadata.Priority{}, cur.Priorities...), metadata.Priority{StreamId: uint32(3 + 2*i), Weight: w})
		case 2:
			inc := uint32(k("later.incr")&0xff) + 1
			fr.WriteWindowUpdate(0, inc)
			if cur.WindowUpdateIncrement == 0 {
				cur.WindowUpdateIncrement = inc
			}
		case 3:
			fr.WriteHeaders(HeadersFrameParam{StreamID: uint32(3 + 2*i), BlockFragment: block(":path", "/", ":method", "GET", ":scheme", "https"), EndStream: true, EndHeaders: true})
			cur.Headers = []metadata.HeaderField{{Name: ":path", Value: "/"}, {Name: ":method", Value: "GET"}, {Name: ":scheme", Value: "https"}}
		case 4:
			fr.WriteRSTStream(1, ErrCodeCancel)
		}
		snap()
	}
	fr.WritePing(false, [8]byte{7})
	select {
	case <-pingAck:
	case <-time.After(5 * time.Second):
		fmt.Println("REPLAY-UNSUPPORTED no PING acknowledgement")
		return
	}
	close(release)
	got := <-done
	cli.Close()
	ok := false
	for _, a := range admissible {
		if a == got {
			ok = true
		}
	}
	if !ok {
		fmt.Printf("handler rendered %q; fingerprints at the instants since its HEADERS: %q\n", got, admissible)
		fmt.Println("REPLAY-VIOLATION tag=fingerprint-of-one-instant")
	}
	fmt.Println("REPLAY-END (a data race is reported by the race detector)")
}
